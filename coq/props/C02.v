From Coq Require Import List NArith ZArith Bool.
From SK Require Import lib.LGraph model.C01_Model model.C02_Model proof.C02_Proof.
Theorem C02_stub : forall a, rc_attr (rc_attr a) = rc_attr a. Proof. exact stub_c02. Qed.
Print Assumptions C02_stub.
