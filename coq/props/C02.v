(** C02 — reaction centre = changed bonds (+ H-H bonds); radius-k context = atoms within k bonds; chain.
    Statements only; every proof is [exact <lemma of proof/C02_Proof.v>].
    Vocabulary: [wf] (lib/LGraph.v); [std_consistent g] = standard_order is order_G - order_H on every edge
    (proved for every output of its_construct: C01_union); [is_h g u] = the ITS node u has top-level element "H";
    [rc_attr a] = the labels get_rc copies (element, charge, typesGH, atom_map); [dist_le g S k n] = some walk of
    at most k bonds leads from a node of S to n; [geq] = same node labels and same edge map.
    Only theorem 1 needs [std_consistent]; 1' is its counterpart for ITSGraph(ignore_aromaticity=True).
    Theorems 7-12: get_rc with options ([get_rc_x K disconnected keep_mtg], model/C02_Model.v) over ITS graphs whose node
    labels may be absent and whose bonds may carry is_mtg: [include_x m x] = standard_order != 0 or (m and is_mtg),
    [out_edge x] = (order, standard_order, is_mtg = flag or False), [out_edge_rec x] = the same without an is_mtg key,
    [sel_attr K a] = the labels of a selected by element_key, [sel_attr_hh K a] = the same plus typesGH (or its fallback),
    [inc_end m g n] / [hh_end g n] = n lies on an included / on an H-H bond, [charge_changed a] = the two charges in typesGH differ.
    Theorems 13-17: the RadiusExpand helpers. *)
From Coq Require Import List NArith ZArith Bool.
From SK Require Import lib.LGraph lib.C01_GraphLemmas model.C01_Model model.C01_Opts model.C02_Model model.C02_Store model.C02_Api proof.C02_Store proof.C02_StoreCtx proof.C02_StoreEquiv proof.C02_StoreNest proof.C02_StoreCtx2 proof.C02_CtxFix proof.C02_Spectator proof.C02_Implicit proof.C02_Saturate proof.C02_Api model.C02_Compare proof.C02_Compare proof.C02_Proof proof.C02_Opts proof.C02_OptsEquiv proof.C02_Ctx proof.C02_Lre proof.C02_LreTrace proof.C02_Sides proof.C02_Sides2 proof.C02_CtxEquiv proof.C02_LreEquiv proof.C02_CtxCentre proof.C02_CtxNest model.C01_String proof.C01_StringEH proof.C02_ExplicitH.
(* [extract_k_S] in section 28 is the definition of model/C02_Store.v (proof/C02_Proof.v has a lemma of that name) *)
From SK Require Import model.C02_Store.
Import ListNotations.
Local Open Scope Z_scope.

(** 1. a bond is in the centre iff its two orders differ or both atoms are hydrogens; it keeps its labels.
       [std_consistent] (standard_order = order difference: every ITSGraph / construct output without ignore_aromaticity) cannot be
       dropped: get_rc reads standard_order only — witness C02_rc_edges_inconsistent_refuted (theorem 51).
       Model remark: [ensure_node] / [ensure_x] / [ensure_g] leave the state unchanged for an id that is not an atom of the ITS, where
       the Python helpers would raise KeyError; under [wf] every bond joins atoms of the graph, so the case is unreachable. *)
Theorem C02_rc_edges : forall g : its, wf g -> std_consistent g -> forall u v e,
  adj (get_rc g) u v = Some e <->
  adj g u v = Some e /\ (e_G e <> e_H e \/ (is_h g u = true /\ is_h g v = true)).
Proof. exact rc_edges. Qed.
Print Assumptions C02_rc_edges.

(** 2. the atoms of the centre are exactly the endpoints of its bonds, each with the selected ITS labels *)
Theorem C02_rc_nodes : forall g : its, wf g -> forall n b,
  label (get_rc g) n = Some b <->
  (exists a, label g n = Some a /\ b = rc_attr a) /\ (exists v e, adj (get_rc g) n v = Some e).
Proof. exact rc_nodes. Qed.
Print Assumptions C02_rc_nodes.

(** 3. extracting the centre of a centre changes nothing *)
Theorem C02_rc_idem : forall g : its, wf g -> geq (get_rc (get_rc g)) (get_rc g).
Proof. exact rc_idem. Qed.
Print Assumptions C02_rc_idem.

(** 4. get_rc commutes with every injective renumbering (hence isomorphic centres) *)
Theorem C02_rc_equivariant : forall f : N -> N, (forall a b, f a = f b -> a = b) -> forall g : its,
  get_rc (relabel f g) = relabel f (get_rc g).
Proof. exact rc_equivariant. Qed.
Print Assumptions C02_rc_equivariant.

(** 5. for k >= 1 the radius-k context is the induced subgraph of the ITS on exactly the atoms within k bonds
       of the centre *)
Theorem C02_ctx_spec : forall g : its, wf g -> forall k, (1 <= k)%nat ->
  let B := dist_le g (node_ids (get_rc g)) k in
  (forall n, In n (node_ids (extract_k g k)) <-> B n) /\
  (forall n a, label (extract_k g k) n = Some a <-> label g n = Some a /\ B n) /\
  (forall u v e, adj (extract_k g k) u v = Some e <-> adj g u v = Some e /\ B u /\ B v).
Proof. exact ctx_spec. Qed.
Print Assumptions C02_ctx_spec.

(** 6. centre = context(0) within context(k) within context(k') within the ITS (k <= k'), as atom and bond sets *)
Theorem C02_ctx_chain : forall g : its, wf g -> forall k k', (k <= k')%nat ->
  extract_k g 0 = get_rc g /\
  (forall n, In n (node_ids (extract_k g k)) -> In n (node_ids (extract_k g k'))) /\
  (forall u v e, adj (extract_k g k) u v = Some e -> adj (extract_k g k') u v = Some e) /\
  (forall n, In n (node_ids (extract_k g k')) -> In n (node_ids g)) /\
  (forall u v e, adj (extract_k g k') u v = Some e -> adj g u v = Some e).
Proof. exact ctx_chain. Qed.
Print Assumptions C02_ctx_chain.

(** 1'. ITSGraph(ignore_aromaticity=True) computes standard_order with |difference| < 1 zeroed ([ia_consistent], half-units: < 2);
        on such ITS graphs a bond is in the centre iff its orders differ by at least 1, or both atoms are hydrogens *)
Theorem C02_ia_construct : forall bal G H, ia_consistent (its_construct_ab true bal G H).
Proof. exact its_construct_ia_consistent. Qed.
Print Assumptions C02_ia_construct.

Theorem C02_rc_edges_ia : forall g : its, wf g -> ia_consistent g -> forall u v e,
  adj (get_rc g) u v = Some e <->
  adj g u v = Some e /\ (2 <= Z.abs (e_G e - e_H e) \/ (is_h g u = true /\ is_h g v = true)).
Proof. exact rc_edges_ia. Qed.
Print Assumptions C02_rc_edges_ia.

(** there the property's clause "order differs => in the centre" fails (by design of the option): 1.5 -> 1.0 *)
Theorem C02_rc_edges_ia_refuted : exists (g : its) (u v : N) (e : iedge),
  wf g /\ ia_consistent g /\ adj g u v = Some e /\ e_G e <> e_H e /\ adj (get_rc g) u v = None /\ gnodes (get_rc g) = [].
Proof. exact rc_edges_ia_refuted. Qed.
Print Assumptions C02_rc_edges_ia_refuted.

(** 7. get_rc with options: the bonds of the centre.  A bond of the ITS is kept with its order, standard_order and
       is_mtg (default False) iff it is included (changed, or keep_mtg and flagged) or an H-H bond; with disconnected=True
       every other ITS bond between two centre atoms is kept as well, without an is_mtg key *)
Theorem C02_rcx_edges : forall K d m (g : xits), wf g -> forall u v y,
  adj (get_rc_x K d m g) u v = Some y <->
  exists x, adj g u v = Some x /\
    (((include_x m x = true \/ is_hh_x g u v = true) /\ y = out_edge x) \/
     (include_x m x = false /\ is_hh_x g u v = false /\ d = true /\
      In u (node_ids (get_rc_x K d m g)) /\ In v (node_ids (get_rc_x K d m g)) /\ y = out_edge_rec x)).
Proof. exact rcx_edges. Qed.
Print Assumptions C02_rcx_edges.

(** 8. get_rc with options: the atoms of the centre and their labels (element_key).  Atoms on an included bond carry the
       selected labels; atoms reached only through an H-H bond additionally always carry typesGH (fallback if absent);
       with disconnected=True the atoms whose charge differs in typesGH are added with the selected labels *)
Theorem C02_rcx_nodes : forall K d m (g : xits), wf g -> forall n b,
  label (get_rc_x K d m g) n = Some b <->
  exists a, label g n = Some a /\
    ((inc_end m g n /\ b = sel_attr K a) \/
     (~ inc_end m g n /\ hh_end g n /\ b = sel_attr_hh K a) \/
     (~ inc_end m g n /\ ~ hh_end g n /\ d = true /\ charge_changed a = true /\ b = sel_attr K a)).
Proof. exact rcx_nodes. Qed.
Print Assumptions C02_rcx_nodes.

(** 9. keep_mtg=True adds exactly the flagged bonds: centre bonds = changed or is_mtg or H-H bonds *)
Theorem C02_rcx_keep_mtg : forall K (g : xits), wf g -> forall u v y,
  adj (get_rc_x K false true g) u v = Some y <->
  exists x, adj g u v = Some x /\ y = out_edge x /\
            (changed (fst x) = true \/ mtg_flag x = true \/ is_hh_x g u v = true).
Proof. exact rcx_keep_mtg. Qed.
Print Assumptions C02_rcx_keep_mtg.

(** 10. disconnected=True adds exactly the atoms whose charge differs in typesGH, and the centre becomes the induced
        subgraph of the ITS on its atoms (order and standard_order kept) *)
Theorem C02_rcx_disconnected : forall K m (g : xits), wf g ->
  let R := get_rc_x K true m g in
  (forall n, In n (node_ids R) <->
             In n (node_ids (get_rc_x K false m g)) \/ (exists a, label g n = Some a /\ charge_changed a = true)) /\
  (forall u v e, (exists y, adj R u v = Some y /\ fst y = e) <->
                 (exists x, adj g u v = Some x /\ fst x = e) /\ In u (node_ids R) /\ In v (node_ids R)).
Proof. exact rcx_disconnected. Qed.
Print Assumptions C02_rcx_disconnected.

(** 11. the default centre is a subgraph of every variant *)
Theorem C02_rcx_default_sub : forall K d m (g : xits), wf g ->
  (forall n, In n (node_ids (get_rc_x K false false g)) -> In n (node_ids (get_rc_x K d m g))) /\
  (forall u v y, adj (get_rc_x K false false g) u v = Some y -> adj (get_rc_x K d m g) u v = Some y).
Proof. exact rcx_default_sub. Qed.
Print Assumptions C02_rcx_default_sub.

(** 12. with the default element_key, disconnected=False and keep_mtg=False (or no bond flagged) get_rc_x is get_rc
        (theorems 1-4) once the is_mtg attributes are forgotten; on an ITS without is_mtg attributes it is get_rc with
        is_mtg = False on every bond.  No well-formedness hypothesis: the two programs run in lockstep. *)
Theorem C02_rcx_default : forall (g : fits) (m : bool),
  (m = false \/ forall u v x, In (u, v, x) (gedges g) -> mtg_flag x = false) ->
  gmap (fun a : xnode => a) (@fst iedge (option bool)) (get_rc_x K_default false m (emb_f g)) =
  gmap xn_of (fun e : iedge => e) (get_rc (strip_f g)).
Proof. exact rcx_default_is_get_rc. Qed.
Print Assumptions C02_rcx_default.

Theorem C02_rcx_default_emb : forall g : its,
  get_rc_x K_default false false (emb g) = gmap xn_of (fun e : iedge => (e, Some false)) (get_rc g).
Proof. exact rcx_default_emb. Qed.
Print Assumptions C02_rcx_default_emb.

(** 13. find_unequal_order_edges reports a subset of the centre atoms; exactly the centre atoms when standard_order is
        computed by ITSGraph (either way) and no H-H bond is unchanged; the inclusion can be strict *)
Theorem C02_unequal_sub_centre : forall g : its, wf g -> forall n, In n (unequal_nodes g) -> In n (node_ids (get_rc g)).
Proof. exact unequal_sub_rc. Qed.
Print Assumptions C02_unequal_sub_centre.

Theorem C02_unequal_is_centre : forall g : its, wf g -> (std_consistent g \/ ia_consistent g) ->
  (forall u v x, In (u, v, x) (gedges g) -> is_hh g u v = true -> e_std x <> 0) ->
  forall n, In n (unequal_nodes g) <-> In n (node_ids (get_rc g)).
Proof. exact unequal_eq_rc. Qed.
Print Assumptions C02_unequal_is_centre.

Theorem C02_unequal_strict : exists (g : its) (n : N),
  wf g /\ std_consistent g /\ In n (node_ids (get_rc g)) /\ ~ In n (unequal_nodes g).
Proof. exact unequal_strict. Qed.
Print Assumptions C02_unequal_strict.

(** 14. remove_normal_edges(., "standard_order") keeps every atom and exactly the bonds with standard_order != 0,
        all of which are centre bonds *)
Theorem C02_remove_normal : forall g : its, wf g ->
  gnodes (remove_normal g) = gnodes g /\
  (forall u v e, adj (remove_normal g) u v = Some e <-> adj g u v = Some e /\ e_std e <> 0) /\
  (forall u v e, adj (remove_normal g) u v = Some e -> adj (get_rc g) u v = Some e).
Proof. exact remove_normal_spec. Qed.
Print Assumptions C02_remove_normal.

(** 15. extract_k option handling: n_knn >= 0 is theorem 5/6's extract_k; n_knn = -1 is the context whose radius is the
        number of atoms of longest_radius_extension *)
Theorem C02_extract_k_nonneg : forall (g : its) k, 0 <= k -> extract_k_z g k = extract_k g (Z.to_nat k).
Proof. exact extract_k_z_nonneg. Qed.
Print Assumptions C02_extract_k_nonneg.

Theorem C02_extract_k_minus1 : forall g : its, wf g ->
  let rcn := node_ids (get_rc g) in
  let r := length (lre g rcn) in
  extract_k_z g (-1) = induced_sub g (knn g rcn r) /\
  (forall n, In n (node_ids (extract_k_z g (-1))) <-> dist_le g rcn r n).
Proof. exact extract_k_z_minus1. Qed.
Print Assumptions C02_extract_k_minus1.

(** 16. context extraction over a list: same length, element i is (ITS_i, extract_k(ITS_i, n_knn)) and nothing else *)
Theorem C02_context_list : forall (gs : list its) k,
  length (context_list gs k) = length gs /\
  forall i, nth_error (context_list gs k) i = option_map (fun g => (g, extract_k_z g k)) (nth_error gs i).
Proof. exact context_list_spec. Qed.
Print Assumptions C02_context_list.

(** 17. the ITSGraph variant used by the correspondence is C01's construction for the default options *)
Theorem C02_construct_default : forall G H, its_construct_ab false false G H = its_construct G H.
Proof. exact its_construct_o_default. Qed.
Print Assumptions C02_construct_default.

(** 18. get_rc with options: commutes with every injective renumbering; returns a well-formed graph; is idempotent when
        element_key keeps element and typesGH (without element the H-H test fails on the centre: witness) *)
Theorem C02_rcx_equivariant : forall f : N -> N, (forall a b, f a = f b -> a = b) -> forall K d m (g : xits),
  get_rc_x K d m (relabel f g) = relabel f (get_rc_x K d m g).
Proof. exact rcx_equivariant. Qed.
Print Assumptions C02_rcx_equivariant.

Theorem C02_rcx_wf : forall K d m (g : xits), wf g -> wf (get_rc_x K d m g).
Proof. exact rcx_wf. Qed.
Print Assumptions C02_rcx_wf.

Theorem C02_rcx_idem : forall K d m (g : xits), k_el K = true -> k_gh K = true -> wf g ->
  geq (get_rc_x K d m (get_rc_x K d m g)) (get_rc_x K d m g).
Proof. exact rcx_idem. Qed.
Print Assumptions C02_rcx_idem.

Theorem C02_rcx_idem_needs_element : exists (K : keysel) (g : xits),
  wf g /\ k_gh K = true /\ length (gnodes (get_rc_x K false false g)) = 2%nat /\
  gnodes (get_rc_x K false false (get_rc_x K false false g)) = [].
Proof. exact rcx_idem_needs_element. Qed.
Print Assumptions C02_rcx_idem_needs_element.

(** ... and needs typesGH when disconnected=True: an isolated charge-changing atom loses typesGH in the centre *)
Theorem C02_rcx_idem_needs_typesGH : exists (K : keysel) (g : xits),
  wf g /\ k_el K = true /\ length (gnodes (get_rc_x K true false g)) = 1%nat /\
  gnodes (get_rc_x K true false (get_rc_x K true false g)) = [].
Proof. exact rcx_idem_needs_typesGH. Qed.
Print Assumptions C02_rcx_idem_needs_typesGH.

(** 19. longest_radius_extension (model with fuel, [lre]) returns the empty path or a centre atom followed by a
        duplicate-free chain of bonds whose standard_order is 0 ([zchain g n ext]: std0 on every consecutive pair).
        Read alone this would admit [] or a truncated (out-of-fuel) path: the empty alternative occurs only without centre
        atoms (theorem 51, C02_lre_nil_iff) and theorems 21 / 22 bound the result from below by EVERY duplicate-free chain. *)
Theorem C02_lre_path : forall (g : its) (rcn : list N),
  lre g rcn = [] \/
  exists n ext, In n rcn /\ lre g rcn = n :: ext /\ zchain g n ext /\ NoDup (n :: ext).
Proof. exact lre_path. Qed.
Print Assumptions C02_lre_path.

(** 20. the property as stated on the two sides of the reaction.  For the ITS that ITSGraph builds from a reactant graph G and
        a product graph H (base choice as for balance_its=False, or any balance_its when both graphs have equally many atoms),
        two atoms are joined in the centre iff they are bonded on some side and the order differs between the sides
        (absent = 0; with ignore_aromaticity: differs by at least 1 = 2 half-units), or both atoms are hydrogens.
        ([its_construct_ab ia bal] is C01's its_construct for ia = bal = false: theorem 17.) *)
Theorem C02_centre_vs_sides : forall ia bal (G H : mgraph), wf G -> wf H ->
  (bal = false \/ length (gnodes G) = length (gnodes H)) ->
  let I := its_construct_ab ia bal G H in
  forall u v,
    (exists e, adj (get_rc I) u v = Some e) <->
    (adj G u v <> None \/ adj H u v <> None) /\
    ((if ia then 2 <= Z.abs (order_in G u v - order_in H u v) else order_in G u v <> order_in H u v) \/
     (is_h I u = true /\ is_h I v = true)).
Proof. exact centre_vs_sides. Qed.
Print Assumptions C02_centre_vs_sides.

(** 21. ... and it is a longest one as seen from the first centre atom: no duplicate-free chain of standard_order = 0 bonds
        that starts in the first centre atom has more atoms than the returned path (for later centre atoms the search
        excludes the atoms of the paths found before, as the code does) *)
Theorem C02_lre_longest_first : forall (g : its) (n0 : N) (rest ext : list N), wf g -> In n0 (node_ids g) ->
  zchain g n0 ext -> NoDup (n0 :: ext) -> (length (n0 :: ext) <= length (lre g (n0 :: rest)))%nat.
Proof. exact lre_longest_first. Qed.
Print Assumptions C02_lre_longest_first.

(** 22. longest_radius_extension for ALL centre atoms.  [lre_trace g rcn []] records the calls of the inner search in order:
        (start atom, atoms excluded at that moment, path found).  The result is the first longest recorded path; every
        recorded path is a longest duplicate-free chain of standard_order = 0 bonds from its start atom among the chains that
        avoid the excluded atoms; a start atom is never excluded, the excluded atoms contain the atoms of all earlier paths,
        and a centre atom that starts no call lies on an earlier path. *)
Theorem C02_lre_is_first_longest : forall (g : its) rcn,
  lre g rcn = first_longest (map snd (lre_trace g rcn [])) [].
Proof. exact lre_is_first_longest. Qed.
Print Assumptions C02_lre_is_first_longest.

Theorem C02_lre_trace_longest : forall (g : its) (rcn : list N), wf g -> (forall n, In n rcn -> In n (node_ids g)) ->
  forall n v p, In (n, v, p) (lre_trace g rcn []) ->
  (length p <= length (lre g rcn))%nat /\
  forall ext, zchain g n ext -> NoDup (n :: ext) -> (forall x, In x ext -> ~ In x v) ->
              (length (n :: ext) <= length p)%nat.
Proof. exact lre_trace_longest. Qed.
Print Assumptions C02_lre_trace_longest.

Theorem C02_lre_trace_entries : forall (g : its) rcn vis n v p, In (n, v, p) (lre_trace g rcn vis) ->
  In n rcn /\ ~ In n v /\ p = lre_dfs g (lre_fuel g) n v [n] /\ (forall x, In x vis -> In x v).
Proof. exact lre_trace_entries. Qed.
Print Assumptions C02_lre_trace_entries.

Theorem C02_lre_trace_covers : forall (g : its) rcn vis n, In n rcn ->
  In n vis \/ exists v p, In (n, v, p) (lre_trace g rcn vis) \/
                          (exists m v' p', In (m, v', p') (lre_trace g rcn vis) /\ In n p').
Proof. exact lre_trace_covers. Qed.
Print Assumptions C02_lre_trace_covers.

(** 23. remove_normal_edges(., "is_mtg") keeps every atom and exactly the bonds whose is_mtg is absent or True;
        extract_subgraph is the induced subgraph on the listed atoms that exist *)
Theorem C02_remove_normal_mtg : forall g : xits, wf g ->
  gnodes (remove_normal_mtg g) = gnodes g /\
  (forall u v x, adj (remove_normal_mtg g) u v = Some x <-> adj g u v = Some x /\ snd x <> Some false).
Proof. exact remove_normal_mtg_spec. Qed.
Print Assumptions C02_remove_normal_mtg.

Theorem C02_extract_subgraph : forall (g : its) (ids : list N), wf g ->
  (forall n a, label (extract_subgraph g ids) n = Some a <-> label g n = Some a /\ In n ids) /\
  (forall u v e, adj (extract_subgraph g ids) u v = Some e <-> adj g u v = Some e /\ In u ids /\ In v ids).
Proof. exact extract_subgraph_spec. Qed.
Print Assumptions C02_extract_subgraph.

(** 24. the radius-k contexts commute with every injective renumbering (theorem 4 extended from the centre to the contexts) *)
Theorem C02_ctx_equivariant : forall f : N -> N, (forall a b, f a = f b -> a = b) -> forall (g : its) (k : nat),
  extract_k (relabel f g) k = relabel f (extract_k g k).
Proof. exact ctx_equivariant. Qed.
Print Assumptions C02_ctx_equivariant.

(** 20'. theorem 20 for EVERY balance_its (sides with different atom counts included): the base graph only decides the
         order of the ITS atoms and which atom_map a shared atom inherits *)
Theorem C02_centre_vs_sides_all : forall ia bal (G H : mgraph), wf G -> wf H ->
  let I := its_construct_ab ia bal G H in
  forall u v,
    (exists e, adj (get_rc I) u v = Some e) <->
    (adj G u v <> None \/ adj H u v <> None) /\
    ((if ia then 2 <= Z.abs (order_in G u v - order_in H u v) else order_in G u v <> order_in H u v) \/
     (is_h I u = true /\ is_h I v = true)).
Proof. exact centre_vs_sides_all. Qed.
Print Assumptions C02_centre_vs_sides_all.

Theorem C02_construct_wf : forall ia bal (G H : mgraph), wf G -> wf H -> wf (its_construct_ab ia bal G H).
Proof. exact wf_construct_ab. Qed.
Print Assumptions C02_construct_wf.

(** 25. a context carries its centre: for k >= 1 the centre of the radius-k context is the centre of the ITS *)
Theorem C02_rc_of_context : forall g : its, wf g -> forall k, (1 <= k)%nat ->
  geq (get_rc (extract_k g k)) (get_rc g).
Proof. exact rc_of_context. Qed.
Print Assumptions C02_rc_of_context.

(** 26. contexts nest: for 1 <= k <= k' the radius-k context of the radius-k' context is the radius-k context of the ITS *)
Theorem C02_ctx_of_ctx : forall g : its, wf g -> forall k k', (1 <= k)%nat -> (k <= k')%nat ->
  geq (extract_k (extract_k g k') k) (extract_k g k).
Proof. exact ctx_of_ctx. Qed.
Print Assumptions C02_ctx_of_ctx.

(** 27. ITS graphs whose top-level labels are (reactant, product) PAIRS (ITSConstruction.construct with its default store=True;
        model/C02_Store.v: [snode] = labels that are scalars [Sc v] or pairs [Pr a b], [get_rc_S] = the instance of the generic
        [get_rc_g]).  A hydrogen is the element "H" or the pair ("H", "H") (_is_hydrogen; repaired in round 5: before, no pair was
        a hydrogen and get_rc dropped the unchanged H-H bonds of every store=True ITS — finding in known_findings.d/C02.json).
        [flat] keeps the reactant side of every pair, except that an element pair ("H", q), q other than "H", becomes "*".
        (a) get_rc_S runs in lock step with get_rc_x on the flattened graph: same atoms, same bonds, flattened labels — so theorems
            7-11, 18 describe its atoms and bonds;
        (b) every selected label of a centre atom IS the ITS atom's label, whatever its shape (a pair stays that pair);
        (c) the bonds of the centre for every option setting and every label shape (the H-H clause included), and its reading on a
            store=True ITS: included bonds and bonds between two atoms whose element pair is ("H", "H");
        (d) witnesses: the unchanged H-H bond of a store=True ITS is in the centre, a ("H","C") atom is no hydrogen;
        (e) the flattened centre of a store=True ITS is the centre of its store=False twin, for every option setting, when every
            atom has the same element on both sides; the twin of construct(store=True) is construct(store=False): the way the ITS
            stores its labels does not change the centre. *)
Theorem C02_rcS_flat : forall K d m (g : sits), gmapn flat (get_rc_S K d m g) = get_rc_x K d m (gmapn flat g).
Proof. exact rcS_flat. Qed.
Print Assumptions C02_rcS_flat.

Theorem C02_rcS_labels : forall K d m (g : sits), NoDup (node_ids g) -> forall n b, label (get_rc_S K d m g) n = Some b ->
  exists a, label g n = Some a /\
    n_el b = pick (k_el K) (n_el a) /\ n_ch b = pick (k_ch K) (n_ch a) /\ n_amap b = pick (k_amap K) (n_amap a) /\
    n_arom b = pick (k_arom K) (n_arom a) /\ n_hc b = pick (k_hc K) (n_hc a) /\ n_nb b = pick (k_nb K) (n_nb a) /\
    (n_gh b = pick (k_gh K) (n_gh a) \/ n_gh b = Some (match n_gh a with Some t => t | None => HH_FALLBACK end)).
Proof. exact rcS_labels. Qed.
Print Assumptions C02_rcS_labels.

Theorem C02_rcS_edges : forall K d m (g : sits), wf g -> forall u v y,
  adj (get_rc_S K d m g) u v = Some y <->
  exists x, adj g u v = Some x /\
    (((include_x m x = true \/ is_hh_g ish_S g u v = true) /\ y = out_edge x) \/
     (include_x m x = false /\ is_hh_g ish_S g u v = false /\ d = true /\
      In u (node_ids (get_rc_S K d m g)) /\ In v (node_ids (get_rc_S K d m g)) /\ y = out_edge_rec x)).
Proof. exact rcS_edges. Qed.
Print Assumptions C02_rcS_edges.

Theorem C02_rcS_store_true_bonds : forall K m (g : itsS), wf g -> forall u v y,
  adj (get_rc_S K false m (emb_S g)) u v = Some y <->
  exists x, adj g u v = Some x /\
    (include_x m (x, None) = true \/
     (exists a b, label g u = Some a /\ label g v = Some b /\ s_el a = (EL_H, EL_H) /\ s_el b = (EL_H, EL_H))) /\
    y = (x, Some false).
Proof. exact rcS_store_true_bonds. Qed.
Print Assumptions C02_rcS_store_true_bonds.

Theorem C02_rcS_hh_forced :
  node_ids (get_rc_S K_default false false (emb_S hhS)) = [1%N; 2%N] /\
  adj (get_rc_S K_default false false (emb_S hhS)) 1%N 2%N = Some (IE 2 2 0, Some false) /\
  node_ids (get_rc (gmap twin (fun e : iedge => e) hhS)) = [1%N; 2%N] /\
  gnodes (get_rc_S K_default false false (emb_S hcS)) = [].
Proof. exact rcS_hh_forced. Qed.
Print Assumptions C02_rcS_hh_forced.

Theorem C02_rcS_twin : forall K d m (g : itsS),
  (forall n a, In (n, a) (gnodes g) -> fst (s_el a) = snd (s_el a)) ->
  gmapn flat (get_rc_S K d m (emb_S g)) = get_rc_x K d m (emb (gmap twin (fun e : iedge => e) g)).
Proof. exact rcS_twin. Qed.
Print Assumptions C02_rcS_twin.

Theorem C02_rcS_construct : forall K d m o G H,
  (forall n a, In (n, a) (gnodes (its_construct_S o G H)) -> fst (s_el a) = snd (s_el a)) ->
  gmapn flat (get_rc_S K d m (emb_S (its_construct_S o G H))) = get_rc_x K d m (emb (its_construct_o o G H)).
Proof. exact rcS_construct. Qed.
Print Assumptions C02_rcS_construct.

(** 28. find_nearest_neighbors + extract_subgraph for ANY list of start atoms, generic in the node and bond types ([ball_sub],
        model/C02_Store.v): the induced subgraph on exactly the atoms within k bonds of the start atoms (start atoms must be atoms
        of the graph: networkx raises otherwise); balls grow with the radius.  Instance: extract_k on ITS graphs with pair / absent
        labels — theorems 5 and 6 for every label shape ([walk_g] / [dist_le_g] are [walk] / [dist_le] at type [its]). *)
Theorem C02_ball_sub_spec : forall (A B : Type) (g : lgraph A B) (S : list N) (k : nat), wf g ->
  (forall s, In s S -> In s (node_ids g)) ->
  let Bk := dist_le_g g S k in
  (forall n, In n (node_ids (ball_sub g S k)) <-> Bk n) /\
  (forall n a, label (ball_sub g S k) n = Some a <-> label g n = Some a /\ Bk n) /\
  (forall u v e, adj (ball_sub g S k) u v = Some e <-> adj g u v = Some e /\ Bk u /\ Bk v).
Proof. exact (@ball_sub_spec). Qed.
Print Assumptions C02_ball_sub_spec.

Theorem C02_ball_sub_mono : forall (A B : Type) (g : lgraph A B) (S : list N) (k k' : nat), wf g -> (k <= k')%nat ->
  (forall n, In n (node_ids (ball_sub g S k)) -> In n (node_ids (ball_sub g S k'))) /\
  (forall u v e, adj (ball_sub g S k) u v = Some e -> adj (ball_sub g S k') u v = Some e).
Proof. exact (@ball_sub_mono). Qed.
Print Assumptions C02_ball_sub_mono.

Theorem C02_dist_le_g_its : forall (g : its) S k n, dist_le_g g S k n <-> dist_le g S k n.
Proof. exact dist_le_g_its. Qed.
Print Assumptions C02_dist_le_g_its.

Theorem C02_ctxS_spec : forall g : sits, wf g -> forall k, (1 <= k)%nat ->
  let Bk := dist_le_g g (node_ids (get_rc_S K_default false false g)) k in
  (forall n, In n (node_ids (extract_k_S g k)) <-> Bk n) /\
  (forall n a, label (extract_k_S g k) n = Some a <-> label g n = Some a /\ Bk n) /\
  (forall u v e, adj (extract_k_S g k) u v = Some e <-> adj g u v = Some e /\ Bk u /\ Bk v).
Proof. exact ctxS_spec. Qed.
Print Assumptions C02_ctxS_spec.

Theorem C02_ctxS_chain : forall g : sits, wf g -> forall k k', (k <= k')%nat ->
  extract_k_S g 0 = get_rc_S K_default false false g /\
  (forall n, In n (node_ids (extract_k_S g k)) -> In n (node_ids (extract_k_S g k'))) /\
  (forall u v, adj (extract_k_S g k) u v <> None -> adj (extract_k_S g k') u v <> None) /\
  ((1 <= k)%nat -> forall u v e, adj (extract_k_S g k) u v = Some e -> adj (extract_k_S g k') u v = Some e) /\
  (forall n, In n (node_ids (extract_k_S g k')) -> In n (node_ids g)) /\
  (forall u v, adj (extract_k_S g k') u v <> None -> adj g u v <> None).
Proof. exact ctxS_chain. Qed.
Print Assumptions C02_ctxS_chain.

(** 29. Calling conventions of RadiusExpand (model/C02_Api.v).
        (a) context_extraction on a reaction dict (insertion-ordered; [None] = the call raises): when data[its_key] is a graph the
            result carries extract_k of it under context_key, every other entry unchanged, the input's keys in the input's order with
            context_key appended only when it is new; otherwise the call raises.  context_key = its_key overwrites the ITS entry.
        (b) paralle_context_extraction (n_jobs = 1): all-or-error, element-wise, length and order preserved.
        (c) find_nearest_neighbors called directly: n_knn <= 0 gives the start atoms back; n_knn >= 1 with start atoms of the graph
            gives exactly the atoms within n_knn bonds (theorem 5's ball for ANY start list); a start atom outside the graph raises.
        (d) extract_k with n_knn < -1: the induced subgraph of the ITS on the centre atoms (not the centre). *)
Theorem C02_context_extraction_dict : forall (d : dict) (ik ck : N) (k : Z),
  match assoc ik d with
  | Some (DG g) =>
      exists r, context_extraction_d d ik ck k = Some r /\
        assoc ck r = Some (DG (extract_k_z g k)) /\
        (forall k', k' <> ck -> assoc k' r = assoc k' d) /\
        map fst r = (if existsb (N.eqb ck) (map fst d) then map fst d else map fst d ++ [ck]) /\
        (NoDup (map fst d) -> NoDup (map fst r))
  | _ => context_extraction_d d ik ck k = None
  end.
Proof. exact context_extraction_d_spec. Qed.
Print Assumptions C02_context_extraction_dict.

Theorem C02_context_extraction_same_key : forall (d : dict) (ik : N) (k : Z) g, assoc ik d = Some (DG g) ->
  exists r, context_extraction_d d ik ik k = Some r /\ assoc ik r = Some (DG (extract_k_z g k)) /\ map fst r = map fst d.
Proof. exact context_extraction_d_same_key. Qed.
Print Assumptions C02_context_extraction_same_key.

Theorem C02_parallel_dict : forall (ds : list dict) (ik ck : N) (k : Z),
  (forall rs, parallel_d ds ik ck k = Some rs ->
     length rs = length ds /\
     forall i, nth_error rs i = match nth_error ds i with Some d => context_extraction_d d ik ck k | None => None end) /\
  (parallel_d ds ik ck k = None <-> exists d, In d ds /\ context_extraction_d d ik ck k = None).
Proof. exact parallel_d_spec. Qed.
Print Assumptions C02_parallel_dict.

Theorem C02_find_nearest_neighbors_direct : forall (g : its) (seeds : list N) (k : Z),
  (k <= 0 -> exists l, fnn g seeds k = Some l /\ forall n, In n l <-> In n seeds) /\
  (0 < k -> (forall s, In s seeds -> In s (node_ids g)) ->
     exists l, fnn g seeds k = Some l /\ forall n, In n l <-> dist_le g seeds (Z.to_nat k) n) /\
  (0 < k -> (exists s, In s seeds /\ ~ In s (node_ids g)) -> fnn g seeds k = None).
Proof. exact fnn_spec. Qed.
Print Assumptions C02_find_nearest_neighbors_direct.

Theorem C02_extract_k_negative : forall (g : its) k, wf g -> k < -1 ->
  (forall n, In n (node_ids (extract_k_z g k)) <-> In n (node_ids (get_rc g))) /\
  (forall n a, label (extract_k_z g k) n = Some a <-> label g n = Some a /\ In n (node_ids (get_rc g))) /\
  (forall u v e, adj (extract_k_z g k) u v = Some e <->
                 adj g u v = Some e /\ In u (node_ids (get_rc g)) /\ In v (node_ids (get_rc g))).
Proof. exact extract_k_z_negative. Qed.
Print Assumptions C02_extract_k_negative.

(** 30. get_rc pass by pass ([rc_pass1] .. [rc_pass4], model/C02_Api.v; the harness calls _add_changed_bonds, _add_hh_bonds,
        _add_charge_change_nodes, _reconnect_rc_edges one by one on the same graph and compares the state after each):
        (a) get_rc is the state after pass 2 (disconnected=False) resp. pass 4 (disconnected=True);
        (b) after _add_changed_bonds: exactly the included bonds with [out_edge], exactly their endpoints with the selected labels;
        (c) later passes only add: an atom keeps the labels it was inserted with, a bond its attributes (first wins). *)
Theorem C02_rc_passes_compose : forall K m (g : xits),
  get_rc_x K false m g = LG (fst (rc_pass2 K m g)) (snd (rc_pass2 K m g)) /\
  get_rc_x K true m g = LG (fst (rc_pass4 K m g)) (snd (rc_pass4 K m g)).
Proof. exact rc_passes_compose. Qed.
Print Assumptions C02_rc_passes_compose.

Theorem C02_rc_pass1 : forall K m (g : xits), wf g ->
  (forall u v y, find_edge u v (snd (rc_pass1 K m g)) = Some y <->
                 exists x, adj g u v = Some x /\ include_x m x = true /\ y = out_edge x) /\
  (forall n b, assoc n (fst (rc_pass1 K m g)) = Some b <->
               exists a, label g n = Some a /\ b = sel_attr K a /\
                         exists u v x, In (u, v, x) (gedges g) /\ include_x m x = true /\ (n = u \/ n = v)).
Proof. exact rc_pass1_spec. Qed.
Print Assumptions C02_rc_pass1.

Theorem C02_rc_passes_grow : forall K m (g : xits),
  (forall n b, assoc n (fst (rc_pass1 K m g)) = Some b -> assoc n (fst (rc_pass2 K m g)) = Some b) /\
  (forall u v y, find_edge u v (snd (rc_pass1 K m g)) = Some y -> find_edge u v (snd (rc_pass2 K m g)) = Some y) /\
  (NoDup (node_ids g) -> forall n b, assoc n (fst (rc_pass2 K m g)) = Some b -> assoc n (fst (rc_pass3 K m g)) = Some b) /\
  (forall u v y, find_edge u v (snd (rc_pass3 K m g)) = Some y -> find_edge u v (snd (rc_pass4 K m g)) = Some y).
Proof. exact rc_passes_grow. Qed.
Print Assumptions C02_rc_passes_grow.

(** 31. The remaining clauses of the property on ITS graphs of ANY label shape (pair labels of store=True, absent labels):
        the centre is well-formed, extracting the centre of a centre changes nothing (element_key keeps element and typesGH, as in
        theorem 18), and get_rc commutes with every injective renumbering.  Derived from theorems 18 on the flattened graph and
        27(b): [flat] forgets only the product side of a pair, which the copied labels determine. *)
Theorem C02_rcS_wf : forall K d m (g : sits), wf g -> wf (get_rc_S K d m g).
Proof. exact rcS_wf. Qed.
Print Assumptions C02_rcS_wf.

Theorem C02_rcS_idem : forall K d m (g : sits), k_el K = true -> k_gh K = true -> wf g ->
  geq (get_rc_S K d m (get_rc_S K d m g)) (get_rc_S K d m g).
Proof. exact rcS_idem. Qed.
Print Assumptions C02_rcS_idem.

Theorem C02_rcS_equivariant : forall f : N -> N, (forall a b, f a = f b -> a = b) -> forall K d m (g : sits), wf g ->
  get_rc_S K d m (relabel f g) = relabel f (get_rc_S K d m g).
Proof. exact rcS_equivariant. Qed.
Print Assumptions C02_rcS_equivariant.

Theorem C02_ball_sub_equivariant : forall f : N -> N, (forall a b, f a = f b -> a = b) ->
  forall (A B : Type) (g : lgraph A B) (seeds : list N) (k : nat),
  ball_sub (relabel f g) (map f seeds) k = relabel f (ball_sub g seeds k).
Proof. exact (fun f Hinj A B => @ball_sub_equivariant f Hinj A B). Qed.
Print Assumptions C02_ball_sub_equivariant.

Theorem C02_ctxS_equivariant : forall f : N -> N, (forall a b, f a = f b -> a = b) -> forall (g : sits) (k : nat), wf g ->
  extract_k_S (relabel f g) k = relabel f (extract_k_S g k).
Proof. exact ctxS_equivariant. Qed.
Print Assumptions C02_ctxS_equivariant.

Theorem C02_unequalS_sub_centre : forall K d m (g : sits), wf g ->
  forall n, In n (unequal_nodes_g g) -> In n (node_ids (get_rc_S K d m g)).
Proof. exact unequalS_sub_centre. Qed.
Print Assumptions C02_unequalS_sub_centre.

(** 32. rsmi_to_its(core=True, explicit_hydrogen=True) = get_rc of the explicit-hydrogen ITS ([h_to_explicit_its]: C01's model of
        h_to_explicit(its=True), compared with the code by C01 and, composed with get_rc, by the wrap-core-eh cases here).
        Making hydrogens explicit does not change the bonds of the centre, provided no hydrogen ATOM carries implicit hydrogens
        on both sides (witness: without it a new H-H bond enters the centre); the centre atoms are the same and keep their labels
        up to the hydrogen counts that h_to_explicit takes out of typesGH ([hx_upd]). *)
Theorem C02_explicit_h_bonds : forall I : its, wf I ->
  (forall n a, label I n = Some a -> i_el a = EL_H -> hx_count a <= 0) ->
  forall u v e, adj (get_rc (fst (h_to_explicit_its I))) u v = Some e <-> adj (get_rc I) u v = Some e.
Proof. exact rc_explicit_h_bonds. Qed.
Print Assumptions C02_explicit_h_bonds.

Theorem C02_explicit_h_atoms : forall I : its, wf I ->
  (forall n a, label I n = Some a -> i_el a = EL_H -> hx_count a <= 0) ->
  forall n b, label (get_rc (fst (h_to_explicit_its I))) n = Some b <->
              exists a, label I n = Some a /\ b = rc_attr (hx_upd a) /\ exists v e, adj (get_rc I) n v = Some e.
Proof. exact rc_explicit_h_atoms. Qed.
Print Assumptions C02_explicit_h_atoms.

Theorem C02_explicit_h_needs_hypothesis :
  wf hh_implicit /\ gedges (get_rc hh_implicit) = [] /\
  gedges (get_rc (fst (h_to_explicit_its hh_implicit))) = [(1%N, 2%N, IE 2 2 0)].
Proof. exact rc_explicit_h_needs_hypothesis. Qed.
Print Assumptions C02_explicit_h_needs_hypothesis.

(** 33. Theorem 20' for ITSConstruction.construct(G, H, store=True) (every ignore_aromaticity / balance_its value, default
        attribute defaults): when every atom has the same element on both sides, two atoms are joined in the centre of the
        pair-labelled ITS iff they are bonded on some side and the order differs between G and H (by >= 1 under ignore_aromaticity),
        or both are hydrogens — element pair ("H", "H").  From 20', 12 and 27(e). *)
Theorem C02_centre_vs_sides_store_true : forall ia bal (G H : mgraph), wf G -> wf H ->
  let S := its_construct_S (CO ia bal dflt_nattr) G H in
  (forall n a, In (n, a) (gnodes S) -> fst (s_el a) = snd (s_el a)) ->
  forall u v,
    (exists e, adj (get_rc_S K_default false false (emb_S S)) u v = Some e) <->
    (adj G u v <> None \/ adj H u v <> None) /\
    ((if ia then 2 <= Z.abs (order_in G u v - order_in H u v) else order_in G u v <> order_in H u v) \/
     (is_h_g ish_S (emb_S S) u = true /\ is_h_g ish_S (emb_S S) v = true)).
Proof. exact centre_vs_sides_store_true. Qed.
Print Assumptions C02_centre_vs_sides_store_true.

(** 34. extract_k(its, n_knn) for every option value on graphs of any label shape ([extract_k_S_z]); n_knn = -1 goes through the
        SKELETON of the graph ([skel]: same atom ids and bonds, placeholder labels — longest_radius_extension reads nothing else),
        so theorems 19, 21, 22 about [lre] apply to [lre (skel g)]. *)
Theorem C02_extract_k_S_nonneg : forall (g : sits) k, 0 <= k -> extract_k_S_z g k = extract_k_S g (Z.to_nat k).
Proof. exact extract_k_S_z_nonneg. Qed.
Print Assumptions C02_extract_k_S_nonneg.

Theorem C02_extract_k_S_minus1 : forall g : sits, wf g ->
  let rcn := node_ids (get_rc_S K_default false false g) in
  let r := length (lre (skel g) rcn) in
  extract_k_S_z g (-1) = ball_sub g rcn r /\
  (forall n, In n (node_ids (extract_k_S_z g (-1))) <-> dist_le_g g rcn r n) /\
  (lre (skel g) rcn = [] \/
   exists n ext, In n rcn /\ lre (skel g) rcn = n :: ext /\ zchain (skel g) n ext /\ NoDup (n :: ext)).
Proof. exact extract_k_S_z_minus1. Qed.
Print Assumptions C02_extract_k_S_minus1.

Theorem C02_skel : forall (A : Type) (g : lgraph A xedge) u v,
  node_ids (skel g) = node_ids g /\
  adj (skel g) u v = option_map (@fst iedge (option bool)) (adj g u v) /\
  std0 (skel g) u v = match adj g u v with Some x => e_std (fst x) =? 0 | None => false end.
Proof. exact (fun A g u v => conj (node_ids_skel g) (conj (adj_skel g u v) (std0_skel g u v))). Qed.
Print Assumptions C02_skel.

(** 35. Theorems 25 and 26 for every label shape.  (a) for get_rc with any element_key / keep_mtg (disconnected = False): the induced
        subgraph on the radius-k ball around ANY start list that contains the centre atoms has the same centre (k = 0 included);
        (b) the same on pair-/absent-label graphs; (c) a context carries its centre; (d) contexts nest. *)
Theorem C02_rcx_of_ball : forall K m (G : xits), wf G -> forall (S : list N) (k : nat),
  (forall n, In n (node_ids (get_rc_x K false m G)) -> In n S) ->
  geq (get_rc_x K false m (ball_sub G S k)) (get_rc_x K false m G).
Proof. exact rcx_of_ball. Qed.
Print Assumptions C02_rcx_of_ball.

Theorem C02_rcS_of_ball : forall K m (g : sits) (S : list N) (k : nat), wf g ->
  (forall n, In n (node_ids (get_rc_S K false m g)) -> In n S) ->
  geq (get_rc_S K false m (ball_sub g S k)) (get_rc_S K false m g).
Proof. exact rcS_of_ball. Qed.
Print Assumptions C02_rcS_of_ball.

Theorem C02_rcS_of_context : forall (g : sits) k, wf g -> (1 <= k)%nat ->
  geq (get_rc_S K_default false false (extract_k_S g k)) (get_rc_S K_default false false g).
Proof. exact rcS_of_context. Qed.
Print Assumptions C02_rcS_of_context.

Theorem C02_ctxS_of_ctx : forall g : sits, wf g -> forall k k', (1 <= k)%nat -> (k <= k')%nat ->
  geq (extract_k_S (extract_k_S g k') k) (extract_k_S g k).
Proof. exact ctxS_of_ctx. Qed.
Print Assumptions C02_ctxS_of_ctx.

(** 36. compare_graphs(graph1, graph2, node_attrs, edge_attrs) of its_decompose.py ([compare_graphs_x], model/C02_Compare.v):
        True iff the two graphs have the same atoms, equal selected labels (absent = None), the same bonded pairs and equal selected
        bond attributes; labelled-graph equality implies True under every selection, and with every attribute selected True is
        exactly labelled-graph equality; the library's own comparator accepts the centre of a centre (the idempotence clause). *)
Theorem C02_compare_graphs : forall NA EA (g1 g2 : xits), wf g1 -> wf g2 ->
  (compare_graphs_x NA EA g1 g2 = true <->
   (forall n, In n (node_ids g1) <-> In n (node_ids g2)) /\
   (forall n a b, label g1 n = Some a -> label g2 n = Some b -> sel_attr NA a = sel_attr NA b) /\
   (forall u v, adj g1 u v <> None <-> adj g2 u v <> None) /\
   (forall u v x y, adj g1 u v = Some x -> adj g2 u v = Some y -> sel_edge EA x = sel_edge EA y)).
Proof. exact compare_graphs_spec. Qed.
Print Assumptions C02_compare_graphs.

Theorem C02_compare_all_is_equality : forall g1 g2 : xits, wf g1 -> wf g2 ->
  (compare_graphs_x K_all E_all g1 g2 = true <-> geq g1 g2).
Proof. exact compare_all_geq. Qed.
Print Assumptions C02_compare_all_is_equality.

Theorem C02_compare_rc_idem : forall NA EA K d m (g : xits), k_el K = true -> k_gh K = true -> wf g ->
  compare_graphs_x NA EA (get_rc_x K d m (get_rc_x K d m g)) (get_rc_x K d m g) = true.
Proof. exact compare_rc_idem. Qed.
Print Assumptions C02_compare_rc_idem.

(** 37. _add_bond_order_changes (the "step 1" helper of the older get_rc, still in its_decompose.py, no caller): exactly the bonds
        whose two orders differ (standard_order is not consulted) with order and standard_order only, exactly their endpoints with the
        selected labels; where standard_order is zero exactly for equal orders these are the bonds of get_rc's first pass. *)
Theorem C02_add_bond_order_changes : forall K (g : xits), wf g ->
  (forall u v y, find_edge u v (snd (add_bond_order_changes K g)) = Some y <->
                 exists x, adj g u v = Some x /\ e_G (fst x) <> e_H (fst x) /\ y = out_edge_rec x) /\
  (forall n b, assoc n (fst (add_bond_order_changes K g)) = Some b <->
               exists a, label g n = Some a /\ b = sel_attr K a /\
                         exists u v x, In (u, v, x) (gedges g) /\ e_G (fst x) <> e_H (fst x) /\ (n = u \/ n = v)).
Proof. exact add_bond_order_changes_spec. Qed.
Print Assumptions C02_add_bond_order_changes.

Theorem C02_add_bond_order_changes_is_pass1 : forall K (g : xits), wf g ->
  (forall u v x, In (u, v, x) (gedges g) -> (e_std (fst x) = 0 <-> e_G (fst x) = e_H (fst x))) ->
  forall u v, find_edge u v (snd (add_bond_order_changes K g)) <> None <-> find_edge u v (snd (rc_pass1 K false g)) <> None.
Proof. exact add_bond_order_changes_is_pass1. Qed.
Print Assumptions C02_add_bond_order_changes_is_pass1.

(** 38. The models agree where they overlap: on a graph all of whose labels are scalars the pair-label model [get_rc_S] IS the
        option model [get_rc_x] (which is [get_rc] with default options on full-label graphs: theorem 12). *)
Theorem C02_rcS_scalar : forall K d m (g : xits), wf g ->
  get_rc_S K d m (gmapn sn_of_x g) = gmapn sn_of_x (get_rc_x K d m g).
Proof. exact rcS_scalar. Qed.
Print Assumptions C02_rcS_scalar.

(** 39. longest_radius_extension commutes with every injective renumbering (a renumbering keeps the edge-list / adjacency order, on
        which the choice among equally long paths depends), hence extract_k(its, n_knn) does for EVERY option value — theorem 24 extended
        to n_knn = -1 and n_knn < -1. *)
Theorem C02_lre_equivariant : forall f : N -> N, (forall a b, f a = f b -> a = b) -> forall (g : its) (rcn : list N),
  lre (relabel f g) (map f rcn) = map f (lre g rcn).
Proof. exact lre_relabel. Qed.
Print Assumptions C02_lre_equivariant.

Theorem C02_extract_k_z_equivariant : forall f : N -> N, (forall a b, f a = f b -> a = b) -> forall (g : its) (k : Z),
  extract_k_z (relabel f g) k = relabel f (extract_k_z g k).
Proof. exact extract_k_z_equivariant. Qed.
Print Assumptions C02_extract_k_z_equivariant.

(** 40. (a) extract_k on pair-/absent-label graphs commutes with renumbering for every option value (n_knn = -1 through the skeleton);
        (b) the way the ITS stores its labels does not change the contexts: for k >= 1 the flattened radius-k context of a store=True
        ITS is the radius-k context of its store=False twin (elements equal on both sides); end to end on ITSConstruction. *)
Theorem C02_ctxS_z_equivariant : forall f : N -> N, (forall a b, f a = f b -> a = b) -> forall (g : sits) (k : Z), wf g ->
  extract_k_S_z (relabel f g) k = relabel f (extract_k_S_z g k).
Proof. exact ctxS_z_equivariant. Qed.
Print Assumptions C02_ctxS_z_equivariant.

Theorem C02_ctxS_twin : forall (g : itsS) (k : nat),
  (forall n a, In (n, a) (gnodes g) -> fst (s_el a) = snd (s_el a)) -> (1 <= k)%nat ->
  gmapn flat (extract_k_S (emb_S g) k) = emb (extract_k (gmap twin (fun e : iedge => e) g) k).
Proof. exact ctxS_twin. Qed.
Print Assumptions C02_ctxS_twin.

Theorem C02_ctxS_construct : forall o G H (k : nat),
  (forall n a, In (n, a) (gnodes (its_construct_S o G H)) -> fst (s_el a) = snd (s_el a)) -> (1 <= k)%nat ->
  gmapn flat (extract_k_S (emb_S (its_construct_S o G H)) k) = emb (extract_k (its_construct_o o G H) k).
Proof. exact ctxS_construct. Qed.
Print Assumptions C02_ctxS_construct.

(** 41. Theorems 8 and 11 for every label shape: which atoms the centre has and with which labels ([selS] / [selS_hh] of the ITS atom's
        labels, pairs untouched), for every element_key / disconnected / keep_mtg; the default centre is within every variant. *)
Theorem C02_rcS_nodes : forall K d m (g : sits), wf g -> forall n b,
  label (get_rc_S K d m g) n = Some b <->
  exists a, label g n = Some a /\
    (((exists v x, adj g n v = Some x /\ include_x m x = true) /\ b = selS K a) \/
     (~ (exists v x, adj g n v = Some x /\ include_x m x = true) /\
      (exists v x, adj g n v = Some x /\ is_hh_g ish_S g n v = true) /\ b = selS_hh K a) \/
     (~ (exists v x, adj g n v = Some x /\ include_x m x = true) /\
      ~ (exists v x, adj g n v = Some x /\ is_hh_g ish_S g n v = true) /\ d = true /\ cc_S a = true /\ b = selS K a)).
Proof. exact rcS_nodes. Qed.
Print Assumptions C02_rcS_nodes.

Theorem C02_rcS_default_sub : forall K d m (g : sits), wf g ->
  (forall n, In n (node_ids (get_rc_S K false false g)) -> In n (node_ids (get_rc_S K d m g))) /\
  (forall u v y, adj (get_rc_S K false false g) u v = Some y -> adj (get_rc_S K d m g) u v = Some y).
Proof. exact rcS_default_sub. Qed.
Print Assumptions C02_rcS_default_sub.

(** 42. Clause 1 of the property, verbatim, on graphs of ANY label shape: when standard_order is the order difference a bond is in
        the centre iff its two orders differ or both atoms are hydrogens ("H", or the pair ("H","H")); under the ignore_aromaticity
        rule: iff the orders differ by at least 1 (2 half-units).  Every ITS that ITSConstruction builds with store=True satisfies
        the hypothesis its ignore_aromaticity option names. *)
Theorem C02_rcS_edges_std : forall g : sits, wf g ->
  (forall u v x, In (u, v, x) (gedges g) -> e_std (fst x) = e_G (fst x) - e_H (fst x)) ->
  forall u v y,
  adj (get_rc_S K_default false false g) u v = Some y <->
  exists x, adj g u v = Some x /\ (e_G (fst x) <> e_H (fst x) \/ is_hh_g ish_S g u v = true) /\ y = out_edge x.
Proof. exact rcS_edges_std. Qed.
Print Assumptions C02_rcS_edges_std.

Theorem C02_rcS_edges_ia : forall g : sits, wf g ->
  (forall u v x, In (u, v, x) (gedges g) ->
     e_std (fst x) = if Z.abs (e_G (fst x) - e_H (fst x)) <? 2 then 0 else e_G (fst x) - e_H (fst x)) ->
  forall u v y,
  adj (get_rc_S K_default false false g) u v = Some y <->
  exists x, adj g u v = Some x /\ (2 <= Z.abs (e_G (fst x) - e_H (fst x)) \/ is_hh_g ish_S g u v = true) /\ y = out_edge x.
Proof. exact rcS_edges_ia. Qed.
Print Assumptions C02_rcS_edges_ia.

Theorem C02_construct_S_consistent : forall o G H,
  (o_ia o = false -> forall u v x, In (u, v, x) (gedges (emb_S (its_construct_S o G H))) -> e_std (fst x) = e_G (fst x) - e_H (fst x)) /\
  (o_ia o = true -> forall u v x, In (u, v, x) (gedges (emb_S (its_construct_S o G H))) ->
     e_std (fst x) = if Z.abs (e_G (fst x) - e_H (fst x)) <? 2 then 0 else e_G (fst x) - e_H (fst x)).
Proof. exact construct_S_consistent. Qed.
Print Assumptions C02_construct_S_consistent.

(** 43. The renumbering clause at the level of the REACTION (the pair of molecule graphs): renumbering the atoms of both sides by an
        injective f renumbers the centre and every context (every n_knn) of the ITS that ITSConstruction builds, for every option value,
        with scalar (store=False) and with pair (store=True) labels.  (C01_equivariant_opts composed with theorems 4, 39, 31.) *)
Theorem C02_reaction_renumbering : forall f : N -> N, (forall a b, f a = f b -> a = b) -> forall (o : copts) (G H : mgraph),
  get_rc (its_construct_o o (relabel f G) (relabel f H)) = relabel f (get_rc (its_construct_o o G H)) /\
  (forall k : Z, extract_k_z (its_construct_o o (relabel f G) (relabel f H)) k = relabel f (extract_k_z (its_construct_o o G H) k)) /\
  (forall K d m, wf G -> wf H ->
     get_rc_S K d m (emb_S (its_construct_S o (relabel f G) (relabel f H))) = relabel f (get_rc_S K d m (emb_S (its_construct_S o G H)))).
Proof. exact reaction_renumbering. Qed.
Print Assumptions C02_reaction_renumbering.

(** 44. get_rc commutes with every map of label VALUES that commutes with the attribute selection and keeps "is a hydrogen" and
        "charge changes" (lock-step simulation of the generic get_rc_g, of which get_rc_x is an instance); instance: renumbering the
        atom_map LABELS — with theorem 18: renumbering node ids and atom_map labels together renumbers the centre (what renumbering
        the atom maps of a reaction does to its ITS). *)
Theorem C02_rcx_label_map : forall (h : xnode -> xnode) K d m (g : xits),
  (forall a, h (sel_attr K a) = sel_attr K (h a)) -> (forall a, h (sel_attr_hh K a) = sel_attr_hh K (h a)) ->
  (forall a, match x_el (h a) with Some e => N.eqb e EL_H | None => false end = match x_el a with Some e => N.eqb e EL_H | None => false end) ->
  (forall a, charge_changed (h a) = charge_changed a) ->
  gmapn h (get_rc_x K d m g) = get_rc_x K d m (gmapn h g).
Proof. exact rcx_label_map. Qed.
Print Assumptions C02_rcx_label_map.

Theorem C02_rcx_full_renumbering : forall f : N -> N, (forall a b, f a = f b -> a = b) -> forall (fz : Z -> Z) K d m (g : xits),
  get_rc_x K d m (relabel f (gmapn (map_amap fz) g)) = relabel f (gmapn (map_amap fz) (get_rc_x K d m g)).
Proof. exact rcx_full_renumbering. Qed.
Print Assumptions C02_rcx_full_renumbering.

(** 45. Two facts about contexts, generic in the node and bond types: (a) inside the radius-k context every atom keeps its distance
        (<= k) to the start atoms, so every atom of a context is reached from the centre by at most k bonds INSIDE the context — no
        part of a context is cut off from its centre; (b) radii add up: the radius-(j+k) ball is the radius-k ball around the
        radius-j ball. *)
Theorem C02_ball_distances_preserved : forall (A B : Type) (g : lgraph A B), wf g -> forall S : list N,
  (forall s, In s S -> In s (node_ids g)) -> forall (k j : nat) (n : N), (j <= k)%nat ->
  (dist_le_g (ball_sub g S k) S j n <-> dist_le_g g S j n).
Proof. exact (@ball_distances_preserved). Qed.
Print Assumptions C02_ball_distances_preserved.

Theorem C02_ball_connected_to_seeds : forall (A B : Type) (g : lgraph A B), wf g -> forall S : list N,
  (forall s, In s S -> In s (node_ids g)) -> forall (k : nat) (n : N),
  In n (node_ids (ball_sub g S k)) -> dist_le_g (ball_sub g S k) S k n.
Proof. exact (@ball_connected_to_seeds). Qed.
Print Assumptions C02_ball_connected_to_seeds.

Theorem C02_ball_radii_add : forall (A B : Type) (g : lgraph A B) (S : list N) (j k : nat) (n : N),
  dist_le_g g S (j + k) n <-> dist_le_g g (knn_g g S j) k n.
Proof. exact (@ball_radii_add). Qed.
Print Assumptions C02_ball_radii_add.

(** 46. A reaction centre (a rule graph) is a fixed point of every context extraction: for every radius k the radius-k context of
        get_rc g is get_rc g again — for full-label ITS graphs and for every label shape. *)
Theorem C02_ctx_of_centre : forall (g : its) (k : nat), wf g -> geq (extract_k (get_rc g) k) (get_rc g).
Proof. exact ctx_of_centre. Qed.
Print Assumptions C02_ctx_of_centre.

Theorem C02_ctxS_of_centre : forall (g : sits) (k : nat), wf g ->
  geq (extract_k_S (get_rc_S K_default false false g) k) (get_rc_S K_default false false g).
Proof. exact ctxS_of_centre. Qed.
Print Assumptions C02_ctxS_of_centre.

Theorem C02_unequal_of_context : forall (g : its) (k : nat), wf g -> (1 <= k)%nat ->
  forall n, In n (unequal_nodes (extract_k g k)) <-> In n (unequal_nodes g).
Proof. exact unequal_of_context. Qed.
Print Assumptions C02_unequal_of_context.

(** 47. Spectator edits (the count-changing / rewiring in-place edits of the history populations): get_rc depends only on the atoms and
        on the sub-list of relevant bonds (changed, or between two hydrogens).  Same atoms + same relevant bonds => the SAME centre;
        adding or deleting a bond that is unchanged and not H-H, anywhere in the edge list, never changes the centre (the contexts may
        change: witness in proof/C02_Spectator.v). *)
Theorem C02_rc_same_relevant : forall g g' : its, gnodes g' = gnodes g ->
  filter (fun e : N * N * iedge => changed (snd e) || is_hh g (fst (fst e)) (snd (fst e))) (gedges g') =
  filter (fun e : N * N * iedge => changed (snd e) || is_hh g (fst (fst e)) (snd (fst e))) (gedges g) ->
  get_rc g' = get_rc g.
Proof. exact rc_same_relevant. Qed.
Print Assumptions C02_rc_same_relevant.

Theorem C02_rc_add_spectator_bond : forall (g : its) l1 l2 u v x, gedges g = l1 ++ l2 -> changed x = false -> is_hh g u v = false ->
  get_rc (LG (gnodes g) (l1 ++ (u, v, x) :: l2)) = get_rc g.
Proof. exact rc_add_spectator_bond. Qed.
Print Assumptions C02_rc_add_spectator_bond.

Theorem C02_rc_del_spectator_bond : forall (g : its) l1 l2 u v x, gedges g = l1 ++ (u, v, x) :: l2 -> changed x = false -> is_hh g u v = false ->
  get_rc (LG (gnodes g) (l1 ++ l2)) = get_rc g.
Proof. exact rc_del_spectator_bond. Qed.
Print Assumptions C02_rc_del_spectator_bond.

Theorem C02_rc_same_centre_labels : forall g g' : its, gedges g' = gedges g -> (forall n, is_h g' n = is_h g n) ->
  (forall a b x, In (a, b, x) (gedges g) -> changed x || is_hh g a b = true -> label g' a = label g a /\ label g' b = label g b) ->
  get_rc g' = get_rc g.
Proof. exact rc_same_centre_labels. Qed.
Print Assumptions C02_rc_same_centre_labels.

(** 48. The property text as ONE statement: theorems 1-6 (and 24) assembled for an ITS graph whose standard_order is the order
        difference.  (For the other option settings, label shapes, wrappers and helpers see theorems 7-47.) *)
Theorem C02_property_statement : forall g : its, wf g -> std_consistent g ->
  (* a bond is in the centre iff its order differs between the two sides, H-H bonds additionally always *)
  (forall u v e, adj (get_rc g) u v = Some e <->
                 adj g u v = Some e /\ (e_G e <> e_H e \/ (is_h g u = true /\ is_h g v = true))) /\
  (* exactly the atoms incident to those bonds, with their ITS labels *)
  (forall n b, label (get_rc g) n = Some b <->
               (exists a, label g n = Some a /\ b = rc_attr a) /\ (exists v e, adj (get_rc g) n v = Some e)) /\
  (* the centre of the centre *)
  geq (get_rc (get_rc g)) (get_rc g) /\
  (* renumbering *)
  (forall f : N -> N, (forall a b, f a = f b -> a = b) ->
     get_rc (relabel f g) = relabel f (get_rc g) /\ forall k, extract_k (relabel f g) k = relabel f (extract_k g k)) /\
  (* the radius-k context is exactly the atoms within k bonds of the centre (induced subgraph) *)
  (forall k, (1 <= k)%nat ->
     (forall n, In n (node_ids (extract_k g k)) <-> dist_le g (node_ids (get_rc g)) k n) /\
     (forall n a, label (extract_k g k) n = Some a <-> label g n = Some a /\ dist_le g (node_ids (get_rc g)) k n) /\
     (forall u v e, adj (extract_k g k) u v = Some e <->
                    adj g u v = Some e /\ dist_le g (node_ids (get_rc g)) k u /\ dist_le g (node_ids (get_rc g)) k v)) /\
  (* centre = context(0) within context(1) within context(2) ... within the ITS *)
  (forall k k', (k <= k')%nat ->
     extract_k g 0 = get_rc g /\
     (forall n, In n (node_ids (extract_k g k)) -> In n (node_ids (extract_k g k'))) /\
     (forall u v e, adj (extract_k g k) u v = Some e -> adj (extract_k g k') u v = Some e) /\
     (forall n, In n (node_ids (extract_k g k')) -> In n (node_ids g)) /\
     (forall u v e, adj (extract_k g k') u v = Some e -> adj g u v = Some e)).
Proof. exact property_statement. Qed.
Print Assumptions C02_property_statement.

(** 49. Theorem 47 for every element_key / keep_mtg (disconnected = False) and for every label shape: the centre depends only on the
        atoms and on the sub-list of relevant bonds (included, or between two hydrogens).  Under disconnected = True a spectator bond
        between two centre atoms IS re-added by _reconnect_rc_edges (witness in proof/C02_Spectator.v). *)
Theorem C02_rcx_same_relevant : forall K m (g g' : xits), gnodes g' = gnodes g ->
  filter (fun e : N * N * xedge => include_x m (snd e) || is_hh_x g (fst (fst e)) (snd (fst e))) (gedges g') =
  filter (fun e : N * N * xedge => include_x m (snd e) || is_hh_x g (fst (fst e)) (snd (fst e))) (gedges g) ->
  get_rc_x K false m g' = get_rc_x K false m g.
Proof. exact rcx_same_relevant. Qed.
Print Assumptions C02_rcx_same_relevant.

Theorem C02_rcS_same_relevant : forall K m (g g' : sits), gnodes g' = gnodes g ->
  filter (fun e : N * N * xedge => include_x m (snd e) || is_hh_g ish_S g (fst (fst e)) (snd (fst e))) (gedges g') =
  filter (fun e : N * N * xedge => include_x m (snd e) || is_hh_g ish_S g (fst (fst e)) (snd (fst e))) (gedges g) ->
  get_rc_S K false m g' = get_rc_S K false m g.
Proof. exact rcS_same_relevant. Qed.
Print Assumptions C02_rcS_same_relevant.

(** 50. The facade implicit_rule(rsmi, disconnected, balance_its) = get_rc(ITSGraph(r, p, balance_its=...), disconnected=...) on the
        graphs (r, p) of the hydrogen-stripped reaction (importable since /repo fix 28c46fa; compared by the wrap-implicit cases):
        disconnected = False gives the centre stated on the two sides (theorem 20'); disconnected = True adds exactly the atoms whose
        charge differs between the two halves of typesGH and every ITS bond between atoms of the result. *)
Theorem C02_implicit_rule : forall bal (G H : mgraph), wf G -> wf H ->
  (forall u v, (exists y, adj (get_rc_x K_default false false (emb (its_construct_ab false bal G H))) u v = Some y) <->
               (adj G u v <> None \/ adj H u v <> None) /\
               (order_in G u v <> order_in H u v \/
                (is_h (its_construct_ab false bal G H) u = true /\ is_h (its_construct_ab false bal G H) v = true))) /\
  (forall n, In n (node_ids (get_rc_x K_default true false (emb (its_construct_ab false bal G H)))) <->
             In n (node_ids (get_rc_x K_default false false (emb (its_construct_ab false bal G H)))) \/
             (exists a, label (its_construct_ab false bal G H) n = Some a /\ a_ch (i_G a) <> a_ch (i_H a))) /\
  (forall u v e, (exists y, adj (get_rc_x K_default true false (emb (its_construct_ab false bal G H))) u v = Some y /\ fst y = e) <->
                 adj (its_construct_ab false bal G H) u v = Some e /\
                 In u (node_ids (get_rc_x K_default true false (emb (its_construct_ab false bal G H)))) /\
                 In v (node_ids (get_rc_x K_default true false (emb (its_construct_ab false bal G H))))).
Proof. exact implicit_rule_spec. Qed.
Print Assumptions C02_implicit_rule.

(** 51. (audit remarks) The hypothesis of theorem 1 is needed: on a hand-made ITS whose bond has orders (1, 2) but standard_order 0 the
        orders differ and the bond is not in the centre.  The result of longest_radius_extension is empty iff there is no centre atom. *)
Theorem C02_rc_edges_inconsistent_refuted :
  wf ex_incons /\ ~ std_consistent ex_incons /\ ~ ia_consistent ex_incons /\
  (exists e, adj ex_incons 1%N 2%N = Some e /\ e_G e <> e_H e) /\ adj (get_rc ex_incons) 1%N 2%N = None.
Proof. exact rc_edges_inconsistent_refuted. Qed.
Print Assumptions C02_rc_edges_inconsistent_refuted.

Theorem C02_lre_nil_iff : forall (g : its) (rcn : list N), lre g rcn = [] <-> rcn = [].
Proof. exact lre_nil_iff. Qed.
Print Assumptions C02_lre_nil_iff.

(** 52. The property text as ONE statement for ITS graphs of ANY label shape (pair labels of ITSConstruction.construct, absent labels)
        whose standard_order is the order difference: theorems 42, 41, 31, 40, 28 assembled (the chain as bonded pairs: the centre's
        bonds carry is_mtg = data.get("is_mtg", False)). *)
Theorem C02_property_statement_S : forall g : sits, wf g ->
  (forall u v x, In (u, v, x) (gedges g) -> e_std (fst x) = e_G (fst x) - e_H (fst x)) ->
  (forall u v y, adj (get_rc_S K_default false false g) u v = Some y <->
                 exists x, adj g u v = Some x /\ (e_G (fst x) <> e_H (fst x) \/ is_hh_g ish_S g u v = true) /\ y = out_edge x) /\
  (forall n b, label (get_rc_S K_default false false g) n = Some b <->
               exists a, label g n = Some a /\
                 (((exists v x, adj g n v = Some x /\ include_x false x = true) /\ b = selS K_default a) \/ (~ (exists v x, adj g n v = Some x /\ include_x false x = true) /\ (exists v x, adj g n v = Some x /\ is_hh_g ish_S g n v = true) /\ b = selS_hh K_default a))) /\
  geq (get_rc_S K_default false false (get_rc_S K_default false false g)) (get_rc_S K_default false false g) /\
  (forall f : N -> N, (forall a b, f a = f b -> a = b) ->
     get_rc_S K_default false false (relabel f g) = relabel f (get_rc_S K_default false false g) /\
     forall k : Z, extract_k_S_z (relabel f g) k = relabel f (extract_k_S_z g k)) /\
  (forall k, (1 <= k)%nat ->
     let Bk := dist_le_g g (node_ids (get_rc_S K_default false false g)) k in
     (forall n, In n (node_ids (extract_k_S g k)) <-> Bk n) /\
     (forall n a, label (extract_k_S g k) n = Some a <-> label g n = Some a /\ Bk n) /\
     (forall u v e, adj (extract_k_S g k) u v = Some e <-> adj g u v = Some e /\ Bk u /\ Bk v)) /\
  (forall k k', (k <= k')%nat ->
     extract_k_S g 0 = get_rc_S K_default false false g /\
     (forall n, In n (node_ids (extract_k_S g k)) -> In n (node_ids (extract_k_S g k'))) /\
     (forall u v, adj (extract_k_S g k) u v <> None -> adj (extract_k_S g k') u v <> None) /\
     (forall n, In n (node_ids (extract_k_S g k')) -> In n (node_ids g)) /\
     (forall u v, adj (extract_k_S g k') u v <> None -> adj g u v <> None)).
Proof. exact property_statement_S. Qed.
Print Assumptions C02_property_statement_S.

(** 53. Contexts saturate: from radius |atoms| + 1 on nothing is added any more, for any start atoms of the graph and any node / bond
        type; on an ITS: extract_k with a huge radius (the "radius 50" degenerate cases) is extract_k with radius |atoms| + 1. *)
Theorem C02_ball_saturates : forall (A B : Type) (g : lgraph A B), wf g -> forall (seeds : list N) (j : nat),
  (forall s, In s seeds -> In s (node_ids g)) ->
  knn_g g seeds (S (length (node_ids g)) + j) = knn_g g seeds (S (length (node_ids g))) /\
  ball_sub g seeds (S (length (node_ids g)) + j) = ball_sub g seeds (S (length (node_ids g))).
Proof. exact (@ball_saturates). Qed.
Print Assumptions C02_ball_saturates.

Theorem C02_extract_k_saturates : forall (g : its) (j : nat), wf g ->
  extract_k g (S (length (node_ids g)) + j) = extract_k g (S (length (node_ids g))).
Proof. exact extract_k_saturates. Qed.
Print Assumptions C02_extract_k_saturates.

Theorem C02_saturated_is_component : forall (A B : Type) (g : lgraph A B) (seeds : list N), wf g ->
  (forall s, In s seeds -> In s (node_ids g)) ->
  forall n, In n (knn_g g seeds (S (length (node_ids g)))) <-> exists s m, In s seeds /\ walk_g g s n m.
Proof. exact (@saturated_is_component_walk). Qed.
Print Assumptions C02_saturated_is_component.

Theorem C02_extract_k_S_saturates : forall (g : sits) (j : nat), wf g ->
  extract_k_S g (S (length (node_ids g)) + j) = extract_k_S g (S (length (node_ids g))).
Proof. exact extract_k_S_saturates. Qed.
Print Assumptions C02_extract_k_S_saturates.

(** 54. The maximum-radius context (n_knn = -1) contains the whole extension path of longest_radius_extension: the path has r atoms,
        starts in a centre atom and every step is a bond, so its i-th atom lies within i < r bonds of the centre. *)
Theorem C02_lre_path_in_context : forall g : its, wf g ->
  forall x, In x (lre g (node_ids (get_rc g))) -> In x (node_ids (extract_k_z g (-1))).
Proof. exact lre_path_in_context. Qed.
Print Assumptions C02_lre_path_in_context.

Theorem C02_max_radius_contains_radius_1 : forall g : its, wf g ->
  forall n, In n (node_ids (extract_k g 1)) -> In n (node_ids (extract_k_z g (-1))).
Proof. exact max_radius_contains_radius_1. Qed.
Print Assumptions C02_max_radius_contains_radius_1.

(** 55. Theorem 10 and theorem 54 for every label shape: what disconnected = True adds to the centre of a pair-/absent-label graph;
        the maximum-radius context of such a graph contains its extension path (through the skeleton). *)
Theorem C02_rcS_disconnected : forall K m (g : sits), wf g ->
  (forall n, In n (node_ids (get_rc_S K true m g)) <->
             In n (node_ids (get_rc_S K false m g)) \/ (exists a, label g n = Some a /\ cc_S a = true)) /\
  (forall u v e, (exists y, adj (get_rc_S K true m g) u v = Some y /\ fst y = e) <->
                 (exists x, adj g u v = Some x /\ fst x = e) /\
                 In u (node_ids (get_rc_S K true m g)) /\ In v (node_ids (get_rc_S K true m g))).
Proof. exact rcS_disconnected. Qed.
Print Assumptions C02_rcS_disconnected.

Theorem C02_lre_path_in_context_S : forall g : sits, wf g ->
  forall x, In x (lre (skel g) (node_ids (get_rc_S K_default false false g))) -> In x (node_ids (extract_k_S_z g (-1))).
Proof. exact lre_path_in_context_S. Qed.
Print Assumptions C02_lre_path_in_context_S.
