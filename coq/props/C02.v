(** C02 — reaction centre = changed bonds (+ H-H bonds); radius-k context = atoms within k bonds; chain.
    Statements only; every proof is [exact <lemma of proof/C02_Proof.v>].
    Vocabulary: [wf] (lib/LGraph.v); [std_consistent g] = standard_order is order_G - order_H on every edge
    (proved for every output of its_construct: C01_union); [is_h g u] = the ITS node u has top-level element "H";
    [rc_attr a] = the labels get_rc copies (element, charge, typesGH, atom_map); [dist_le g S k n] = some walk of
    at most k bonds leads from a node of S to n; [geq] = same node labels and same edge map. *)
From Coq Require Import List NArith ZArith Bool.
From SK Require Import lib.LGraph lib.C01_GraphLemmas model.C01_Model model.C02_Model proof.C02_Proof.
Local Open Scope Z_scope.

(** 1. a bond is in the centre iff its two orders differ or both atoms are hydrogens; it keeps its labels *)
Theorem C02_rc_edges : forall g : its, wf g -> std_consistent g -> forall u v e,
  adj (get_rc g) u v = Some e <->
  adj g u v = Some e /\ (e_G e <> e_H e \/ (is_h g u = true /\ is_h g v = true)).
Proof. exact rc_edges. Qed.
Print Assumptions C02_rc_edges.

(** 2. the atoms of the centre are exactly the endpoints of its bonds, each with the selected ITS labels *)
Theorem C02_rc_nodes : forall g : its, wf g -> forall n b,
  label (get_rc g) n = Some b <->
  (exists a, label g n = Some a /\ b = rc_attr a) /\ (exists v e, adj (get_rc g) n v = Some e).
Proof. exact rc_nodes. Qed.
Print Assumptions C02_rc_nodes.

(** 3. extracting the centre of a centre changes nothing *)
Theorem C02_rc_idem : forall g : its, wf g -> geq (get_rc (get_rc g)) (get_rc g).
Proof. exact rc_idem. Qed.
Print Assumptions C02_rc_idem.

(** 4. get_rc commutes with every injective renumbering (hence isomorphic centres) *)
Theorem C02_rc_equivariant : forall f : N -> N, (forall a b, f a = f b -> a = b) -> forall g : its,
  get_rc (relabel f g) = relabel f (get_rc g).
Proof. exact rc_equivariant. Qed.
Print Assumptions C02_rc_equivariant.

(** 5. for k >= 1 the radius-k context is the induced subgraph of the ITS on exactly the atoms within k bonds
       of the centre *)
Theorem C02_ctx_spec : forall g : its, wf g -> forall k, (1 <= k)%nat ->
  let B := dist_le g (node_ids (get_rc g)) k in
  (forall n, In n (node_ids (extract_k g k)) <-> B n) /\
  (forall n a, label (extract_k g k) n = Some a <-> label g n = Some a /\ B n) /\
  (forall u v e, adj (extract_k g k) u v = Some e <-> adj g u v = Some e /\ B u /\ B v).
Proof. exact ctx_spec. Qed.
Print Assumptions C02_ctx_spec.

(** 6. centre = context(0) within context(k) within context(k') within the ITS (k <= k'), as atom and bond sets *)
Theorem C02_ctx_chain : forall g : its, wf g -> forall k k', (k <= k')%nat ->
  extract_k g 0 = get_rc g /\
  (forall n, In n (node_ids (extract_k g k)) -> In n (node_ids (extract_k g k'))) /\
  (forall u v e, adj (extract_k g k) u v = Some e -> adj (extract_k g k') u v = Some e) /\
  (forall n, In n (node_ids (extract_k g k')) -> In n (node_ids g)) /\
  (forall u v e, adj (extract_k g k') u v = Some e -> adj g u v = Some e).
Proof. exact ctx_chain. Qed.
Print Assumptions C02_ctx_chain.
