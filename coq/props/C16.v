From stdpp Require Import gmap strings sets.
From SK Require Import lib.Tok model.C15_Model model.C16_Model proof.C16_Defs.
Local Open Scope string_scope.

(** Outside the label domain [A-Za-z][A-Za-z0-9_]* the string round trip fails: "2_x" is read as one species. *)
Theorem C16_label_domain_refuted :
  ∃ H : net, (rxns_to_hypergraph (hypergraph_to_rxn_strings H true false true) "r" true false).2 = None
             ∧ ¬ rxns_of (rxns_to_hypergraph (hypergraph_to_rxn_strings H true false true) "r" true false).1 ≡ₚ rxns_of H.
Proof. exact label_domain_refuted. Qed.
Print Assumptions C16_label_domain_refuted.
