(** C16 — network views (bipartite graph, reaction strings, species graph) round-trip exactly.
    Statements only; every proof is [exact <lemma of proof/C16_*.v>].

    Vocabulary (coq/proof/C16_Defs.v, all decidable):
      [wf16 H]          no stored reaction is empty or has an empty rule name; every species occurring in a reaction is
                        registered and has a non-empty index entry; [order] is a duplicate-free enumeration of the ids;
                        molecule labels only for registered species.  Implied by the store invariant of C15 ([C16_inv_wf]).
      [strings_domain]  (7-bit ASCII text) rules non-empty and blank-free; species labels = a letter followed by any characters
                        except white space and the format's own separators + * | >  (the parser's pattern "digits, letter, anything"):
                        identifiers, formulae and SMILES-like labels, e.g. CC(=O)O, C#C, Fe(OH)3 ([ex_label_domain]).
      [rxns_of H]       the stored reactions (rule, reactants, products) as a list; multiset equality is [≡ₚ]. *)
From stdpp Require Import gmap strings sets.
From SK Require Import lib.Tok model.C15_Model proof.C15_Proof model.C16_Model proof.C16_Defs proof.C16_Chars proof.C16_Str proof.C16_Sg proof.C16_BipA proof.C16_BipB proof.C16_BipNum proof.C16_BipMarker proof.C16_Reach proof.C16_SgMol proof.C16_SgRules proof.C16_StrItems proof.C16_StrOrder model.C16_Edit proof.C16_BipArcs proof.C16_BipDrop proof.C16_SgDrop proof.C16_SgLegacy model.C16_Undirected proof.C16_Undirected.
Local Open Scope string_scope.

(** every network reachable through the store operations (C15_inv_reachable) satisfies the decidable premise used below *)
Theorem C16_inv_wf : ∀ H : net, Inv H → wf16 H.
Proof. exact Inv_wf16. Qed.
Print Assumptions C16_inv_wf.

(** every network the correspondence evaluates ([mk_net] = harness/props/C16.py:build: adds, kept species, labels) is well formed *)
Theorem C16_generated_wf : ∀ kept rxns mols, wf16 (mk_net kept rxns mols).
Proof. exact mk_net_wf16. Qed.
Print Assumptions C16_generated_wf.

(** ... and stays so under in-place edits with the public mutators (the history cases edit ONE object between views) *)
Theorem C16_edited_wf : ∀ kept rxns mols (eds : list edit), wf16 (foldl apply_edit (mk_net kept rxns mols) eds).
Proof. exact edited_wf16. Qed.
Print Assumptions C16_edited_wf.

(** (round 5) every network an importer or the parser builds satisfies the store invariant of C15 ([Inv], spelled out in
    C15_inv_meaning: both indices exact, species = occurring (+ kept), labels only for present species, ids unique, no empty
    reaction) — from ANY graph and ANY text, with any flags, also when the call raises midway: what was stored before stays,
    consistently indexed ([ex_built_inv_nonvacuous]: a parse failing at its third line keeps two reactions). *)
Theorem C16_built_networks_consistent :
  (∀ (ifl : iflags) (G : bgraph), Inv (bipartite_to_hypergraph ifl G).1) ∧
  (∀ (pick : gset string → string) (default_rule : string) (mol_attr : bool) (G : sgraph),
     Inv (species_graph_to_hypergraph pick default_rule mol_attr G).1) ∧
  (∀ (lines : list string) (default_rule : string) (parse_suffix prefer_suffix : bool),
     Inv (rxns_to_hypergraph lines default_rule parse_suffix prefer_suffix).1) ∧
  (∀ (s : net) (items : list (string * option string)) (default_rule : string) (parse_suffix prefer_suffix : bool),
     Inv s → Inv (parse_items s items default_rule parse_suffix prefer_suffix).1) ∧
  (∀ (s : net) (line : string) (rule : option string) (parse_suffix : bool), Inv s → Inv (add_from_str s line rule parse_suffix).1).
Proof.
  exact (conj bipartite_import_Inv (conj species_graph_import_Inv (conj rxns_to_hypergraph_Inv (conj parse_items_Inv add_from_str_Inv)))).
Qed.
Print Assumptions C16_built_networks_consistent.

(** (round 5, after repo fix of parse_rxns) the documented meaning of [default_rule] — "used when neither an explicit rule nor
    a suffix is provided": with suffix parsing ON, a line whose suffix (text after the first "|") carries no rule=… is stored under
    [default_rule]; one that carries a rule keeps it ([suffix_rule] = the test add_rxn_from_str itself makes).  Before the fix such a
    line silently got add_rxn's "r" ([ex_default_rule]: rxns_to_hypergraph([..., "2A>>D"], default_rule="R0") now stores R0_1). *)
Theorem C16_parse_default_rule : ∀ (s : net) (line default_rule : string) (prefer_suffix : bool),
  parse_rxns s [line] default_rule true prefer_suffix
  = add_from_str s line (match suffix_rule line with Some _ => None | None => Some default_rule end) true.
Proof. exact parse_rxns_one. Qed.
Print Assumptions C16_parse_default_rule.

(** ** Bipartite species/reaction graph *)

(** every export flag combination that exports the reaction ids and the coefficients (string node ids with any prefix
    pair, or integer node ids; roles, isolated species, bipartite marker values and mol attributes on or off) followed
    by an import with ANY import flags: no error, the same id -> (rule, reactants, products) map, the species of the
    rebuilt network are the species occurring in reactions, and the molecule labels of those species come back exactly
    (when exported and imported; none otherwise).  [bip_names_ok] (decidable): integer ids, or no species node gets the
    same string id as a reaction node — automatic for the default prefixes "S:" / "R:", needed for un-prefixed ids
    ([ex_bip_names_needed] in proof/C16_BipB.v). *)
Theorem C16_bipartite_roundtrip : ∀ (fl : bflags) (ifl : iflags) (H : net),
  wf16 H → f_eid fl = true → f_stoich fl = true → bip_names_ok fl H →
  (bipartite_to_hypergraph ifl (hypergraph_to_bipartite fl H)).2 = None ∧
  edges (bipartite_to_hypergraph ifl (hypergraph_to_bipartite fl H)).1 = edges H ∧
  species (bipartite_to_hypergraph ifl (hypergraph_to_bipartite fl H)).1 = occurring H ∧
  mol (bipartite_to_hypergraph ifl (hypergraph_to_bipartite fl H)).1
    = if f_mol fl && i_mol ifl then filter (λ p, p.1 ∈ occurring H) (mol H) else ∅.
Proof. exact bipartite_roundtrip. Qed.
Print Assumptions C16_bipartite_roundtrip.

(** the same without the premise on `include_stoich`: EVERY flag combination that exports the ids.  Without coefficients on
    the arcs the importer reads each as 1, so exactly the supports come back (same ids, rules, species sets per side, every
    coefficient 1) — the precise sense in which include_stoich=False is not invertible; with coefficients this is the theorem
    above.  (round 5; before, the flag combinations without coefficients were only compared.) *)
Theorem C16_bipartite_roundtrip_any_stoich : ∀ (fl : bflags) (ifl : iflags) (H : net),
  wf16 H → f_eid fl = true → bip_names_ok fl H →
  (bipartite_to_hypergraph ifl (hypergraph_to_bipartite fl H)).2 = None ∧
  edges (bipartite_to_hypergraph ifl (hypergraph_to_bipartite fl H)).1
    = (λ rx, Rxn (r_rule rx) ((λ c, if f_stoich fl then c else 1%positive) <$> r_lhs rx)
                             ((λ c, if f_stoich fl then c else 1%positive) <$> r_rhs rx)) <$> edges H ∧
  species (bipartite_to_hypergraph ifl (hypergraph_to_bipartite fl H)).1 = occurring H ∧
  mol (bipartite_to_hypergraph ifl (hypergraph_to_bipartite fl H)).1
    = if f_mol fl && i_mol ifl then filter (λ p, p.1 ∈ occurring H) (mol H) else ∅.
Proof. exact bipartite_roundtrip_gen. Qed.
Print Assumptions C16_bipartite_roundtrip_any_stoich.

(** outside [bip_names_ok] the clause fails (known finding C16:bipartite-name-clash): un-prefixed string ids, species label "r_1"
    = generated reaction id r_1 — one node for both, the import returns a different network *)
Theorem C16_bipartite_unprefixed_refuted :
  bool_decide (wf16 ex_bip_clash) = true ∧ bool_decide (bip_names_ok ex_fl_bare ex_bip_clash) = false ∧
  bool_decide (edges ex_bip_clash_back = edges ex_bip_clash) = false.
Proof. exact ex_bip_names_needed. Qed.
Print Assumptions C16_bipartite_unprefixed_refuted.

(** instance: every network reachable by any history of store operations (C15), default prefixes *)
Theorem C16_bipartite_roundtrip_reachable : ∀ (n : nat) (ops : list op) (k : nat) (fl : bflags) (ifl : iflags),
  f_eid fl = true → f_stoich fl = true → f_sp fl = Some "S:" → f_rp fl = Some "R:" →
  edges (bipartite_to_hypergraph ifl (hypergraph_to_bipartite fl
           (getn (fold_left (λ w o, (step w o).1) ops (init_world n)) k))).1
  = edges (getn (fold_left (λ w o, (step w o).1) ops (init_world n)) k).
Proof. exact reachable_bipartite_roundtrip. Qed.
Print Assumptions C16_bipartite_roundtrip_reachable.

(** the default prefixes never clash *)
Theorem C16_default_prefixes_ok : ∀ (fl : bflags) (H : net),
  f_sp fl = Some "S:" → f_rp fl = Some "R:" → bip_names_ok fl H.
Proof. exact default_prefixes_ok. Qed.
Print Assumptions C16_default_prefixes_ok.

(** ** Reaction strings *)

(** the side printer and RXNSide.from_str are inverse on the label domain, whatever white space surrounds the text:
    coefficients of any size glued to the name ("12Cl2"), coefficient 1 omitted, " + " separators, the empty-side sign *)
Theorem C16_side_roundtrip : ∀ (sd : side) (pre post : list Ascii.ascii),
  side_labels_ok sd = true →
  Forall (λ a, py_space a = true) pre → Forall (λ a, py_space a = true) post →
  from_chars (pre ++ to_chars (fmt_side sd) ++ post) = Some sd.
Proof. exact from_chars_side. Qed.
Print Assumptions C16_side_roundtrip.

(** printing with the rule suffix (with or without the id suffix, sorted or in insertion order) and parsing with suffix
    parsing on (any default rule, any [prefer_suffix]) raises no error and gives the same multiset of
    (rule, reactants, products) *)
Theorem C16_strings_roundtrip : ∀ (H : net) (include_id sort prefer_suffix : bool) (default_rule : string),
  wf16 H → strings_domain H = true →
  (rxns_to_hypergraph (hypergraph_to_rxn_strings H true include_id sort) default_rule true prefer_suffix).2 = None ∧
  rxns_of (rxns_to_hypergraph (hypergraph_to_rxn_strings H true include_id sort) default_rule true prefer_suffix).1
    ≡ₚ rxns_of H.
Proof. exact strings_roundtrip. Qed.
Print Assumptions C16_strings_roundtrip.

(** Outside the label domain the string round trip fails: a label must start with a letter — coefficient 2 on "_x"
    prints as "2_x", which is read as ONE species (likewise "2[OH-]"; '+' as in "Na+" splits the term). *)
Theorem C16_label_domain_refuted :
  ∃ H : net, (rxns_to_hypergraph (hypergraph_to_rxn_strings H true false true) "r" true false).2 = None
             ∧ ¬ rxns_of (rxns_to_hypergraph (hypergraph_to_rxn_strings H true false true) "r" true false).1 ≡ₚ rxns_of H.
Proof. exact label_domain_refuted. Qed.
Print Assumptions C16_label_domain_refuted.

(** ** Species graph *)

(** for every network whose reactions all have reactants and products (no other premise), whatever the rule-picking
    function, default rule and mol flags: collapsing to the species graph and reconstructing raises no error and returns
    the same ids, each with its own reactant and product coefficient maps — also when several reactions share a species
    pair (one arc, per-reaction maps [stoich_r_map]/[stoich_p_map]).  Rules are not claimed (arcs shared by reactions
    with different rules merge the rule sets: [ex_sg_rules_merged]); two-sidedness is needed ([ex_sg_two_sided_needed]). *)
Theorem C16_species_graph_roundtrip :
  ∀ (pick : gset string → string) (default_rule : string) (include_mol mol_attr : bool) (H : net),
  two_sided H →
  (species_graph_to_hypergraph pick default_rule mol_attr (hypergraph_to_species_graph include_mol H)).2 = None ∧
  stoich_of <$> edges (species_graph_to_hypergraph pick default_rule mol_attr (hypergraph_to_species_graph include_mol H)).1
    = stoich_of <$> edges H.
Proof. exact species_graph_roundtrip. Qed.
Print Assumptions C16_species_graph_roundtrip.

(** the whole reconstructed network: for two-sided networks whose occurring species are registered (part of [wf16]), the
    species are the occurring species and the molecule labels of exactly those species come back (when exported and
    imported; none otherwise) — whatever the label VALUES are (the model carries them as opaque strings; falsy labels such
    as 0, "", False are ordinary values) *)
Theorem C16_species_graph_roundtrip_full :
  ∀ (pick : gset string → string) (default_rule : string) (include_mol mol_attr : bool) (H : net),
  two_sided H → occurring H ⊆ species H →
  (species_graph_to_hypergraph pick default_rule mol_attr (hypergraph_to_species_graph include_mol H)).2 = None ∧
  stoich_of <$> edges (species_graph_to_hypergraph pick default_rule mol_attr (hypergraph_to_species_graph include_mol H)).1
    = stoich_of <$> edges H ∧
  species (species_graph_to_hypergraph pick default_rule mol_attr (hypergraph_to_species_graph include_mol H)).1 = occurring H ∧
  mol (species_graph_to_hypergraph pick default_rule mol_attr (hypergraph_to_species_graph include_mol H)).1
    = if include_mol && mol_attr then filter (λ p, p.1 ∈ occurring H) (mol H) else ∅.
Proof. exact species_graph_roundtrip_full. Qed.
Print Assumptions C16_species_graph_roundtrip_full.

(** ** parse_rxns with explicit per-line rules (tuples, mapping, rules=) *)
(** [print_items H sort] = the (id, reaction) pairs in printing order; [hypergraph_to_rxn_strings H ir ii sort] is
    [fmt_line ir ii] mapped over it ([printed_lines]). *)

Theorem C16_parse_plain_is_items : ∀ s lines dr ps pf,
  parse_items s ((λ l, (l, None)) <$> lines) dr ps pf = parse_rxns s lines dr ps pf.
Proof. exact parse_items_plain. Qed.
Print Assumptions C16_parse_plain_is_items.

(** rules carried out of band: printing WITHOUT suffixes and handing every line its rule explicitly reproduces the multiset
    of reactions with rules, for every combination of the parser flags *)
Theorem C16_strings_roundtrip_explicit_rules : ∀ (H : net) (sort : bool) (dr : string) (ps pf : bool),
  wf16 H → strings_domain H = true →
  (parse_items empty_net ((λ p, (fmt_line false false p.1 p.2, Some (r_rule p.2))) <$> print_items H sort) dr ps pf).2 = None ∧
  rxns_of (parse_items empty_net ((λ p, (fmt_line false false p.1 p.2, Some (r_rule p.2))) <$> print_items H sort) dr ps pf).1
    ≡ₚ rxns_of H.
Proof. exact strings_roundtrip_explicit_rules. Qed.
Print Assumptions C16_strings_roundtrip_explicit_rules.

(** with [prefer_suffix] the printed rule suffix wins over ANY explicit per-line rule [q] (present or not) *)
Theorem C16_strings_roundtrip_prefer_suffix :
  ∀ (H : net) (include_id sort : bool) (dr : string) (q : string → rxn → option string),
  wf16 H → strings_domain H = true →
  (parse_items empty_net ((λ p, (fmt_line true include_id p.1 p.2, q p.1 p.2)) <$> print_items H sort) dr true true).2 = None ∧
  rxns_of (parse_items empty_net ((λ p, (fmt_line true include_id p.1 p.2, q p.1 p.2)) <$> print_items H sort) dr true true).1
    ≡ₚ rxns_of H.
Proof. exact strings_roundtrip_prefer_suffix. Qed.
Print Assumptions C16_strings_roundtrip_prefer_suffix.

(** printing in insertion order ([sort=False]) and parsing back keeps the SEQUENCE of reactions ([rxn_seq] = the stored
    (rule, reactants, products) in insertion order; ids are regenerated); with [sort=True] the sequence follows the sorted
    ids instead ([ex_order]) *)
Theorem C16_strings_roundtrip_order : ∀ (H : net) (include_id prefer_suffix : bool) (default_rule : string),
  wf16 H → strings_domain H = true →
  rxn_seq (rxns_to_hypergraph (hypergraph_to_rxn_strings H true include_id false) default_rule true prefer_suffix).1 = rxn_seq H.
Proof. exact strings_roundtrip_order. Qed.
Print Assumptions C16_strings_roundtrip_order.

(** the facades take their defaults from here: _as_bipartite without keywords = integer ids, "S:"/"R:", coefficients, roles,
    isolated species, no edge-id attribute, no mol *)
Theorem C16_as_bipartite_defaults : ∀ H : net,
  as_bipartite None None None None H
  = hypergraph_to_bipartite (BFlags (Some "S:") (Some "R:") 0 1 true true true true false false) H.
Proof. reflexivity. Qed.
Print Assumptions C16_as_bipartite_defaults.

(** ** Species graph: the rules too, when reactions sharing a species pair agree on their rule *)
(** [rules_agree H]: two reactions that have a common (reactant, product) pair carry the same rule (then every merged rule
    set is a singleton and the arbitrary pick — any [pick] with [pick {x} = x], as next(iter(set)) — is determined).  Under this
    premise the whole id ↦ (rule, reactants, products) map is reproduced. *)
Theorem C16_species_graph_roundtrip_rules :
  ∀ (pick : gset string → string) (default_rule : string) (include_mol mol_attr : bool) (H : net),
  (∀ x, pick {[ x ]} = x) → two_sided H → wf_rxns H →
  (∀ e e' rx rx' u v, edges H !! e = Some rx → edges H !! e' = Some rx' →
     is_Some (r_lhs rx !! u) → is_Some (r_rhs rx !! v) → is_Some (r_lhs rx' !! u) → is_Some (r_rhs rx' !! v) →
     r_rule rx = r_rule rx') →
  (species_graph_to_hypergraph pick default_rule mol_attr (hypergraph_to_species_graph include_mol H)).2 = None ∧
  edges (species_graph_to_hypergraph pick default_rule mol_attr (hypergraph_to_species_graph include_mol H)).1 = edges H.
Proof. exact species_graph_roundtrip_rules. Qed.
Print Assumptions C16_species_graph_roundtrip_rules.

(** ** Bipartite export, integer_ids=True: the documented numbering *)
(** "species ids are 1..N and reactions N+1..N+M": the i-th exported species in sorted label order is node i+1 (with its
    species attributes), the j-th reaction in sorted id order is node N+j+1 (N = number of exported species) *)
Theorem C16_bipartite_integer_numbering : ∀ (fl : bflags) (H : net), f_int fl = true → wf_species H →
  (∀ i s, species_iter fl H !! i = Some s →
     b_nodes (hypergraph_to_bipartite fl H) !! inl (N.of_nat i + 1)%N = Some (sp_attrs fl H s)) ∧
  (∀ j e rx, sort_by_key (map_to_list (edges H)) !! j = Some (e, rx) →
     b_nodes (hypergraph_to_bipartite fl H) !! inl (N.of_nat (length (species_iter fl H) + j) + 1)%N
     = Some (rx_attrs fl e (r_rule rx))).
Proof. exact bipartite_numbering. Qed.
Print Assumptions C16_bipartite_integer_numbering.

(** ** The `bipartite` node marker is opaque *)
(** bipartite_to_hypergraph never reads the networkx `bipartite` marker: erasing it from every node ([strip_bip]) does not
    change the import — for ANY graph and import flags.  So graphs that differ only in their markers (default (0,1), swapped
    (1,0), booleans, equal values, strings: all just attribute values) import to the same network; together with
    C16_bipartite_roundtrip (which quantifies over all [bipartite_values]) the round trip holds for every marker pair. *)
Theorem C16_import_ignores_marker : ∀ (ifl : iflags) (G : bgraph),
  bipartite_to_hypergraph ifl (BGraph ((λ nd, BNode None (bn_label nd) (bn_kind nd) (bn_mol nd) (bn_eid nd)) <$> b_nodes G) (b_arcs G))
  = bipartite_to_hypergraph ifl G.
Proof. exact import_ignores_marker. Qed.
Print Assumptions C16_import_ignores_marker.

(** ** (round 5) Importing an exported graph after the caller DELETED attributes from it *)
(** model/C16_Edit.v: [drop_attrs d G] removes, per node class (read off `kind` first), the attributes `kind` / `label` of the
    species nodes / of the reaction nodes, `stoich` / `role` of every arc, `mol` / the `bipartite` marker of every node.
    The importer has a fall-back for each of them (kind: node-id prefixes, then degrees; label: str(node) for a species, the
    default rule for a reaction; stoich: 1; mol: no label), and the round trip of C16_bipartite_roundtrip SURVIVES the deletion of
    everything the fall-backs can re-derive.  All premises are written out (they are decidable: [edit_ok] in proof/C16_BipDrop.v):
      - `stoich`, `role`, `mol`, the marker: no premise (without `stoich` every coefficient is read as 1: the supports come back,
        as for include_stoich=False, C16_bipartite_roundtrip_any_stoich);
      - integer node ids carry no prefix: `kind` and the species `label` must stay;
      - species nodes without `kind`: the importer's species prefix is the exporter's;
      - species nodes without `label`: the exporter used no species prefix (the node id IS the label);
      - reaction nodes without `kind`: the importer's reaction prefix is the exporter's and the importer's species prefix matches
        no reaction node id;
      - reaction nodes without `label`: every rule is the importer's default rule.
    Each premise is needed: [ex_edit_int_needed], [ex_edit_prefix_needed], [ex_edit_bare]; non-vacuity [ex_edit_untagged]. *)
Theorem C16_bipartite_roundtrip_edited : ∀ (fl : bflags) (ifl : iflags) (d : drops) (H : net),
  wf16 H → f_eid fl = true → bip_names_ok fl H →
  ((f_int fl = true → d_kind_sp d = false ∧ d_kind_rx d = false ∧ d_label_sp d = false) ∧
   (d_kind_sp d = true → i_sp ifl = default "" (f_sp fl)) ∧
   (d_label_sp d = true → default "" (f_sp fl) = "") ∧
   (d_kind_rx d = true → i_rp ifl = default "" (f_rp fl) ∧
      map_Forall (λ e _, String.prefix (i_sp ifl) (default "" (f_rp fl) +:+ e) = false) (edges H)) ∧
   (d_label_rx d = true → map_Forall (λ _ rx, r_rule rx = i_default_rule ifl) (edges H))) →
  (bipartite_to_hypergraph ifl (drop_attrs d (hypergraph_to_bipartite fl H))).2 = None ∧
  edges (bipartite_to_hypergraph ifl (drop_attrs d (hypergraph_to_bipartite fl H))).1
    = (λ rx, Rxn (r_rule rx) ((λ c, if f_stoich fl && negb (d_stoich d) then c else 1%positive) <$> r_lhs rx)
                             ((λ c, if f_stoich fl && negb (d_stoich d) then c else 1%positive) <$> r_rhs rx)) <$> edges H ∧
  species (bipartite_to_hypergraph ifl (drop_attrs d (hypergraph_to_bipartite fl H))).1 = occurring H ∧
  mol (bipartite_to_hypergraph ifl (drop_attrs d (hypergraph_to_bipartite fl H))).1
    = if f_mol fl && i_mol ifl && negb (d_mol d) then filter (λ p, p.1 ∈ occurring H) (mol H) else ∅.
Proof. exact bipartite_roundtrip_edited. Qed.
Print Assumptions C16_bipartite_roundtrip_edited.

(** deleting `stoich` / `role` from every arc of an exported graph gives EXACTLY the graph the exporter builds with
    include_stoich / include_role switched off (the deletion commutes with every step of the export) *)
Theorem C16_delete_arc_attrs_is_export_flag : ∀ (fl : bflags) (d : drops) (H : net),
  hypergraph_to_bipartite (BFlags (f_sp fl) (f_rp fl) (f_bv_s fl) (f_bv_r fl) (f_stoich fl && negb (d_stoich d))
                                  (f_role fl && negb (d_role d)) (f_isolated fl) (f_int fl) (f_eid fl) (f_mol fl)) H
  = drop_attrs (Drops false false false false (d_stoich d) (d_role d) false false) (hypergraph_to_bipartite fl H).
Proof. exact export_drop_arcs. Qed.
Print Assumptions C16_delete_arc_attrs_is_export_flag.

(** the default configuration: exported with "S:" / "R:" (string ids, coefficients) and imported with the default flags, the graph
    may lose every `kind`, `role`, `mol` and marker — and, when all rules are "r", the reaction labels too *)
Theorem C16_untagged_default_prefixes : ∀ (fl : bflags) (d : drops) (mol_attr : bool) (H : net),
  wf16 H → f_eid fl = true → f_stoich fl = true → f_int fl = false → f_sp fl = Some "S:" → f_rp fl = Some "R:" →
  d_stoich d = false → d_label_sp d = false →
  (d_label_rx d = true → map_Forall (λ _ rx, r_rule rx = "r") (edges H)) →
  (bipartite_to_hypergraph (default_iflags mol_attr) (drop_attrs d (hypergraph_to_bipartite fl H))).2 = None ∧
  edges (bipartite_to_hypergraph (default_iflags mol_attr) (drop_attrs d (hypergraph_to_bipartite fl H))).1 = edges H.
Proof. exact untagged_default_prefixes. Qed.
Print Assumptions C16_untagged_default_prefixes.

(** the same for the species graph ([sdrop_attrs], model/C16_Edit.v): ids and coefficients come back from `via` and the
    per-reaction maps alone — the node `label` (absent: the node id), `kind`, `mol`, the `rules` sets and the legacy per-arc
    values stoich_r / stoich_p may all be deleted.  (Deleting the per-reaction maps instead breaks the clause as soon as two
    reactions share a species pair with different coefficients: [ex_sdrop_maps_needed]; non-vacuity [ex_sdrop_nonvacuous].) *)
Theorem C16_species_graph_roundtrip_edited : ∀ (pick : gset string → string) (default_rule : string) (include_mol mol_attr : bool)
    (d : sdrops) (H : net),
  map_Forall (λ _ rx, r_lhs rx ≠ ∅ ∧ r_rhs rx ≠ ∅) (edges H) → sd_rmap d = false → sd_pmap d = false →
  (species_graph_to_hypergraph pick default_rule mol_attr (sdrop_attrs d (hypergraph_to_species_graph include_mol H))).2 = None ∧
  (λ rx, (r_lhs rx, r_rhs rx)) <$> edges (species_graph_to_hypergraph pick default_rule mol_attr
                                            (sdrop_attrs d (hypergraph_to_species_graph include_mol H))).1
    = (λ rx, (r_lhs rx, r_rhs rx)) <$> edges H.
Proof. exact species_graph_roundtrip_edited. Qed.
Print Assumptions C16_species_graph_roundtrip_edited.

(** the LEGACY format: graphs without the per-reaction maps (either or both deleted; the legacy per-arc value of a deleted
    map must then stay).  The importer falls back to stoich_r / stoich_p — the minimum over the reactions of the arc — and the
    round trip holds when that minimum loses nothing: reactions that share a (reactant, product) pair agree on both
    coefficients for it.  Necessary: [ex_sdrop_maps_needed] (2A >> B, 3A >> 4B); non-vacuity [ex_legacy_nonvacuous]
    (two reactions on the arc A -> B with equal coefficients, differing elsewhere; labels, rules and both maps deleted). *)
Theorem C16_species_graph_roundtrip_legacy : ∀ (pick : gset string → string) (default_rule : string) (include_mol mol_attr : bool)
    (d : sdrops) (H : net),
  map_Forall (λ _ rx, r_lhs rx ≠ ∅ ∧ r_rhs rx ≠ ∅) (edges H) →
  (∀ e e' rx rx' u v c d c' d', edges H !! e = Some rx → edges H !! e' = Some rx' →
     r_lhs rx !! u = Some c → r_rhs rx !! v = Some d → r_lhs rx' !! u = Some c' → r_rhs rx' !! v = Some d' → c = c' ∧ d = d') →
  (sd_rmap d = true → sd_leg_r d = false) → (sd_pmap d = true → sd_leg_p d = false) →
  (species_graph_to_hypergraph pick default_rule mol_attr (sdrop_attrs d (hypergraph_to_species_graph include_mol H))).2 = None ∧
  (λ rx, (r_lhs rx, r_rhs rx)) <$> edges (species_graph_to_hypergraph pick default_rule mol_attr
                                            (sdrop_attrs d (hypergraph_to_species_graph include_mol H))).1
    = (λ rx, (r_lhs rx, r_rhs rx)) <$> edges H.
Proof. exact species_graph_roundtrip_legacy. Qed.
Print Assumptions C16_species_graph_roundtrip_legacy.

(** ** (round 5) conversion._as_bipartite on an UNDIRECTED bipartite graph (model/C16_Undirected.v): orientation by `role` *)
(** take the exported DiGraph (roles exported) and present it undirected in ANY way — the incidences in any sequence [l], each
    with its endpoints in either order ([flipb b]: networkx decides both) —: _as_bipartite rebuilds exactly the exported DiGraph,
    catalysts (two incidences between one pair of nodes) included, and the import returns the reactions.  Without `role` the
    product arcs are turned around ([ex_undirected_role_needed]); non-vacuity [ex_undirected_nonvacuous]. *)
Theorem C16_undirected_roundtrip : ∀ (fl : bflags) (ifl : iflags) (H : net) (bs : list bool) (l : list (nid * nid * barc)),
  wf16 H → f_eid fl = true → f_stoich fl = true → f_role fl = true → bip_names_ok fl H →
  length bs = length (map_to_list (b_arcs (hypergraph_to_bipartite fl H))) →
  l ≡ₚ zip_with (λ (b : bool) (e : nid * nid * barc), if b then (e.1.2, e.1.1, e.2) else e) bs
               (map_to_list (b_arcs (hypergraph_to_bipartite fl H))) →
  as_bipartite_undirected (UGraph (b_nodes (hypergraph_to_bipartite fl H)) l) = hypergraph_to_bipartite fl H ∧
  edges (bipartite_to_hypergraph ifl (as_bipartite_undirected (UGraph (b_nodes (hypergraph_to_bipartite fl H)) l))).1 = edges H.
Proof. exact undirected_roundtrip. Qed.
Print Assumptions C16_undirected_roundtrip.
