From Coq Require Import List Arith.
From SK Require Import model.C13_Model proof.C13_Proof.
Theorem C13_memb_spec : forall i l, memb i l = true <-> In i l.
Proof. exact memb_spec. Qed.
Print Assumptions C13_memb_spec.
