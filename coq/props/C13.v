(** C13 -- clustering partitions graphs exactly into isomorphism classes.
    Statements only; every proof is [exact <lemma of proof/C13_*.v>].

    The functions are those of model/C13_Model.v which the correspondence evaluates on every run
    ([run] -> [step] -> [gc_iterative], [gc_fit], [lib_check], [cluster], [fit]).
    Premises shared by the theorems (the oracle contract of the isomorphism test, monitored by the harness:
    networkx VF2 with element/charge/order matchers is compared with a brute-force reference on every pair):
      [iso] is a decidable equivalence on the items satisfying [D] (e.g. well-formed graphs);
      the pre-grouping attribute AS THE CODE READS IT ([gc_key mode]: nothing | the string | the sorted list)
      is invariant under [iso].
    Nothing else is assumed about [iso]: in particular the theorems cover the transitivity shortcut of the code
    (an item is compared only with the FIRST member of each class / with one stored template per class). *)
From Coq Require Import List NArith ZArith Bool Arith Permutation.
From SK Require Import lib.C13_Partition model.C13_Model proof.C13_Proof proof.C13_More.
Import ListNotations.

(** 1. GraphCluster.fit / iterative_cluster: every item gets exactly one class (the list of classes has the length
    of the data, every entry is a number below the number of clusters, and rule_to_cluster contains the pair), and
    two items share a class IFF they are isomorphic. *)
Theorem C13_partition :
  forall (iso : item -> item -> bool) (mode : attr_mode) (D : item -> Prop),
  (forall x, D x -> iso x x = true) ->
  (forall x y, D x -> D y -> iso x y = true -> iso y x = true) ->
  (forall x y z, D x -> D y -> D z -> iso x y = true -> iso y z = true -> iso x z = true) ->
  (forall x y, D x -> D y -> iso x y = true -> gc_key mode x = gc_key mode y) ->
  forall data : list item, Forall D data ->
  length (gc_fit iso mode data) = length data /\
  forall i j x y, nth_error data i = Some x -> nth_error data j = Some y ->
  exists ci cj,
    nth_error (gc_fit iso mode data) i = Some (Some ci) /\
    nth_error (gc_fit iso mode data) j = Some (Some cj) /\
    ci < length (fst (gc_iterative iso mode data)) /\
    In (i, ci) (snd (gc_iterative iso mode data)) /\
    (ci = cj <-> iso x y = true).
Proof. exact partition_full. Qed.
Print Assumptions C13_partition.

(** the [clusters] list and the [rule_to_cluster] dictionary returned by iterative_cluster describe the same
    assignment, whatever [iso] is: cluster number c lists exactly the indices mapped to c *)
Theorem C13_clusters_agree :
  forall (iso : item -> item -> bool) (mode : attr_mode) (data : list item) (j c : nat),
  In (j, c) (snd (gc_iterative iso mode data)) <->
  In j (nth c (fst (gc_iterative iso mode data)) []) /\ c < length (fst (gc_iterative iso mode data)).
Proof. exact clusters_sync_in. Qed.
Print Assumptions C13_clusters_agree.

(** 2. the partition does not depend on the order of the list: for every permutation of the data (duplicates
    allowed; positions i, j / i', j' are any positions holding the same two items) the two items share a class in
    one run iff they do in the other, and the number of classes is the same. *)
Theorem C13_order_independent :
  forall (iso : item -> item -> bool) (mode : attr_mode) (D : item -> Prop),
  (forall x, D x -> iso x x = true) ->
  (forall x y, D x -> D y -> iso x y = true -> iso y x = true) ->
  (forall x y z, D x -> D y -> D z -> iso x y = true -> iso y z = true -> iso x z = true) ->
  (forall x y, D x -> D y -> iso x y = true -> gc_key mode x = gc_key mode y) ->
  forall data data' : list item, Permutation data data' -> Forall D data ->
  length (fst (gc_iterative iso mode data)) = length (fst (gc_iterative iso mode data')) /\
  forall i j i' j' x y,
    nth_error data i = Some x -> nth_error data j = Some y ->
    nth_error data' i' = Some x -> nth_error data' j' = Some y ->
    (nth_error (gc_fit iso mode data) i = nth_error (gc_fit iso mode data) j <->
     nth_error (gc_fit iso mode data') i' = nth_error (gc_fit iso mode data') j').
Proof. exact order_independent. Qed.
Print Assumptions C13_order_independent.

(** 3. BatchCluster.lib_check: from templates on which "same class" and "isomorphic representatives" coincide, a new
    item goes into the class of its isomorphic representative (templates unchanged), or -- when no representative is
    isomorphic -- into the fresh class max+1 (-1+1 = 0 without templates), which no template uses, and is appended
    as the representative of that class; the templates stay coherent. *)
Theorem C13_incremental :
  forall (iso : item -> item -> bool) (mode : attr_mode) (D : item -> Prop),
  (forall x, D x -> iso x x = true) ->
  (forall x y, D x -> D y -> iso x y = true -> iso y x = true) ->
  (forall x y z, D x -> D y -> D z -> iso x y = true -> iso y z = true -> iso x z = true) ->
  (forall x y, D x -> D y -> iso x y = true -> gc_key mode x = gc_key mode y) ->
  forall (x : item) (ts : list template),
  (Forall D (map fst ts) /\
   forall t t', In t ts -> In t' ts -> (iso (fst t) (fst t') = true <-> snd t = snd t')) ->
  D x ->
  let '(c, ts') := lib_check iso mode x ts in
  (Forall D (map fst ts') /\
   forall t t', In t ts' -> In t' ts' -> (iso (fst t) (fst t') = true <-> snd t = snd t')) /\
  (forall t, In t ts -> iso (fst t) x = true -> c = snd t /\ ts' = ts) /\
  ((forall t, In t ts -> iso (fst t) x = false) ->
     c = (fold_right Z.max (-1) (map snd ts) + 1)%Z /\ ~ In c (map snd ts) /\ ts' = ts ++ [(x, c)]).
Proof. exact incremental. Qed.
Print Assumptions C13_incremental.

(** ... and a whole run of BatchCluster.cluster (templates carried from item to item): templates only grow and stay
    coherent, every item gets one class, two items of the run share a class iff they are isomorphic, and an item
    has the class of a final template iff it is isomorphic to that representative. *)
Theorem C13_incremental_run :
  forall (iso : item -> item -> bool) (mode : attr_mode) (D : item -> Prop),
  (forall x, D x -> iso x x = true) ->
  (forall x y, D x -> D y -> iso x y = true -> iso y x = true) ->
  (forall x y z, D x -> D y -> D z -> iso x y = true -> iso y z = true -> iso x z = true) ->
  (forall x y, D x -> D y -> iso x y = true -> gc_key mode x = gc_key mode y) ->
  forall (data : list item) (ts : list template) (cs : list Z) (ts' : list template),
  (Forall D (map fst ts) /\
   forall t t', In t ts -> In t' ts -> (iso (fst t) (fst t') = true <-> snd t = snd t')) ->
  Forall D data ->
  cluster iso mode data ts = (cs, ts') ->
  (Forall D (map fst ts') /\
   forall t t', In t ts' -> In t' ts' -> (iso (fst t) (fst t') = true <-> snd t = snd t')) /\
  (exists ext, ts' = ts ++ ext) /\ length cs = length data /\
  (forall i j x y c c', nth_error data i = Some x -> nth_error data j = Some y ->
      nth_error cs i = Some c -> nth_error cs j = Some c' -> (c = c' <-> iso x y = true)) /\
  (forall i x c t, nth_error data i = Some x -> nth_error cs i = Some c -> In t ts' ->
      (c = snd t <-> iso (fst t) x = true)).
Proof. exact incremental_run. Qed.
Print Assumptions C13_incremental_run.

(** BatchCluster.fit with starting templates, or over more than one batch, IS that run of lib_check over the whole
    list (batch boundaries are invisible; templates are carried across batches) *)
Theorem C13_fit_is_incremental_run :
  forall (iso : item -> item -> bool) (mode : attr_mode)
         (data : list item) (ts : list template) (bs : option nat) (picks : list nat),
  match bs with None => True | Some b => 1 <= b end ->
  (ts <> [] \/ length (match bs with Some b => chunks b data | None => [data] end) <> 1) ->
  fit iso mode data ts bs picks = cluster iso mode data ts.
Proof. exact fit_is_cluster. Qed.
Print Assumptions C13_fit_is_incremental_run.

(** 4. batched clustering = one-shot clustering (after repair 6f9daf3 both read list attributes as multisets).
    From no templates, BatchCluster.fit with any batch size and any sampler choices writes the same class NUMBERS as
    GraphCluster.fit (only reflexivity of the test is needed) ... *)
Theorem C13_batch_equals_oneshot :
  forall (iso : item -> item -> bool) (mode : attr_mode)
         (data : list item) (bs : option nat) (picks : list nat),
  match bs with None => True | Some b => 1 <= b end ->
  (forall x, In x data -> iso x x = true) ->
  fst (fit iso mode data [] bs picks) = map class_z (gc_fit iso mode data).
Proof. exact batch_equals_oneshot. Qed.
Print Assumptions C13_batch_equals_oneshot.

(** ... and for ANY arrival order (permutation of the list) the batched run yields the same partition as the
    one-shot run on the original order. *)
Theorem C13_batch_any_order :
  forall (iso : item -> item -> bool) (mode : attr_mode) (D : item -> Prop),
  (forall x, D x -> iso x x = true) ->
  (forall x y, D x -> D y -> iso x y = true -> iso y x = true) ->
  (forall x y z, D x -> D y -> D z -> iso x y = true -> iso y z = true -> iso x z = true) ->
  (forall x y, D x -> D y -> iso x y = true -> gc_key mode x = gc_key mode y) ->
  forall (data data' : list item) (bs : option nat) (picks : list nat),
  Permutation data data' -> Forall D data ->
  match bs with None => True | Some b => 1 <= b end ->
  forall i j i' j' x y,
    nth_error data i = Some x -> nth_error data j = Some y ->
    nth_error data' i' = Some x -> nth_error data' j' = Some y ->
    (nth_error (gc_fit iso mode data) i = nth_error (gc_fit iso mode data) j <->
     nth_error (fst (fit iso mode data' [] bs picks)) i' = nth_error (fst (fit iso mode data' [] bs picks)) j').
Proof. exact batch_any_order. Qed.
Print Assumptions C13_batch_any_order.

(** 5. the attribute premise cannot be dropped: with a pre-grouping attribute that is NOT isomorphism-invariant two
    isomorphic items are separated (this is the documented domain restriction of the property text, not a defect) *)
Theorem C13_noninvariant_attribute_splits :
  exists (iso : item -> item -> bool) (data : list item),
    (forall x y, iso x y = true) /\
    gc_fit iso AStr data = [Some 0; Some 1].
Proof. exact noninvariant_attribute_splits. Qed.
Print Assumptions C13_noninvariant_attribute_splits.
