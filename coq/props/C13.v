(** C13 -- clustering partitions graphs exactly into isomorphism classes.
    Statements only; every proof is [exact <lemma of proof/C13_*.v>].

    The functions are those of model/C13_Model.v which the correspondence evaluates on every run
    ([run] -> [step] -> [gc_iterative], [gc_fit], [lib_check], [cluster], [fit]); since round 5 through the traced entry point
    [runr] -> [runx] -> [stepx] -> [gc_iterative_tr], [gc_fit_tr], [lib_check_tr], [cluster_tr], [fit_tr] of model/C13_Trace.v, whose
    results are those of the untraced functions (C13_trace_projection), on items whose graphs are the selection [project13] of
    the raw attribute dictionaries.
    Premises shared by the theorems (the oracle contract of the isomorphism test, monitored by the harness:
    networkx VF2 with element/charge/order matchers is compared with a brute-force reference on every pair):
      [iso] is a decidable equivalence on the items satisfying [D] (e.g. well-formed graphs);
      the pre-grouping attribute AS THE CODE READS IT ([gc_key mode]: nothing | the string | the sorted list)
      is invariant under [iso].
    Nothing else is assumed about [iso]: in particular the theorems cover the transitivity shortcut of the code
    (an item is compared only with the FIRST member of each class / with one stored template per class). *)
From Coq Require Import List NArith ZArith Bool Arith Permutation.
From SK Require Import lib.LGraph lib.C13_Partition model.C13_Model model.C13_Trace model.C13_Opts proof.C13_Proof proof.C13_More proof.C13_Iso proof.C13_Templates proof.C13_Clusters proof.C13_Before proof.C13_Trace proof.C13_TraceExact proof.C13_Raw proof.C13_Opts proof.C13_RawOrder proof.C13_RawBatch.
Import ListNotations.

(** 1. GraphCluster.fit / iterative_cluster: every item gets exactly one class (the list of classes has the length
    of the data, every entry is a number below the number of clusters, and rule_to_cluster contains the pair), and
    two items share a class IFF they are isomorphic. *)
Theorem C13_partition :
  forall (iso : item -> item -> bool) (mode : attr_mode) (D : item -> Prop),
  (forall x, D x -> iso x x = true) ->
  (forall x y, D x -> D y -> iso x y = true -> iso y x = true) ->
  (forall x y z, D x -> D y -> D z -> iso x y = true -> iso y z = true -> iso x z = true) ->
  (forall x y, D x -> D y -> iso x y = true -> gc_key mode x = gc_key mode y) ->
  forall data : list item, Forall D data ->
  length (gc_fit iso mode data) = length data /\
  forall i j x y, nth_error data i = Some x -> nth_error data j = Some y ->
  exists ci cj,
    nth_error (gc_fit iso mode data) i = Some (Some ci) /\
    nth_error (gc_fit iso mode data) j = Some (Some cj) /\
    ci < length (fst (gc_iterative iso mode data)) /\
    In (i, ci) (snd (gc_iterative iso mode data)) /\
    (ci = cj <-> iso x y = true).
Proof. exact partition_full. Qed.
Print Assumptions C13_partition.

(** the [clusters] list and the [rule_to_cluster] dictionary returned by iterative_cluster describe the same
    assignment, whatever [iso] is: cluster number c lists exactly the indices mapped to c *)
Theorem C13_clusters_agree :
  forall (iso : item -> item -> bool) (mode : attr_mode) (data : list item) (j c : nat),
  In (j, c) (snd (gc_iterative iso mode data)) <->
  In j (nth c (fst (gc_iterative iso mode data)) []) /\ c < length (fst (gc_iterative iso mode data)).
Proof. exact clusters_sync_in. Qed.
Print Assumptions C13_clusters_agree.

(** 2. the partition does not depend on the order of the list: for every permutation of the data (duplicates
    allowed; positions i, j / i', j' are any positions holding the same two items) the two items share a class in
    one run iff they do in the other, and the number of classes is the same. *)
Theorem C13_order_independent :
  forall (iso : item -> item -> bool) (mode : attr_mode) (D : item -> Prop),
  (forall x, D x -> iso x x = true) ->
  (forall x y, D x -> D y -> iso x y = true -> iso y x = true) ->
  (forall x y z, D x -> D y -> D z -> iso x y = true -> iso y z = true -> iso x z = true) ->
  (forall x y, D x -> D y -> iso x y = true -> gc_key mode x = gc_key mode y) ->
  forall data data' : list item, Permutation data data' -> Forall D data ->
  length (fst (gc_iterative iso mode data)) = length (fst (gc_iterative iso mode data')) /\
  forall i j i' j' x y,
    nth_error data i = Some x -> nth_error data j = Some y ->
    nth_error data' i' = Some x -> nth_error data' j' = Some y ->
    (nth_error (gc_fit iso mode data) i = nth_error (gc_fit iso mode data) j <->
     nth_error (gc_fit iso mode data') i' = nth_error (gc_fit iso mode data') j').
Proof. exact order_independent. Qed.
Print Assumptions C13_order_independent.

(** 3. BatchCluster.lib_check: from templates on which "same class" and "isomorphic representatives" coincide, a new
    item goes into the class of its isomorphic representative (templates unchanged), or -- when no representative is
    isomorphic -- into the fresh class max+1 (-1+1 = 0 without templates), which no template uses, and is appended
    as the representative of that class; the templates stay coherent. *)
Theorem C13_incremental :
  forall (iso : item -> item -> bool) (mode : attr_mode) (D : item -> Prop),
  (forall x, D x -> iso x x = true) ->
  (forall x y, D x -> D y -> iso x y = true -> iso y x = true) ->
  (forall x y z, D x -> D y -> D z -> iso x y = true -> iso y z = true -> iso x z = true) ->
  (forall x y, D x -> D y -> iso x y = true -> gc_key mode x = gc_key mode y) ->
  forall (x : item) (ts : list template),
  (Forall D (map fst ts) /\
   forall t t', In t ts -> In t' ts -> (iso (fst t) (fst t') = true <-> snd t = snd t')) ->
  D x ->
  let '(c, ts') := lib_check iso mode x ts in
  (Forall D (map fst ts') /\
   forall t t', In t ts' -> In t' ts' -> (iso (fst t) (fst t') = true <-> snd t = snd t')) /\
  (forall t, In t ts -> iso (fst t) x = true -> c = snd t /\ ts' = ts) /\
  ((forall t, In t ts -> iso (fst t) x = false) ->
     c = (fold_right Z.max (-1) (map snd ts) + 1)%Z /\ ~ In c (map snd ts) /\ ts' = ts ++ [(x, c)]).
Proof. exact incremental. Qed.
Print Assumptions C13_incremental.

(** ... and a whole run of BatchCluster.cluster (templates carried from item to item): templates only grow and stay
    coherent, every item gets one class, two items of the run share a class iff they are isomorphic, and an item
    has the class of a final template iff it is isomorphic to that representative. *)
Theorem C13_incremental_run :
  forall (iso : item -> item -> bool) (mode : attr_mode) (D : item -> Prop),
  (forall x, D x -> iso x x = true) ->
  (forall x y, D x -> D y -> iso x y = true -> iso y x = true) ->
  (forall x y z, D x -> D y -> D z -> iso x y = true -> iso y z = true -> iso x z = true) ->
  (forall x y, D x -> D y -> iso x y = true -> gc_key mode x = gc_key mode y) ->
  forall (data : list item) (ts : list template) (cs : list Z) (ts' : list template),
  (Forall D (map fst ts) /\
   forall t t', In t ts -> In t' ts -> (iso (fst t) (fst t') = true <-> snd t = snd t')) ->
  Forall D data ->
  cluster iso mode data ts = (cs, ts') ->
  (Forall D (map fst ts') /\
   forall t t', In t ts' -> In t' ts' -> (iso (fst t) (fst t') = true <-> snd t = snd t')) /\
  (exists ext, ts' = ts ++ ext) /\ length cs = length data /\
  (forall i j x y c c', nth_error data i = Some x -> nth_error data j = Some y ->
      nth_error cs i = Some c -> nth_error cs j = Some c' -> (c = c' <-> iso x y = true)) /\
  (forall i x c t, nth_error data i = Some x -> nth_error cs i = Some c -> In t ts' ->
      (c = snd t <-> iso (fst t) x = true)).
Proof. exact incremental_run. Qed.
Print Assumptions C13_incremental_run.

(** BatchCluster.fit with starting templates, or over more than one batch, IS that run of lib_check over the whole
    list (batch boundaries are invisible; templates are carried across batches) *)
Theorem C13_fit_is_incremental_run :
  forall (iso : item -> item -> bool) (mode : attr_mode)
         (data : list item) (ts : list template) (bs : option nat) (picks : list nat),
  match bs with None => True | Some b => 1 <= b end ->
  (ts <> [] \/ length (match bs with Some b => chunks b data | None => [data] end) <> 1) ->
  fit iso mode data ts bs picks = cluster iso mode data ts.
Proof. exact fit_is_cluster. Qed.
Print Assumptions C13_fit_is_incremental_run.

(** 4. batched clustering = one-shot clustering (after repair 6f9daf3 both read list attributes as multisets).
    From no templates, BatchCluster.fit with any batch size and any sampler choices writes the same class NUMBERS as
    GraphCluster.fit (only reflexivity of the test is needed) ... *)
Theorem C13_batch_equals_oneshot :
  forall (iso : item -> item -> bool) (mode : attr_mode)
         (data : list item) (bs : option nat) (picks : list nat),
  match bs with None => True | Some b => 1 <= b end ->
  (forall x, In x data -> iso x x = true) ->
  fst (fit iso mode data [] bs picks) = map class_z (gc_fit iso mode data).
Proof. exact batch_equals_oneshot. Qed.
Print Assumptions C13_batch_equals_oneshot.

(** ... and for ANY arrival order (permutation of the list) the batched run yields the same partition as the
    one-shot run on the original order. *)
Theorem C13_batch_any_order :
  forall (iso : item -> item -> bool) (mode : attr_mode) (D : item -> Prop),
  (forall x, D x -> iso x x = true) ->
  (forall x y, D x -> D y -> iso x y = true -> iso y x = true) ->
  (forall x y z, D x -> D y -> D z -> iso x y = true -> iso y z = true -> iso x z = true) ->
  (forall x y, D x -> D y -> iso x y = true -> gc_key mode x = gc_key mode y) ->
  forall (data data' : list item) (bs : option nat) (picks : list nat),
  Permutation data data' -> Forall D data ->
  match bs with None => True | Some b => 1 <= b end ->
  forall i j i' j' x y,
    nth_error data i = Some x -> nth_error data j = Some y ->
    nth_error data' i' = Some x -> nth_error data' j' = Some y ->
    (nth_error (gc_fit iso mode data) i = nth_error (gc_fit iso mode data) j <->
     nth_error (fst (fit iso mode data' [] bs picks)) i' = nth_error (fst (fit iso mode data' [] bs picks)) j').
Proof. exact batch_any_order. Qed.
Print Assumptions C13_batch_any_order.

(** 5. the attribute premise cannot be dropped: with a pre-grouping attribute that is NOT isomorphism-invariant two
    isomorphic items are separated (this is the documented domain restriction of the property text, not a defect) *)
Theorem C13_noninvariant_attribute_splits :
  exists (iso : item -> item -> bool) (data : list item),
    (forall x y, iso x y = true) /\
    gc_fit iso AStr data = [Some 0; Some 1].
Proof. exact noninvariant_attribute_splits. Qed.
Print Assumptions C13_noninvariant_attribute_splits.

(** ** 6. the premises about [iso] are THEOREMS for the isomorphism test the model evaluates.
    [item_iso labelled defs] = equal node counts + non-empty result of the verified enumerator Mono.monos (induced)
    with the element/charge node matcher and the order edge matcher ([labelled = false]: topology only).
    On well-formed items (distinct node ids, every node carries the configured attributes) it decides exactly the
    existence of a label- and bond-preserving bijection, and it is reflexive, symmetric and transitive.
    What stays trusted is only that networkx VF2 returns the same verdicts (compared on every run). *)
Theorem C13_isomorphic_meaning :
  forall (labelled : bool) (defs : list N) (g1 g2 : graph),
  isomorphic labelled defs g1 g2 <->
  length (gnodes g1) = length (gnodes g2) /\
  exists f : N -> N,
    NoDup (map f (node_ids g2)) /\ incl (map f (node_ids g2)) (node_ids g1) /\
    (forall u, In u (node_ids g2) -> node_match labelled defs (label g1 (f u)) (label g2 u) = true) /\
    (forall u v, In u (node_ids g2) -> In v (node_ids g2) -> u <> v ->
       match LGraph.adj g2 u v, LGraph.adj g1 (f u) (f v) with
       | Some b, Some b' => edge_match labelled b' b = true
       | None, None => True
       | _, _ => False
       end).
Proof. exact isomorphic_meaning. Qed.
Print Assumptions C13_isomorphic_meaning.

Theorem C13_iso_decides_isomorphism :
  forall (labelled : bool) (defs : list N) (g1 g2 : graph), NoDup (node_ids g2) ->
  (graph_iso labelled defs g1 g2 = true <-> isomorphic labelled defs g1 g2).
Proof. exact graph_iso_spec. Qed.
Print Assumptions C13_iso_decides_isomorphism.

Theorem C13_iso_is_equivalence :
  forall (labelled : bool) (defs : list N),
  let D := fun x : item =>
             NoDup (node_ids (it_graph x)) /\
             forall u a, In (u, a) (gnodes (it_graph x)) -> length defs <= length a in
  (forall x, D x -> item_iso labelled defs x x = true) /\
  (forall x y, D x -> D y -> item_iso labelled defs x y = true -> item_iso labelled defs y x = true) /\
  (forall x y z, D x -> D y -> D z ->
     item_iso labelled defs x y = true -> item_iso labelled defs y z = true -> item_iso labelled defs x z = true).
Proof. exact (fun labelled defs => conj (item_iso_refl labelled defs) (conj (item_iso_sym labelled defs) (item_iso_trans labelled defs))). Qed.
Print Assumptions C13_iso_is_equivalence.

(** hence, with NO assumption about the isomorphism test: GraphCluster.fit on well-formed reaction-centre graphs
    gives every item exactly one class and two items share a class IFF their graphs are isomorphic on element,
    charge and bond order -- provided only that the pre-grouping attribute (if any) is isomorphism-invariant. *)
Theorem C13_partition_graphs :
  forall (labelled : bool) (defs : list N) (mode : attr_mode) (data : list item),
  let D := fun x : item =>
             NoDup (node_ids (it_graph x)) /\
             forall u a, In (u, a) (gnodes (it_graph x)) -> length defs <= length a in
  (forall x y, D x -> D y -> isomorphic labelled defs (it_graph x) (it_graph y) -> gc_key mode x = gc_key mode y) ->
  Forall D data ->
  length (gc_fit (item_iso labelled defs) mode data) = length data /\
  forall i j x y, nth_error data i = Some x -> nth_error data j = Some y ->
  exists ci cj,
    nth_error (gc_fit (item_iso labelled defs) mode data) i = Some (Some ci) /\
    nth_error (gc_fit (item_iso labelled defs) mode data) j = Some (Some cj) /\
    ci < length (fst (gc_iterative (item_iso labelled defs) mode data)) /\
    (ci = cj <-> isomorphic labelled defs (it_graph x) (it_graph y)).
Proof. exact (fun labelled defs mode data => partition_graphs labelled defs mode data). Qed.
Print Assumptions C13_partition_graphs.

(** ... and batched classification of the items in ANY arrival order, with any batch size, puts two items into the
    same class IFF their graphs are isomorphic *)
Theorem C13_batch_any_order_graphs :
  forall (labelled : bool) (defs : list N) (mode : attr_mode) (data data' : list item) (bs : option nat) (picks : list nat),
  let D := fun x : item =>
             NoDup (node_ids (it_graph x)) /\
             forall u a, In (u, a) (gnodes (it_graph x)) -> length defs <= length a in
  (forall x y, D x -> D y -> isomorphic labelled defs (it_graph x) (it_graph y) -> gc_key mode x = gc_key mode y) ->
  Permutation data data' -> Forall D data ->
  match bs with None => True | Some b => 1 <= b end ->
  forall i j i' j' x y,
    nth_error data i = Some x -> nth_error data j = Some y ->
    nth_error data' i' = Some x -> nth_error data' j' = Some y ->
    (nth_error (fst (fit (item_iso labelled defs) mode data' [] bs picks)) i' =
     nth_error (fst (fit (item_iso labelled defs) mode data' [] bs picks)) j' <->
     isomorphic labelled defs (it_graph x) (it_graph y)).
Proof. exact (fun labelled defs mode data data' bs picks => batch_any_order_graphs labelled defs mode data data' bs picks). Qed.
Print Assumptions C13_batch_any_order_graphs.

(** ** 7. the STATE carried across calls (the template list).  BatchCluster.fit from no templates -- whichever path it
    takes: one-shot GraphCluster + one sampled representative per class, or lib_check over the batches -- writes the
    class numbers of GraphCluster.fit and returns templates that (a) are coherent, (b) are processed items with the
    class they received, and (c) when the sampler's choices are in range (random.sample always is; they are an INPUT
    of the model) represent every processed item by an isomorphic template carrying its class. *)
Theorem C13_fit_templates :
  forall (iso : item -> item -> bool) (mode : attr_mode) (D : item -> Prop),
  (forall x, D x -> iso x x = true) ->
  (forall x y, D x -> D y -> iso x y = true -> iso y x = true) ->
  (forall x y z, D x -> D y -> D z -> iso x y = true -> iso y z = true -> iso x z = true) ->
  (forall x y, D x -> D y -> iso x y = true -> gc_key mode x = gc_key mode y) ->
  forall (data : list item) (bs : option nat) (picks : list nat),
  Forall D data -> match bs with None => True | Some b => 1 <= b end ->
  let cs := fst (fit iso mode data [] bs picks) in
  let ts := snd (fit iso mode data [] bs picks) in
  cs = map class_z (gc_fit iso mode data) /\
  (Forall D (map fst ts) /\
   forall t t', In t ts -> In t' ts -> (iso (fst t) (fst t') = true <-> snd t = snd t')) /\
  (forall t, In t ts -> exists i, nth_error data i = Some (fst t) /\ nth_error cs i = Some (snd t)) /\
  (Forall2 (fun k p => p < length (members data (map class_z (gc_fit iso mode data)) k))
           (first_keys [] (map class_z (gc_fit iso mode data))) picks ->
   forall i x, nth_error data i = Some x ->
   exists t, In t ts /\ iso (fst t) x = true /\ nth_error cs i = Some (snd t)).
Proof. exact fit_templates. Qed.
Print Assumptions C13_fit_templates.

(** the incremental clause end to end: a NEW item classified against the templates an earlier fit returned gets the
    class of exactly the earlier items it is isomorphic to; isomorphic to none of them, it gets a class number no
    earlier item has and is appended as the representative of that class *)
Theorem C13_fit_then_lib_check :
  forall (iso : item -> item -> bool) (mode : attr_mode) (D : item -> Prop),
  (forall x, D x -> iso x x = true) ->
  (forall x y, D x -> D y -> iso x y = true -> iso y x = true) ->
  (forall x y z, D x -> D y -> D z -> iso x y = true -> iso y z = true -> iso x z = true) ->
  (forall x y, D x -> D y -> iso x y = true -> gc_key mode x = gc_key mode y) ->
  forall (data : list item) (bs : option nat) (picks : list nat) (y : item),
  Forall D data -> match bs with None => True | Some b => 1 <= b end ->
  Forall2 (fun k p => p < length (members data (map class_z (gc_fit iso mode data)) k))
          (first_keys [] (map class_z (gc_fit iso mode data))) picks ->
  D y ->
  let cs := fst (fit iso mode data [] bs picks) in
  let ts := snd (fit iso mode data [] bs picks) in
  let c := fst (lib_check iso mode y ts) in
  (forall i x, nth_error data i = Some x -> (nth_error cs i = Some c <-> iso x y = true)) /\
  ((forall x, In x data -> iso x y = false) -> ~ In c cs /\ snd (lib_check iso mode y ts) = ts ++ [(y, c)]).
Proof. exact fit_then_lib_check. Qed.
Print Assumptions C13_fit_then_lib_check.

(** ** 8. the [clusters] list itself is a partition of the indices: no index occurs twice (within one cluster or in
    two clusters) whatever the isomorphism test answers, and with a reflexive test every index 0..n-1 occurs *)
Theorem C13_clusters_partition :
  forall (iso : item -> item -> bool) (mode : attr_mode) (data : list item),
  NoDup (concat (fst (gc_iterative iso mode data))) /\
  ((forall x, In x data -> iso x x = true) ->
   forall i, i < length data ->
   exists c, c < length (fst (gc_iterative iso mode data)) /\ In i (nth c (fst (gc_iterative iso mode data)) [])).
Proof. exact (fun iso mode data => conj (clusters_disjoint iso mode data) (clusters_cover iso mode data)). Qed.
Print Assumptions C13_clusters_partition.

(** ** 9. documentation of the defect repaired in round 1 (/repo 6f9daf3, known_findings.d/C13.json): with lib_check
    comparing list attributes in raw order ([lib_check_before] / [cluster_before], the code before the repair) two items
    with an isomorphism-invariant attribute (equal as multisets) that the one-shot path puts together are split by the
    batched path; the repaired code puts them together (theorem 4) *)
Theorem C13_unsorted_attribute_before_repair_refuted :
  exists (iso : item -> item -> bool) (data : list item),
    (forall x y, iso x y = true) /\
    (forall x y, In x data -> In y data -> gc_key AList x = gc_key AList y) /\
    gc_fit iso AList data = [Some 0; Some 0] /\
    fst (cluster_before iso AList data []) = [0; 1]%Z /\
    fst (cluster iso AList data []) = [0; 0]%Z.
Proof. exact unsorted_attribute_before_repair. Qed.
Print Assumptions C13_unsorted_attribute_before_repair_refuted.

(** ** 10. BatchCluster.batch_dicts (model [chunks]) for batch_size >= 1 (smaller sizes raise ValueError: contract cases):
    the batches concatenate to the input, every batch has between 1 and batch_size entries, and a first batch that is
    followed by another one has exactly batch_size entries *)
Theorem C13_batch_dicts :
  forall (b : nat) (l : list item), 1 <= b ->
  concat (chunks b l) = l /\ Forall (fun c => 1 <= length c <= b) (chunks b l) /\
  (forall c rest, chunks b l = c :: rest -> rest <> [] -> length c = b).
Proof. exact (fun b l => batch_dicts_spec b l). Qed.
Print Assumptions C13_batch_dicts.

(** ** 11. the attribute DOMAIN (round 4).  Mode [AMixed]: one list may mix the forms of the pre-grouping attribute; every
    value is normalised on its own ([norm_value]: the encoder tags a value 0 :: codes = str, 1 :: elements = list or
    tuple, 2 = attribute absent, 3 :: keys = dict / OrderedDict, 5 :: [n] = number; tags 1 and 3 are read as multisets,
    everything else by value).  All theorems above hold for every mode, so "isomorphism-invariant attribute" means:
    isomorphic items have equal NORMALISED values (premise [gc_key mode x = gc_key mode y]). *)
Theorem C13_attribute_normalisation :
  forall (r : list Z) (t : Z),
  norm_value (1%Z :: r) = 1%Z :: sortZ r /\ norm_value (3%Z :: r) = 3%Z :: sortZ r /\
  (t <> 1%Z -> t <> 3%Z -> norm_value (t :: r) = t :: r) /\ norm_value [] = [].
Proof. exact norm_value_meaning. Qed.
Print Assumptions C13_attribute_normalisation.

(** documentation of the defect repaired in round 4 (/repo 3659dfd): GraphCluster used to pick the normalisation by the
    type of the FIRST value; after a str first value the whole list was compared raw (= mode [AStr] on the whole list)
    and two isomorphic items with permuted list attributes were split, while the batched path (and the repaired code,
    mode [AMixed]) joins them *)
Theorem C13_first_item_normalisation_before_repair_refuted :
  gc_key AMixed mix_b = gc_key AMixed mix_c /\
  gc_fit mix_iso AMixed [mix_a; mix_b; mix_c] = [Some 0; Some 1; Some 1] /\
  gc_fit mix_iso AStr [mix_a; mix_b; mix_c] = [Some 0; Some 1; Some 2] /\
  fst (cluster mix_iso AMixed [mix_a; mix_b; mix_c] []) = [0; 1; 1]%Z.
Proof. exact first_item_normalisation_before_repair. Qed.
Print Assumptions C13_first_item_normalisation_before_repair_refuted.

(** ** (round 5) intermediate values: the sequence of isomorphism tests.  The correspondence evaluates the TRACED loops of
    model/C13_Trace.v and compares, after every call, the pairs handed to graph_isomorphism in call order. *)

(** the traced loops compute exactly what the loops of C13_Model.v compute -- for every isomorphism test, so every theorem
    above is about what [runx] evaluates *)
Theorem C13_trace_projection :
  forall (iso : item -> item -> bool) (mode : attr_mode),
  (forall rules, fst (gc_iterative_tr iso mode rules) = gc_iterative iso mode rules) /\
  (forall data, fst (gc_fit_tr iso mode data) = gc_fit iso mode data) /\
  (forall x ts, fst (lib_check_tr iso mode x ts) = lib_check iso mode x ts) /\
  (forall data ts, fst (cluster_tr iso mode data ts) = cluster iso mode data ts) /\
  (forall data ts bs picks, fst (fit_tr iso mode data ts bs picks) = fit iso mode data ts bs picks).
Proof.
  exact (fun iso mode => conj (gc_iterative_tr_fst iso mode) (conj (gc_fit_tr_fst iso mode) (conj (lib_check_tr_fst iso mode)
           (conj (fun data ts => cluster_tr_fst iso mode data ts) (fit_tr_fst iso mode))))).
Qed.
Print Assumptions C13_trace_projection.

(** ... and the two-slot entry point [step] of C13_Model.v is the instance [star; zero] of [stepx]: same library after every call *)
Theorem C13_stepx_state :
  forall (star zero : N) (mode : attr_mode) (pool : list item) (ts : list template) (o : op),
  snd (stepx [star; zero] mode pool ts (OBase o)) = snd (step star zero mode pool ts o).
Proof. exact stepx_state. Qed.
Print Assumptions C13_stepx_state.

(** lib_check tests exactly the templates with the entry's (normalised) attribute, in library order, up to and including the
    first isomorphic one -- whose class the entry gets, library unchanged -- or all of them when none is isomorphic -- then
    the entry is appended as the representative of its new class *)
Theorem C13_lib_check_trace :
  forall (iso : item -> item -> bool) (mode : attr_mode) (x : item) (ts : list template),
  let sub := filter (fun t => zlist_eqb (bc_key mode (fst t)) (bc_key mode x)) ts in
  let tested := snd (lib_check_tr iso mode x ts) in
  (forall u, In u tested -> In u ts /\ bc_key mode (fst u) = bc_key mode x) /\
  ((exists pre t post, sub = pre ++ t :: post /\ tested = pre ++ [t] /\ iso (fst t) x = true /\
                       (forall u, In u pre -> iso (fst u) x = false) /\
                       lib_check iso mode x ts = (snd t, ts)) \/
   (tested = sub /\ (forall u, In u sub -> iso (fst u) x = false) /\
    snd (lib_check iso mode x ts) = ts ++ [(x, fst (lib_check iso mode x ts))])).
Proof. exact lib_check_trace. Qed.
Print Assumptions C13_lib_check_trace.

(** iterative_cluster: every test compares an earlier list position with a later one that carries the same normalised
    attribute; the earlier position is the FIRST member of one of the returned clusters (an item is only ever compared with the
    representative of a class -- the transitivity shortcut of the code, made visible); no pair of positions is tested twice;
    hence at most n(n-1)/2 tests. *)
Theorem C13_gc_trace :
  forall (iso : item -> item -> bool) (mode : attr_mode) (data : list item),
  let tr := snd (gc_iterative_tr iso mode data) in
  NoDup tr /\
  (forall i j, In (i, j) tr ->
     i < j < length data /\
     (exists xi xj, nth_error data i = Some xi /\ nth_error data j = Some xj /\ gc_key mode xi = gc_key mode xj) /\
     (exists cl, In (i :: cl) (fst (fst (gc_iterative_tr iso mode data))))) /\
  2 * length tr <= length data * (length data - 1).
Proof. exact gc_trace_full. Qed.
Print Assumptions C13_gc_trace.

(** the constructor contract of both classes inside the model: accepted iff the (lower-cased) backend is available and
    names / defaults have the same length; ImportError exactly for the class's own optional backend (GraphCluster "mod",
    BatchCluster "rule") when it is unavailable, ValueError otherwise; without the `mod` package only "nx" is available *)
Theorem C13_ctor_contract :
  forall (gc inst : bool) (nn nd : nat) (b : backend),
  (ctor_contract gc inst nn nd b = CtorOk <-> available gc inst b = true /\ nn = nd) /\
  (ctor_contract gc inst nn nd b = CtorImportError <->
     available gc inst b = false /\ ((gc = true /\ b = BMod) \/ (gc = false /\ b = BRule))) /\
  (available gc false b = true <-> b = BNx).
Proof. exact ctor_contract_spec. Qed.
Print Assumptions C13_ctor_contract.

(** attribute selection: generic_node_match(names, defaults, eq) and generic_edge_match(edge_attribute, 1, eq) evaluated on
    the RAW attribute dictionaries are the matchers of [graph_iso] on the selection [project13] (which [runr] applies to every
    item), for any number of configured names *)
Theorem C13_raw_matchers :
  (forall (names defs : list N) (h p : rnattr13), length defs = length names ->
     node_match_raw13 names defs h p =
     attrs_match defs (map (fun k => LGraph.assoc k h) names) (map (fun k => LGraph.assoc k p) names)) /\
  (forall (c : ccfg) (g1 g2 : rgraph13) (u v u' v' : N), length (cc_defs c) = length (cc_names c) ->
     node_match true (cc_defs c) (label (project13 c g1) u) (label (project13 c g2) v) =
       match label g1 u, label g2 v with
       | Some a, Some b => node_match_raw13 (cc_names c) (cc_defs c) a b
       | _, _ => false
       end /\
     match LGraph.adj (project13 c g1) u u', LGraph.adj (project13 c g2) v v' with
     | Some a, Some b => edge_match true a b
     | _, _ => false
     end =
     match LGraph.adj g1 u u', LGraph.adj g2 v v' with
     | Some a, Some b => edge_match_raw13 (cc_edge c) a b
     | _, _ => false
     end) /\
  (forall (c : ccfg) (g : rgraph13), node_ids (project13 c g) = node_ids g).
Proof. exact (conj node_match_raw13_project (conj project13_matchers project13_ids)). Qed.
Print Assumptions C13_raw_matchers.

(** graph_morphism.graph_isomorphism(g1, g2, node_match, edge_match, use_defaults) -- its option handling in the model
    ([iso_call]: a matcher that is None is replaced by the function's own default (element / charge with "*" / 0; order with 1)
    only when use_defaults is set, otherwise that side is not compared at all): with both matchers given the caller's
    configuration decides and use_defaults is irrelevant; with none and use_defaults the function's defaults; with none and
    no defaults the topology alone; with only the node matcher and use_defaults the caller's labels and the default bond
    attribute.  [graph_iso2] with equal flags is [graph_iso]. *)
Theorem C13_graph_isomorphism_options :
  forall (c cdef : ccfg) (g1 g2 : rgraph13),
  (forall ud, iso_call c cdef true true ud g1 g2 = graph_iso true (cc_defs c) (project13 c g1) (project13 c g2)) /\
  iso_call c cdef false false true g1 g2 = graph_iso true (cc_defs cdef) (project13 cdef g1) (project13 cdef g2) /\
  iso_call c cdef false false false g1 g2 =
    graph_iso false [] (project13 {| cc_names := []; cc_defs := []; cc_edge := 0%N |} g1)
                       (project13 {| cc_names := []; cc_defs := []; cc_edge := 0%N |} g2) /\
  iso_call c cdef true false true g1 g2 =
    graph_iso true (cc_defs c) (project13 {| cc_names := cc_names c; cc_defs := cc_defs c; cc_edge := cc_edge cdef |} g1)
                               (project13 {| cc_names := cc_names c; cc_defs := cc_defs c; cc_edge := cc_edge cdef |} g2).
Proof. exact iso_call_cases. Qed.
Print Assumptions C13_graph_isomorphism_options.

(** the EXACT sequence of isomorphism tests of iterative_cluster, as a function of the clusters it returns (the test itself does
    not occur): for every returned cluster, in order, its first member i is tested against every LATER list position j -- in
    list order -- that carries the same normalised attribute and belongs to no EARLIER cluster.  [spec_new todo visited new]:
    [todo] the (position, item) entries still to come, [visited] the members of the clusters before, [new] the clusters;
    [row] one representative's tests; [after i todo] the entry of position i and what follows it. *)
Theorem C13_gc_trace_exact :
  forall (iso : item -> item -> bool) (mode : attr_mode) (data : list item),
  snd (gc_iterative_tr iso mode data) = spec_new mode (enum_from 0 data) [] (fst (fst (gc_iterative_tr iso mode data))).
Proof. exact gc_trace_exact. Qed.
Print Assumptions C13_gc_trace_exact.

Theorem C13_gc_trace_exact_meaning :
  forall (mode : attr_mode),
  (forall todo visited, spec_new mode todo visited [] = []) /\
  (forall todo visited i tl more,
     spec_new mode todo visited ((i :: tl) :: more) =
     match after i todo with
     | Some (xi, rest) => row mode i xi rest visited ++ spec_new mode rest ((i :: tl) ++ visited) more
     | None => []
     end) /\
  (forall i xi rest vis,
     row mode i xi rest vis =
     map (fun jx => (i, fst jx))
         (filter (fun jx => zlist_eqb (gc_key mode xi) (gc_key mode (snd jx)) && negb (memb (fst jx) vis)) rest)) /\
  (forall i, after i [] = None) /\
  (forall i k x r, after i ((k, x) :: r) = if Nat.eqb k i then Some (x, r) else after i r).
Proof. exact (fun mode => conj (fun _ _ => eq_refl) (conj (fun _ _ _ _ _ => eq_refl) (conj (fun _ _ _ _ => eq_refl) (conj (fun _ => eq_refl) (fun _ _ _ _ => eq_refl))))). Qed.
Print Assumptions C13_gc_trace_exact_meaning.

(** ** (round 5) THE PARTITION THEOREM ON THE CALLER'S GRAPHS.  Items are handed to the model as raw attribute dictionaries
    ([ritem], [mk_item c] selects the configured names).  [raw_isomorphic c g1 g2] (written out in the first theorem): equal
    atom counts and a bijection of the atoms that preserves the configured labels after the defaults
    (generic_node_match(names, defaults, eq)) and presence + configured attribute (default 1) of every bond
    (generic_edge_match(edge_attribute, 1, eq)).  GraphCluster.fit gives every item exactly one class, and two items share a
    class IFF their raw graphs are isomorphic in that sense -- for any number of configured labels, provided node ids are
    distinct and the pre-grouping attribute (if any) is equal on isomorphic items OF THE LIST. *)
Theorem C13_raw_isomorphic_meaning :
  forall (c : ccfg) (g1 g2 : rgraph13),
  raw_isomorphic c g1 g2 <->
  length (gnodes g1) = length (gnodes g2) /\
  exists f : N -> N,
    NoDup (map f (node_ids g2)) /\ incl (map f (node_ids g2)) (node_ids g1) /\
    (forall u, In u (node_ids g2) ->
       match label g1 (f u), label g2 u with
       | Some a, Some b => node_match_raw13 (cc_names c) (cc_defs c) a b = true
       | _, _ => False
       end) /\
    (forall u v, In u (node_ids g2) -> In v (node_ids g2) -> u <> v ->
       match LGraph.adj g2 u v, LGraph.adj g1 (f u) (f v) with
       | Some b, Some b' => edge_match_raw13 (cc_edge c) b' b = true
       | None, None => True
       | _, _ => False
       end).
Proof. exact (fun c g1 g2 => iff_refl _). Qed.
Print Assumptions C13_raw_isomorphic_meaning.

Theorem C13_partition_raw :
  forall (c : ccfg) (mode : attr_mode) (data : list ritem),
  length (cc_defs c) = length (cc_names c) ->
  (forall x, In x data -> NoDup (node_ids (ri_graph x))) ->
  (forall x y, In x data -> In y data -> raw_isomorphic c (ri_graph x) (ri_graph y) ->
               gc_key mode (mk_item c x) = gc_key mode (mk_item c y)) ->
  let items := map (mk_item c) data in
  let classes := gc_fit (item_iso true (cc_defs c)) mode items in
  length classes = length data /\
  forall i j x y, nth_error data i = Some x -> nth_error data j = Some y ->
  exists ci cj, nth_error classes i = Some (Some ci) /\ nth_error classes j = Some (Some cj) /\
                (ci = cj <-> raw_isomorphic c (ri_graph x) (ri_graph y)).
Proof. exact partition_raw. Qed.
Print Assumptions C13_partition_raw.

(** the incremental clause of the property on the caller's graphs: a NEW raw item classified ([lib_check]) against the templates
    that an earlier [fit] (one-shot + sampled representatives, or batched; any batch size >= 1, any in-range sampler choices)
    returned gets the class of EXACTLY the earlier items its raw graph is isomorphic to; isomorphic to none of them, it gets a
    class number no earlier item has and is appended as the representative of that class *)
Theorem C13_incremental_raw :
  forall (c : ccfg) (mode : attr_mode) (data : list ritem) (bs : option nat) (picks : list nat) (y : ritem),
  length (cc_defs c) = length (cc_names c) ->
  (forall x, In x (y :: data) -> NoDup (node_ids (ri_graph x))) ->
  (forall x x', In x (y :: data) -> In x' (y :: data) -> raw_isomorphic c (ri_graph x) (ri_graph x') ->
                gc_key mode (mk_item c x) = gc_key mode (mk_item c x')) ->
  match bs with None => True | Some b => 1 <= b end ->
  let iso := item_iso true (cc_defs c) in
  let items := map (mk_item c) data in
  Forall2 (fun k p => p < length (members items (map class_z (gc_fit iso mode items)) k))
          (first_keys [] (map class_z (gc_fit iso mode items))) picks ->
  let cs := fst (fit iso mode items [] bs picks) in
  let ts := snd (fit iso mode items [] bs picks) in
  let cl := fst (lib_check iso mode (mk_item c y) ts) in
  (forall i x, nth_error data i = Some x ->
     (nth_error cs i = Some cl <-> raw_isomorphic c (ri_graph x) (ri_graph y))) /\
  ((forall x, In x data -> ~ raw_isomorphic c (ri_graph x) (ri_graph y)) ->
   ~ In cl cs /\ snd (lib_check iso mode (mk_item c y) ts) = ts ++ [(mk_item c y, cl)]).
Proof. exact incremental_raw. Qed.
Print Assumptions C13_incremental_raw.

(** ** (round 5, wave 4) the optional matcher arguments as OPTIONS of the model (model/C13_Opts.v; the correspondence runs every
    history through [runR] -> [playR] -> [stepR]).  [msrc]: a matcher argument is omitted / None ([MNone]), the object's own
    matcher handed in ([MObj]) or a matcher the caller built from another configuration [cm] ([MExplicit]).
    BatchCluster.lib_check falls back to the object's own matcher PER ARGUMENT (nodeMatch or self.nodeMatch, edgeMatch or
    self.edgeMatch): the node labels come from the caller's matcher iff nodeMatch was given, the bond attribute from the caller's
    matcher iff edgeMatch was given -- so with only nodeMatch given the object's bond attribute is still compared, with only
    edgeMatch given the object's node labels are; and the test always compares both sides. *)
Theorem C13_lib_check_fallback_per_argument :
  forall (c cm : ccfg) (ns es : msrc),
  let ce := mix_cfg c cm (fallback ns) (fallback es) in
  (cc_names ce = match ns with MExplicit => cc_names cm | _ => cc_names c end) /\
  (cc_defs ce = match ns with MExplicit => cc_defs cm | _ => cc_defs c end) /\
  (cc_edge ce = match es with MExplicit => cc_edge cm | _ => cc_edge c end).
Proof. exact lib_check_fallback_per_argument. Qed.
Print Assumptions C13_lib_check_fallback_per_argument.

Theorem C13_lib_check_options :
  forall (c cm : ccfg) (mode : attr_mode) (rpool : list ritem) (ts : list template) (i : nat) (ns es : msrc),
  stepR c cm mode rpool ts (RLibCheck i ns es) =
  let ce := mix_cfg c cm (fallback ns) (fallback es) in
  stepx (cc_defs ce) mode (map (mk_item ce) rpool) (map (reproj ce rpool) ts) (OBase (OLibCheck i)).
Proof. exact lib_check_always_labelled. Qed.
Print Assumptions C13_lib_check_options.

(** GraphCluster.iterative_cluster(rules, attributes, nodeMatch, edgeMatch) has NO fallback: a side whose matcher is None is not
    compared at all ([given], [item_iso2]); with both given it is the labelled test, with none the topology-only test *)
Theorem C13_iterative_cluster_no_fallback :
  forall (c cm : ccfg),
  (forall defs x y, item_iso2 true true defs x y = item_iso true defs x y) /\
  (forall defs x y, item_iso2 false false defs x y = item_iso false defs x y) /\
  given MNone = false /\ given MObj = true /\ given MExplicit = true /\
  cc_names (mix_cfg c cm MNone MObj) = [] /\ cc_edge (mix_cfg c cm MExplicit MNone) = 0%N.
Proof. exact gc_iter_no_fallback. Qed.
Print Assumptions C13_iterative_cluster_no_fallback.

(** the order-independence clause of the property on the caller's graphs: clustering the same raw items in ANY order gives the
    same partition -- two items share a class in one run iff they do in the other, iff their raw graphs are isomorphic on the
    configured labels and bond attribute *)
Theorem C13_order_independent_raw :
  forall (c : ccfg) (mode : attr_mode) (data data' : list ritem),
  Permutation data data' ->
  length (cc_defs c) = length (cc_names c) ->
  (forall x, In x data -> NoDup (node_ids (ri_graph x))) ->
  (forall x y, In x data -> In y data -> raw_isomorphic c (ri_graph x) (ri_graph y) ->
               gc_key mode (mk_item c x) = gc_key mode (mk_item c y)) ->
  let classes := gc_fit (item_iso true (cc_defs c)) mode (map (mk_item c) data) in
  let classes' := gc_fit (item_iso true (cc_defs c)) mode (map (mk_item c) data') in
  forall i j i' j' x y,
    nth_error data i = Some x -> nth_error data j = Some y ->
    nth_error data' i' = Some x -> nth_error data' j' = Some y ->
    exists ci cj ci' cj',
      nth_error classes i = Some (Some ci) /\ nth_error classes j = Some (Some cj) /\
      nth_error classes' i' = Some (Some ci') /\ nth_error classes' j' = Some (Some cj') /\
      (ci = cj <-> ci' = cj') /\ (ci = cj <-> raw_isomorphic c (ri_graph x) (ri_graph y)).
Proof. exact order_independent_raw. Qed.
Print Assumptions C13_order_independent_raw.

(** batched classification on the caller's graphs: BatchCluster.fit from no templates over ANY arrival order of the raw items,
    with any batch size >= 1 and any sampler choices, puts two items into one class IFF their raw graphs are isomorphic *)
Theorem C13_batch_any_order_raw :
  forall (c : ccfg) (mode : attr_mode) (data data' : list ritem) (bs : option nat) (picks : list nat),
  Permutation data data' ->
  length (cc_defs c) = length (cc_names c) ->
  (forall x, In x data -> NoDup (node_ids (ri_graph x))) ->
  (forall x y, In x data -> In y data -> raw_isomorphic c (ri_graph x) (ri_graph y) ->
               gc_key mode (mk_item c x) = gc_key mode (mk_item c y)) ->
  match bs with None => True | Some b => 1 <= b end ->
  let classes' := fst (fit (item_iso true (cc_defs c)) mode (map (mk_item c) data') [] bs picks) in
  forall i' j' x y, nth_error data' i' = Some x -> nth_error data' j' = Some y ->
    (nth_error classes' i' = nth_error classes' j' <-> raw_isomorphic c (ri_graph x) (ri_graph y)).
Proof. exact batch_any_order_raw. Qed.
Print Assumptions C13_batch_any_order_raw.
