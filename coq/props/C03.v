From Coq Require Import List NArith ZArith Bool.
From SK Require Import lib.Tok lib.LGraph model.C03_Model proof.C03_Proof.
Import ListNotations.
Local Open Scope Z_scope.

Theorem C03_node_left_is_host : forall hn pn : inode, iG (node_glue hn pn) = iG hn.
Proof. exact node_glue_left. Qed.
Print Assumptions C03_node_left_is_host.
