(** C03 — every reaction proposed by rule application is a genuine instance of the rule.
    Statements only; every proof is [exact <lemma of proof/C03_*.v>].

    Vocabulary (model/C03_Model.v unless said otherwise): [glue host rc m] = SynReactor._glue_graph on one match
    ([None] = no ITS is produced); [match_rcb host rc m] / [wf_hostb] / [wf_rcb] = the boolean hypotheses, all three
    evaluated by [run_c03] on every glued mapping of every correspondence case; [adj] = bond lookup (unordered pair);
    [bondG T a b] = reactant-side bond of an ITS ([None] when order_G = 0); [lift o] = (o, o, 0);
    [find_hit m es a b] = the template edge mapped by [m] onto the host pair {a, b}; [sumZ w T] = sum of [w] over the
    nodes of [T]; [dH] / [dQ] = product-minus-reactant hydrogen count / charge of one ITS node (proof/C03_Proof.v). *)
From Coq Require Import List NArith ZArith Bool.
From SK Require Import lib.Tok lib.LGraph model.C03_Model proof.C03_Proof.
Import ListNotations.
Local Open Scope Z_scope.

(** (a) the substrate, unchanged, is the reactant side of the glued ITS: same atoms, every reactant tuple is the
    host's tuple, the reactant-side bonds are exactly the host bonds *)
Theorem C03_left_is_host : forall (host : hostg) (rc : its) (m : mapping) (T : its),
  wf_hostb host = true -> wf_rcb rc = true -> match_rcb host rc m = true -> glue host rc m = Some T ->
  node_ids T = node_ids host /\
  (forall n : N, option_map iG (label T n) = label host n) /\
  (forall a b : N, bondG T a b = adj host a b).
Proof. exact left_is_host. Qed.
Print Assumptions C03_left_is_host.

(** (b) the glued ITS changes the total hydrogen count and the total charge by exactly what the template changes
    them, and never changes an element *)
Theorem C03_conserve_sums : forall (host : hostg) (rc : its) (m : mapping) (T : its),
  wf_hostb host = true -> wf_rcb rc = true -> match_rcb host rc m = true -> glue host rc m = Some T ->
  sumZ dH T = sumZ dH rc /\ sumZ dQ T = sumZ dQ rc /\
  (forall (n : N) (a : inode), label T n = Some a -> a_el (iH a) = a_el (iG a)).
Proof. exact conserve. Qed.
Print Assumptions C03_conserve_sums.

(** (c) no other bond of the substrate is altered *)
Theorem C03_unchanged_elsewhere : forall (host : hostg) (rc : its) (m : mapping) (T : its),
  wf_rcb rc = true -> match_rcb host rc m = true -> glue host rc m = Some T ->
  forall a b : N, find_hit m (gedges rc) a b = None -> adj T a b = option_map lift (adj host a b).
Proof. exact unchanged_elsewhere. Qed.
Print Assumptions C03_unchanged_elsewhere.

(** (c) every template edge has an image bond in the result whose order changes by the template's amount *)
Theorem C03_changes_image : forall (host : hostg) (rc : its) (m : mapping) (T : its),
  wf_rcb rc = true -> match_rcb host rc m = true -> glue host rc m = Some T ->
  forall (u v : N) (x : iedge), In (u, v, x) (gedges rc) ->
  exists (hu hv : N) (y : iedge),
    mget m u = Some hu /\ mget m v = Some hv /\ adj T hu hv = Some y /\ eH y - eG y = eH x - eG x.
Proof. exact changes_image. Qed.
Print Assumptions C03_changes_image.

(** (c) conversely every changed bond of the result is the image of a template edge, with the same change *)
Theorem C03_changes_only : forall (host : hostg) (rc : its) (m : mapping) (T : its),
  wf_rcb rc = true -> match_rcb host rc m = true -> glue host rc m = Some T ->
  forall (a b : N) (y : iedge), adj T a b = Some y -> eG y <> eH y ->
  exists (u v : N) (x : iedge),
    In (u, v, x) (gedges rc) /\ hits m (u, v, x) a b = true /\ eH y - eG y = eH x - eG x.
Proof. exact changes_only. Qed.
Print Assumptions C03_changes_only.

(** the additive branch exactly (after fb58253): a template edge that forms a bond over an existing host bond adds
    its order to the host's, and an ITS is produced only when the sum is an integral bond order (even in half-units) *)
Theorem C03_additive : forall (host : hostg) (rc : its) (m : mapping) (T : its),
  wf_rcb rc = true -> match_rcb host rc m = true -> glue host rc m = Some T ->
  forall (u v : N) (x : iedge) (hu hv : N) (o : Z),
  In (u, v, x) (gedges rc) -> eG x = 0 -> mget m u = Some hu -> mget m v = Some hv -> adj host hu hv = Some o ->
  adj T hu hv = Some (o, o + eH x, eS x) /\ Z.odd (o + eH x) = false.
Proof. exact additive. Qed.
Print Assumptions C03_additive.

(** standard_order stays order_G - order_H on every bond of the result *)
Theorem C03_std_consistent : forall (host : hostg) (rc : its) (m : mapping) (T : its),
  wf_rcb rc = true -> match_rcb host rc m = true -> glue host rc m = Some T ->
  (forall (u v : N) (x : iedge), In (u, v, x) (gedges rc) -> eS x = eG x - eH x) ->
  forall (a b : N) (y : iedge), adj T a b = Some y -> eS y = eG y - eH y.
Proof. exact std_consistent_glue. Qed.
Print Assumptions C03_std_consistent.
