(** C03 — every reaction proposed by rule application is a genuine instance of the rule.
    Statements only; every proof is [exact <lemma of proof/C03_*.v>].

    Vocabulary.  model/C03_Model.v: [glue host rc m] = SynReactor._glue_graph on one match ([None] = no ITS is
    produced); [its_decompose] = the reactant / product molecule graphs that _to_smarts serialises;
    [invert_template] = SynReactor._invert_template; [synrule] = SynRule.__init__; [explicit_h] = SynReactor._explicit_h;
    [match_rcb host rc m], [wf_hostb], [wf_rcb] = the boolean hypotheses (the match is an injective map of the rule's
    atoms onto host atoms with equal element and charge, enough hydrogens and equal reactant-side bond orders; node ids
    distinct, one entry per unordered atom pair, no loops, host orders > 0, rule orders >= 0) — all three are evaluated
    by [run_c03] on every glued mapping of every correspondence case; [adj] = bond lookup on an unordered pair;
    [peq a b u v] = {a,b} = {u,v}.  Orders are in half-units (1.0 = 2).
    proof/C03_Spec.v: [mol_of_host] (the substrate as a molecule graph), [lift o] = (o, o, 0) (an unchanged bond),
    [bondG] (reactant-side bond of an ITS), [dH] / [dQ] (product-minus-reactant hydrogen count / charge of an ITS
    node), [sumZ] (sum over nodes), [balancedb], [count_el], [total_hc], [total_charge], [elem_count] (atoms of an
    element plus, for hydrogen, the implicit hydrogens), [changed_bonds] / [image_changed_bonds] (clause (c) as sets),
    [edges_closedb], [default_rc], [same_core] / [keepn] / [keepe] (default-mode rule preparation), [new_edges] /
    [new_nodes] / [occurrences] / [pairs_okb] (_explicit_h). *)
From Coq Require Import List NArith ZArith Bool Permutation.
From SK Require Import lib.Tok lib.LGraph model.C03_Model proof.C03_Spec proof.C03_Proof proof.C03_Glue proof.C03_Backward
                       proof.C03_ExplicitH proof.C03_ExplicitShape proof.C03_ExplicitTotal proof.C03_Expand
                       proof.C03_Link proof.C03_Default proof.C03_Iso
                       proof.C03_Skeleton proof.C03_StripCounts
                       proof.C03_Wiring proof.C03_WiringCount proof.C03_PairIds proof.C03_StripExact proof.C03_StripCor
                       proof.C03_PairIdsComplete proof.C03_Wrap proof.C03_DefaultBalance
                       proof.C03_DefaultEnd proof.C03_DefaultWiring
                       model.C03_Order proof.C03_Ord proof.C03_FirstFit proof.C03_OrdEnd
                       model.C03_Reactor proof.C03_ReactorProof proof.C03_ReactorSpec proof.C03_Capstone proof.C03_LinkDefault proof.C03_LinkImplicit proof.C03_LinkBackward
                       proof.C03_NoCrash proof.C03_Total.
Import ListNotations.
Local Open Scope Z_scope.

(** ** (a) the substrate, unchanged, is the reactant side *)

(** the reactant molecule graph of the glued ITS has the substrate's atoms (same ids, same order, same element,
    aromaticity, hydrogen count, charge) and exactly the substrate's bonds *)
Theorem C03_left_is_host : forall (host : hostg) (rc : its) (m : mapping) (T : its),
  wf_hostb host = true -> wf_rcb rc = true -> match_rcb host rc m = true -> glue host rc m = Some T ->
  gnodes (fst (its_decompose T)) = gnodes (mol_of_host host) /\
  (forall a b : N, adj (fst (its_decompose T)) a b = adj host a b).
Proof. exact left_is_host_dec. Qed.
Print Assumptions C03_left_is_host.

(** the same on the ITS itself: every reactant tuple (including 'neighbors') is the host's tuple *)
Theorem C03_left_tuples : forall (host : hostg) (rc : its) (m : mapping) (T : its),
  wf_hostb host = true -> wf_rcb rc = true -> match_rcb host rc m = true -> glue host rc m = Some T ->
  node_ids T = node_ids host /\
  (forall n : N, option_map iG (label T n) = label host n) /\
  (forall a b : N, bondG T a b = adj host a b).
Proof. exact left_is_host. Qed.
Print Assumptions C03_left_tuples.

(** ** (b) conservation *)

(** a balanced rule yields a balanced reaction: every element count (hydrogen: explicit atoms + implicit counts)
    and the total charge agree on the two sides *)
Theorem C03_conserve : forall (host : hostg) (rc : its) (m : mapping) (T : its),
  wf_hostb host = true -> wf_rcb rc = true -> match_rcb host rc m = true -> glue host rc m = Some T ->
  balancedb rc = true ->
  (forall e : N, elem_count e (fst (its_decompose T)) = elem_count e (snd (its_decompose T))) /\
  total_charge (fst (its_decompose T)) = total_charge (snd (its_decompose T)).
Proof. exact conserve_balanced. Qed.
Print Assumptions C03_conserve.

(** in general: atoms never change element, and the reaction gains exactly the hydrogens / charge the rule gains *)
Theorem C03_imbalance_exact : forall (host : hostg) (rc : its) (m : mapping) (T : its),
  wf_hostb host = true -> wf_rcb rc = true -> match_rcb host rc m = true -> glue host rc m = Some T ->
  (forall e : N, count_el e (fst (its_decompose T)) = count_el e (snd (its_decompose T))) /\
  total_hc (snd (its_decompose T)) - total_hc (fst (its_decompose T)) = sumZ dH rc /\
  total_charge (snd (its_decompose T)) - total_charge (fst (its_decompose T)) = sumZ dQ rc.
Proof. exact conserve_counts. Qed.
Print Assumptions C03_imbalance_exact.

(** ** (c) the result differs from the substrate by exactly the template's changes *)

(** bonds: the match is injective; every template bond has an image bond whose order changes by the template's amount;
    every changed bond of the result is such an image (same amount); every other atom pair is bonded as in the host *)
Theorem C03_changes_exact : forall (host : hostg) (rc : its) (m : mapping) (T : its),
  wf_rcb rc = true -> match_rcb host rc m = true -> glue host rc m = Some T ->
  NoDup (map snd m) /\
  (forall (u v : N) (x : iedge), In (u, v, x) (gedges rc) ->
     exists (hu hv : N) (y : iedge),
       mget m u = Some hu /\ mget m v = Some hv /\ adj T hu hv = Some y /\ eH y - eG y = eH x - eG x) /\
  (forall (a b : N) (y : iedge), adj T a b = Some y -> eG y <> eH y ->
     exists (u v : N) (x : iedge) (hu hv : N),
       In (u, v, x) (gedges rc) /\ mget m u = Some hu /\ mget m v = Some hv /\ peq hu hv a b = true /\
       eH y - eG y = eH x - eG x) /\
  (forall a b : N,
     (forall (u v : N) (x : iedge) (hu hv : N),
        In (u, v, x) (gedges rc) -> mget m u = Some hu -> mget m v = Some hv -> peq hu hv a b = false) ->
     adj T a b = option_map lift (adj host a b)).
Proof. exact changes_exact. Qed.
Print Assumptions C03_changes_exact.

(** the same as ONE equation between finite sets (proof/C03_Spec.v: [changed_bonds], [image_changed_bonds]): the changed
    bonds of the result, each as (unordered atom pair, order change), are — up to order, without repetition — the
    images under the match of the rule's changed bonds.  With [C03_changed_atoms] (end atoms carry the rule atoms'
    element and hydrogen change) this is the isomorphism of labelled changed-bond graphs of clause (c). *)
Theorem C03_changed_bonds_iso : forall (host : hostg) (rc : its) (m : mapping) (T : its),
  wf_hostb host = true -> wf_rcb rc = true -> match_rcb host rc m = true -> glue host rc m = Some T ->
  Permutation (changed_bonds T) (image_changed_bonds m rc).
Proof. exact changed_bonds_perm. Qed.
Print Assumptions C03_changed_bonds_iso.

(** no other bond of the substrate is altered (the last clause on its own) *)
Theorem C03_unchanged_elsewhere : forall (host : hostg) (rc : its) (m : mapping) (T : its),
  wf_rcb rc = true -> match_rcb host rc m = true -> glue host rc m = Some T ->
  forall a b : N,
  (forall (u v : N) (x : iedge) (hu hv : N),
     In (u, v, x) (gedges rc) -> mget m u = Some hu -> mget m v = Some hv -> peq hu hv a b = false) ->
  adj T a b = option_map lift (adj host a b).
Proof. exact unchanged_elsewhere_explicit. Qed.
Print Assumptions C03_unchanged_elsewhere.

(** end atoms: a matched atom carries the template atom's element, its hydrogen-count change and its charges;
    an atom outside the match does not change at all *)
Theorem C03_changed_atoms : forall (host : hostg) (rc : its) (m : mapping) (T : its),
  wf_rcb rc = true -> match_rcb host rc m = true -> glue host rc m = Some T ->
  (forall (p : N) (pn : inode) (h : N), In (p, pn) (gnodes rc) -> mget m p = Some h ->
     exists a : inode, label T h = Some a /\ a_el (iG a) = a_el (iG pn) /\ a_el (iH a) = a_el (iG pn) /\ dH a = dH pn /\
                       a_ch (iG a) = a_ch (iG pn) /\ a_ch (iH a) = a_ch (iH pn)) /\
  (forall (h : N) (a : inode), ~ In h (map snd m) -> label T h = Some a -> iH a = iG a).
Proof. exact glued_atoms. Qed.
Print Assumptions C03_changed_atoms.

(** the additive branch exactly (after fb58253): a template edge that forms a bond over an existing host bond adds
    its order to the host's, and an ITS is produced only when the sum is an integral bond order (even in half-units) *)
Theorem C03_additive : forall (host : hostg) (rc : its) (m : mapping) (T : its),
  wf_rcb rc = true -> match_rcb host rc m = true -> glue host rc m = Some T ->
  forall (u v : N) (x : iedge) (hu hv : N) (o : Z),
  In (u, v, x) (gedges rc) -> eG x = 0 -> mget m u = Some hu -> mget m v = Some hv -> adj host hu hv = Some o ->
  adj T hu hv = Some (o, o + eH x, eS x) /\ Z.odd (o + eH x) = false.
Proof. exact additive. Qed.
Print Assumptions C03_additive.

(** ... and that is the ONLY way a valid match proposes no reaction *)
Theorem C03_additive_none_iff : forall (host : hostg) (rc : its) (m : mapping),
  wf_rcb rc = true -> match_rcb host rc m = true ->
  (glue host rc m = None <->
   exists (u v : N) (x : iedge) (hu hv : N) (o : Z),
     In (u, v, x) (gedges rc) /\ eG x = 0 /\ mget m u = Some hu /\ mget m v = Some hv /\
     adj host hu hv = Some o /\ Z.odd (o + eH x) = true).
Proof. exact glue_none_iff. Qed.
Print Assumptions C03_additive_none_iff.

(** standard_order stays order_G - order_H on every bond of the result *)
Theorem C03_std_consistent : forall (host : hostg) (rc : its) (m : mapping) (T : its),
  wf_rcb rc = true -> match_rcb host rc m = true -> glue host rc m = Some T ->
  (forall (u v : N) (x : iedge), In (u, v, x) (gedges rc) -> eS x = eG x - eH x) ->
  forall (a b : N) (y : iedge), adj T a b = Some y -> eS y = eG y - eH y.
Proof. exact std_consistent_glue. Qed.
Print Assumptions C03_std_consistent.

(** ** backward application *)

(** _invert_template swaps the sides of the template (literally), keeps it balanced and well-formed; gluing it on a
    substrate gives an ITS whose reactant side is the substrate (smarts_list then reverses the string: the substrate
    is the product side of the proposed reaction) and whose changed bonds are the images of the ORIGINAL template's
    bonds with the opposite order change *)
Theorem C03_backward : forall (host : hostg) (tpl : its) (m : mapping) (T : its),
  wf_hostb host = true -> wf_rcb tpl = true ->
  match_rcb host (invert_template tpl) m = true -> glue host (invert_template tpl) m = Some T ->
  its_decompose (invert_template tpl) = (snd (its_decompose tpl), fst (its_decompose tpl)) /\
  balancedb (invert_template tpl) = balancedb tpl /\
  (gnodes (fst (its_decompose T)) = gnodes (mol_of_host host) /\
   forall a b : N, adj (fst (its_decompose T)) a b = adj host a b) /\
  (forall (u v : N) (x : iedge), In (u, v, x) (gedges tpl) -> 0 < eG x \/ 0 < eH x ->
     exists (hu hv : N) (y : iedge),
       mget m u = Some hu /\ mget m v = Some hv /\ adj T hu hv = Some y /\ eH y - eG y = - (eH x - eG x)) /\
  (forall (a b : N) (y : iedge), adj T a b = Some y -> eG y <> eH y ->
     exists (u v : N) (x : iedge) (hu hv : N),
       In (u, v, x) (gedges tpl) /\ mget m u = Some hu /\ mget m v = Some hv /\ peq hu hv a b = true /\
       eH y - eG y = - (eH x - eG x)).
Proof. exact backward. Qed.
Print Assumptions C03_backward.

Theorem C03_backward_wf : forall tpl : its, wf_rcb tpl = true -> wf_rcb (invert_template tpl) = true.
Proof. exact invert_wf. Qed.
Print Assumptions C03_backward_wf.

(** ** which rule is glued: in implicit-template mode SynRule.__init__ hands the template itself (and its two
    sides) to the reactor, so the [rc] of the theorems above IS the (possibly inverted) template *)
Theorem C03_synrule_implicit : forall tpl : its, nodupb (node_ids tpl) = true ->
  synrule tpl false = Some (tpl, fst (its_decompose tpl), snd (its_decompose tpl)).
Proof. exact synrule_implicit. Qed.
Print Assumptions C03_synrule_implicit.

(** default mode (SynRule.__init__ with implicit_h=True), template WITHOUT explicit hydrogen atoms: nothing is
    stripped and the rule handed to the reactor is [default_rc tpl] — the template's bonds, elements, aromaticity,
    charges and neighbors with every hydrogen count set to 0 on both sides, so it changes no hydrogen count (hydrogen
    changes must be written with explicit H atoms in this mode).  For templates WITH explicit hydrogens the
    three-step _strip_explicit_h is modelled and compared on every case but not covered by a theorem. *)
Theorem C03_synrule_default_noH : forall tpl : its,
  nodupb (node_ids tpl) = true ->
  forallb (fun p => negb (N.eqb (a_el (iG (snd p))) EL_H) && negb (N.eqb (a_el (iH (snd p))) EL_H)) (gnodes tpl) = true ->
  exists (l r : molg), synrule tpl true = Some (default_rc tpl, l, r).
Proof. exact synrule_default_noH. Qed.
Print Assumptions C03_synrule_default_noH.

Theorem C03_default_rule_facts : forall tpl : its,
  gedges (default_rc tpl) = gedges tpl /\ node_ids (default_rc tpl) = node_ids tpl /\
  sumZ dH (default_rc tpl) = 0 /\ sumZ dQ (default_rc tpl) = sumZ dQ tpl /\
  (forall (k : N) (a : inode), In (k, a) (gnodes (default_rc tpl)) -> a_hc (iG a) = 0 /\ a_hc (iH a) = 0).
Proof. exact default_rc_facts. Qed.
Print Assumptions C03_default_rule_facts.

(** REFUTED for templates that write hydrogen changes implicitly and are used without implicit_temp=True: clause (c)'s
    "hydrogen-count changes of its end atoms" fails — the rule prepared in default mode has no hydrogen change at all
    ([C03_synrule_default_noH]), so a matched atom of the proposed ITS can differ from its template atom in hydrogen
    change although every hypothesis of the glue theorems holds and the template is balanced.  Witness: thioester
    formation [SH:2].[C:4][OH:6] >> [S:2][C:4].[OH2:6] on CH3SH . CH3COOH (known finding
    implicit-template-in-explicit-mode; the docstring asks for implicit_temp=True, the constructor does not enforce it;
    clauses (a), (b) still hold by the theorems above). *)
Theorem C03_default_mode_implicit_template_refuted :
  exists (tpl rc : its) (l r : molg) (host : hostg) (m : mapping) (T : its) (p h : N) (pn a : inode),
    balancedb tpl = true /\ synrule tpl true = Some (rc, l, r) /\
    wf_hostb host = true /\ wf_rcb rc = true /\ match_rcb host rc m = true /\ glue host rc m = Some T /\
    In (p, pn) (gnodes tpl) /\ mget m p = Some h /\ label T h = Some a /\ dH a <> dH pn.
Proof. exact default_mode_implicit_template_refuted. Qed.
Print Assumptions C03_default_mode_implicit_template_refuted.

(** default mode, ANY template (explicit hydrogens allowed) — PARTIAL.  Whatever the three steps of _strip_explicit_h
    decide, the rule handed to the reactor is the template with some explicit HYDROGEN atoms removed: the remaining
    atoms in the same order with the same element, aromaticity, charge and neighbors on both sides (only the hydrogen
    counts, hcount and h_pairs are rewritten) and exactly the template's bonds that touch no removed atom, unchanged.
    So every heavy atom, and every (changed or unchanged) bond between heavy atoms, of the rule is the template's.
    Missing for the full statement: WHICH hydrogens are removed and that the rewritten hydrogen counts / h_pairs
    account for exactly the removed ones (compared on every case by the correspondence: rc, left, right). *)
Theorem C03_synrule_default_skeleton : forall (tpl rc : its) (l r : molg),
  nodupb (node_ids tpl) = true -> synrule tpl true = Some (rc, l, r) ->
  exists removed : list N,
    (forall h : N, In h removed -> is_H_i tpl h = true) /\
    Forall2 same_core (gnodes rc) (filter (keepn removed) (gnodes tpl)) /\
    gedges rc = filter (keepe removed) (gedges tpl).
Proof. exact synrule_default_skeleton. Qed.
Print Assumptions C03_synrule_default_skeleton.

(** default mode, any template: the hydrogen counts.  Each side graph of the prepared rule (left = the pattern that is
    matched, right) is the corresponding side of the template with the atoms of some list R removed: kept atoms in the
    same order with the same element, aromaticity and charge, the bonds that avoid R, and the hcount of every
    non-hydrogen kept atom = the number of bonds of that side that joined it to the removed atoms (every count starts
    at 0 in this mode); the rule graph's two hydrogen counts are exactly the two sides' hcounts.  I.e. a rule atom's
    hydrogen count on a side is the number of stripped explicit hydrogens bonded to it on that side.
    (Which atoms are removed — the three-step decision procedure — and h_pairs: correspondence only.) *)
Theorem C03_synrule_default_counts : forall (tpl rc : its) (l r : molg),
  nodupb (node_ids tpl) = true -> synrule tpl true = Some (rc, l, r) ->
  exists Rl Rr : list N,
    (Forall2 (mrel (sum_cnt (gedges (fst (its_decompose (standardize_hydrogen tpl)))) Rl)) (gnodes l)
             (filter (mkeepn Rl) (gnodes (init_m (fst (its_decompose (standardize_hydrogen tpl)))))) /\
     gedges l = filter (mkeepe Rl) (gedges (fst (its_decompose (standardize_hydrogen tpl))))) /\
    (Forall2 (mrel (sum_cnt (gedges (snd (its_decompose (standardize_hydrogen tpl)))) Rr)) (gnodes r)
             (filter (mkeepn Rr) (gnodes (init_m (snd (its_decompose (standardize_hydrogen tpl)))))) /\
     gedges r = filter (mkeepe Rr) (gedges (snd (its_decompose (standardize_hydrogen tpl))))) /\
    (forall (k : N) (a : inode), In (k, a) (gnodes rc) ->
       exists (la ra : mnode), label l k = Some la /\ label r k = Some ra /\ a_hc (iG a) = m_hc la /\ a_hc (iH a) = m_hc ra).
Proof. exact synrule_default_counts. Qed.
Print Assumptions C03_synrule_default_counts.

(** default mode, templates whose atoms have the same element on both sides (every ITS built from a reaction): the rule
    EXACTLY.  The removed atoms R are precisely the explicit hydrogens that have a non-hydrogen neighbour on the left AND
    on the right side (all removed in step 2, from all three graphs; step 3 removes nothing); the rule graph is the
    template without them (same_core, bonds avoiding R); each side graph is the template's side without them, a kept
    heavy atom's hcount = number of its bonds to R on that side; the rule graph's hydrogen counts are the sides'. *)
Theorem C03_synrule_default_exact : forall (tpl rc : its) (l r : molg),
  nodupb (node_ids tpl) = true -> (forall (k : N) (a : inode), In (k, a) (gnodes tpl) -> a_el (iH a) = a_el (iG a)) ->
  synrule tpl true = Some (rc, l, r) ->
  exists R : list N,
    (forall h : N, In h R <-> is_H_i tpl h = true /\ heavy_nbr (side0 iG eG tpl) h = true /\ heavy_nbr (side0 iH eH tpl) h = true) /\
    (Forall2 same_core (gnodes rc) (filter (keepn R) (gnodes tpl)) /\ gedges rc = filter (keepe R) (gedges tpl)) /\
    (Forall2 (mrel (sum_cnt (gedges (side0 iG eG tpl)) R)) (gnodes l) (filter (mkeepn R) (gnodes (side0 iG eG tpl))) /\
     gedges l = filter (mkeepe R) (gedges (side0 iG eG tpl))) /\
    (Forall2 (mrel (sum_cnt (gedges (side0 iH eH tpl)) R)) (gnodes r) (filter (mkeepn R) (gnodes (side0 iH eH tpl))) /\
     gedges r = filter (mkeepe R) (gedges (side0 iH eH tpl))) /\
    (forall (k : N) (a : inode), In (k, a) (gnodes rc) ->
       exists (la ra : mnode), label l k = Some la /\ label r k = Some ra /\ a_hc (iG a) = m_hc la /\ a_hc (iH a) = m_hc ra).
Proof. exact synrule_default_exact. Qed.
Print Assumptions C03_synrule_default_exact.

(** the same, in the forms other properties use.  Totality: on such a template rule preparation never fails. *)
Theorem C03_synrule_default_total : forall tpl : its,
  nodupb (node_ids tpl) = true -> (forall (k : N) (a : inode), In (k, a) (gnodes tpl) -> a_el (iH a) = a_el (iG a)) ->
  exists (rc : its) (l r : molg), synrule tpl true = Some (rc, l, r).
Proof. exact synrule_default_total. Qed.
Print Assumptions C03_synrule_default_total.

(** atom by atom: the rule's atoms are the template's atoms outside R, in the template's order, on all three graphs; a
    kept atom keeps both tuples up to the hydrogen count, and its two hydrogen counts are the numbers of its left / right
    bonds to the removed hydrogens (0 for a kept hydrogen atom); if every hydrogen atom of the template is removed the
    left graph has no explicit hydrogen left and is itself the pattern that is matched *)
Theorem C03_synrule_default_pointwise : forall (tpl rc : its) (l r : molg),
  nodupb (node_ids tpl) = true -> (forall (k : N) (a : inode), In (k, a) (gnodes tpl) -> a_el (iH a) = a_el (iG a)) ->
  synrule tpl true = Some (rc, l, r) ->
  exists R : list N,
    NoDup R /\
    (forall h : N, In h R <-> is_H_i tpl h = true /\ heavy_nbr (side0 iG eG tpl) h = true /\ heavy_nbr (side0 iH eH tpl) h = true) /\
    node_ids rc = filter (fun n => negb (mem n R)) (node_ids tpl) /\ node_ids l = node_ids rc /\ node_ids r = node_ids rc /\
    NoDup (node_ids rc) /\ gedges rc = filter (keepe R) (gedges tpl) /\
    (forall (k : N) (a0 : inode), label tpl k = Some a0 -> ~ In k R ->
       exists a : inode, label rc k = Some a /\ set_hc (iG a) 0 = set_hc (iG a0) 0 /\ set_hc (iH a) 0 = set_hc (iH a0) 0 /\
                 a_hc (iG a) = (if N.eqb (a_el (iG a0)) EL_H then 0 else sum_cnt (gedges (side0 iG eG tpl)) R k) /\
                 a_hc (iH a) = (if N.eqb (a_el (iG a0)) EL_H then 0 else sum_cnt (gedges (side0 iH eH tpl)) R k)) /\
    ((forall h : N, is_H_i tpl h = true -> In h R) -> has_XH l = false /\ h_to_implicit l = l).
Proof. exact synrule_default_pointwise. Qed.
Print Assumptions C03_synrule_default_pointwise.

(** the counts as sums of adjacency indicators of the template (one bond per atom pair) *)
Theorem C03_sum_cnt_adjacent : forall (sn : inode -> nattr) (se : iedge -> Z) (tpl : its) (R : list N) (k : N),
  simple_edgesb (gedges tpl) = true ->
  sum_cnt (gedges (side0 sn se tpl)) R k
  = Z.of_nat (length (filter (fun h => match adj tpl k h with Some x => 0 <? se x | None => false end) R)).
Proof. exact sum_cnt_adjacent. Qed.
Print Assumptions C03_sum_cnt_adjacent.

(** clause (b) in the default mode, from the template: the total hydrogen change of the prepared rule is the number of
    right-side bonds minus the number of left-side bonds between the removed hydrogens R and the kept non-hydrogen
    atoms K; it is 0 — and then, by [C03_conserve] / [C03_explicit_path], every proposed reaction conserves hydrogen —
    as soon as every removed hydrogen has as many such bonds on the right as on the left (one and one in ordinary
    templates) *)
Theorem C03_default_rule_dH : forall (tpl rc : its) (l r : molg),
  nodupb (node_ids tpl) = true -> (forall (k : N) (a : inode), In (k, a) (gnodes tpl) -> a_el (iH a) = a_el (iG a)) ->
  simple_edgesb (gedges tpl) = true -> synrule tpl true = Some (rc, l, r) ->
  exists R K : list N,
    NoDup R /\ NoDup K /\
    (forall h : N, In h R <-> is_H_i tpl h = true /\ heavy_nbr (side0 iG eG tpl) h = true /\ heavy_nbr (side0 iH eH tpl) h = true) /\
    (forall k : N, In k K <-> In k (node_ids tpl) /\ is_H_i tpl k = false) /\
    sumZ dH rc = fold_right (fun h acc => (countZ (fun k => bonded eH tpl k h) K - countZ (fun k => bonded eG tpl k h) K) + acc) 0 R.
Proof. exact default_rule_dH. Qed.
Print Assumptions C03_default_rule_dH.

Theorem C03_default_rule_H_balanced : forall (tpl rc : its) (l r : molg),
  nodupb (node_ids tpl) = true -> (forall (k : N) (a : inode), In (k, a) (gnodes tpl) -> a_el (iH a) = a_el (iG a)) ->
  simple_edgesb (gedges tpl) = true -> synrule tpl true = Some (rc, l, r) ->
  exists R K : list N,
    NoDup R /\ NoDup K /\
    (forall h : N, In h R <-> is_H_i tpl h = true /\ heavy_nbr (side0 iG eG tpl) h = true /\ heavy_nbr (side0 iH eH tpl) h = true) /\
    (forall k : N, In k K <-> In k (node_ids tpl) /\ is_H_i tpl k = false) /\
    ((forall h : N, In h R -> countZ (fun k => bonded eH tpl k h) K = countZ (fun k => bonded eG tpl k h) K) -> sumZ dH rc = 0).
Proof. exact default_rule_H_balanced. Qed.
Print Assumptions C03_default_rule_H_balanced.

(** ... the charge change of the prepared rule is the template's over the kept atoms ... *)
Theorem C03_default_rule_dQ : forall (tpl rc : its) (l r : molg),
  nodupb (node_ids tpl) = true -> (forall (k : N) (a : inode), In (k, a) (gnodes tpl) -> a_el (iH a) = a_el (iG a)) ->
  synrule tpl true = Some (rc, l, r) ->
  exists R : list N,
    (forall h : N, In h R <-> is_H_i tpl h = true /\ heavy_nbr (side0 iG eG tpl) h = true /\ heavy_nbr (side0 iH eH tpl) h = true) /\
    sumZ dQ rc = sumL dQ (filter (keepn R) (gnodes tpl)).
Proof. exact default_rule_dQ. Qed.
Print Assumptions C03_default_rule_dQ.

(** ... so clause (b) END TO END in the default mode, from a condition on the TEMPLATE alone ([tpl_condition],
    proof/C03_Spec.v: every removed hydrogen keeps its number of bonds to the kept heavy atoms, the kept atoms keep the
    total charge): every reaction proposed through glue + _explicit_h (direct route) or expand + glue + _explicit_h
    conserves every element count including hydrogen and the charge, and has the substrate's composition and bonds *)
Theorem C03_default_end_to_end_direct : forall (tpl rc : its) (l r : molg) (host : hostg) (m : mapping) (T T' : its) (ms : list (N * N)),
  nodupb (node_ids tpl) = true -> (forall (k : N) (a : inode), In (k, a) (gnodes tpl) -> a_el (iH a) = a_el (iG a)) ->
  simple_edgesb (gedges tpl) = true -> synrule tpl true = Some (rc, l, r) -> tpl_condition tpl ->
  wf_hostb host = true -> wf_rcb rc = true -> match_rcb host rc m = true -> glue host rc m = Some T ->
  explicit_h T = Some (T', ms) ->
  (forall e : N, elem_count e (fst (its_decompose T')) = elem_count e (snd (its_decompose T'))) /\
  total_charge (fst (its_decompose T')) = total_charge (snd (its_decompose T')) /\
  (forall e : N, elem_count e (fst (its_decompose T')) = elem_count e (mol_of_host host)) /\
  (forall a b : N, In a (node_ids host) -> In b (node_ids host) -> bondG T' a b = adj host a b).
Proof. exact default_end_to_end_direct. Qed.
Print Assumptions C03_default_end_to_end_direct.

Theorem C03_default_end_to_end_expanded : forall (tpl rc : its) (l r : molg) (host : hostg) (nodes : list N) (m : mapping) (T T' : its) (ms : list (N * N)),
  nodupb (node_ids tpl) = true -> (forall (k : N) (a : inode), In (k, a) (gnodes tpl) -> a_el (iH a) = a_el (iG a)) ->
  simple_edgesb (gedges tpl) = true -> synrule tpl true = Some (rc, l, r) -> tpl_condition tpl ->
  wf_hostb host = true -> wf_hostb (h_to_explicit host nodes) = true -> wf_rcb rc = true ->
  match_rcb (h_to_explicit host nodes) rc m = true -> glue (h_to_explicit host nodes) rc m = Some T ->
  explicit_h T = Some (T', ms) ->
  (forall e : N, elem_count e (fst (its_decompose T')) = elem_count e (snd (its_decompose T'))) /\
  total_charge (fst (its_decompose T')) = total_charge (snd (its_decompose T')) /\
  (forall e : N, elem_count e (fst (its_decompose T')) = elem_count e (mol_of_host host)) /\
  (forall a b : N, In a (node_ids host) -> In b (node_ids host) -> bondG T' a b = adj host a b).
Proof. exact default_end_to_end_expanded. Qed.
Print Assumptions C03_default_end_to_end_expanded.

(** ... and therefore, in default mode, the changed bonds of every proposed ITS (before _explicit_h re-materialises the
    migrating hydrogens) are exactly the images of the template's changed bonds that touch no stripped hydrogen *)
Theorem C03_default_changed_bonds : forall (tpl rc : its) (l r : molg) (host : hostg) (m : mapping) (T : its),
  nodupb (node_ids tpl) = true -> synrule tpl true = Some (rc, l, r) ->
  wf_hostb host = true -> wf_rcb rc = true -> match_rcb host rc m = true -> glue host rc m = Some T ->
  exists removed : list N,
    (forall h : N, In h removed -> is_H_i tpl h = true) /\
    Permutation (changed_bonds T) (flat_map (image_key m) (filter is_changed (filter (keepe removed) (gedges tpl)))).
Proof. exact default_changed_bonds. Qed.
Print Assumptions C03_default_changed_bonds.

(** ** the explicit-hydrogen stage (_explicit_h after gluing) — PARTIAL

    Full statement wanted: (a)-(c) for the graph returned by _explicit_h on the hydrogen-expanded substrate, i.e.
    additionally (i) every re-match produced by _get_explicit_map is again a valid match ([match_rcb]) of the explicit
    pattern on the expanded host — this is VF2 output, checked per case by the correspondence ([match_okb] on every
    re-match), not proved; (ii) the new H atoms realise exactly the template's explicit hydrogens (pairing donors and
    recipients inside one h_pairs component is first-fit, and which H atom of the template each one stands for is
    not tracked by the code).  Proved here: the hydrogen / element / charge bookkeeping of _explicit_h for ANY input
    graph with distinct node ids: donors and recipients are atoms of the graph; both sides keep every element count
    (hydrogen = explicit atoms + implicit counts) and the total charge; no bond between two old atoms is touched; every
    old atom keeps both tuples up to the hydrogen count, its hcount attribute and its h_pairs; exactly one atom is
    added per migration. *)
Theorem C03_explicitH_partial : forall (T T' : its) (ms : list (N * N)),
  NoDup (node_ids T) -> explicit_h T = Some (T', ms) ->
  (forall sd : N * N, In sd ms -> has_node T (fst sd) = true /\ has_node T (snd sd) = true) /\
  (forall e : N, elem_count e (fst (its_decompose T')) = elem_count e (fst (its_decompose T)) /\
                 elem_count e (snd (its_decompose T')) = elem_count e (snd (its_decompose T))) /\
  (total_charge (fst (its_decompose T')) = total_charge (fst (its_decompose T)) /\
   total_charge (snd (its_decompose T')) = total_charge (snd (its_decompose T))) /\
  (forall a b : N, In a (node_ids T) -> In b (node_ids T) -> adj T' a b = adj T a b) /\
  (forall (n : N) (a : inode), label T n = Some a ->
     exists a' : inode, label T' n = Some a' /\
       set_hc (iG a') 0 = set_hc (iG a) 0 /\ set_hc (iH a') 0 = set_hc (iH a) 0 /\ i_hc a' = i_hc a /\ i_hp a' = i_hp a) /\
  length (gnodes T') = (length (gnodes T) + length ms)%nat.
Proof. exact explicit_h_accounting. Qed.
Print Assumptions C03_explicitH_partial.

(** the exact shape of what _explicit_h returns, given its list of migrations [ms] (proof/C03_Spec.v: [new_edges],
    [new_nodes], [occurrences]): the old edge list followed by one donor-H bond (1,0) and one H-recipient bond (0,1) per
    migration; the old atoms followed by the new H atoms (fresh ids max+1, max+2, ...), each labelled as a plain H; every
    old atom's reactant-side / product-side hydrogen count lowered by the number of times it donates / receives *)
Theorem C03_explicitH_shape : forall (T T' : its) (ms : list (N * N)),
  NoDup (node_ids T) -> explicit_h T = Some (T', ms) ->
  gedges T' = gedges T ++ new_edges (N.succ (max_id T)) ms /\
  node_ids T' = node_ids T ++ map fst (new_nodes (N.succ (max_id T)) ms) /\
  (forall (k : N) (a : inode), In (k, a) (new_nodes (N.succ (max_id T)) ms) -> label T' k = Some H_inode) /\
  (forall (n : N) (a : inode), label T n = Some a ->
     exists a' : inode, label T' n = Some a' /\
       a_hc (iG a') = a_hc (iG a) - occurrences n (map fst ms) /\
       a_hc (iH a') = a_hc (iH a) - occurrences n (map snd ms)).
Proof. exact explicit_h_shape. Qed.
Print Assumptions C03_explicitH_shape.

(** when _explicit_h raises (the model's [None]; the oracle's clause explicit-h-crash; it aborts the whole its_list):
    exactly when some connected component of the h_pairs relation has more hydrogens to give (atoms whose reactant
    count exceeds the product count) than to take ([pairs_okb], proof/C03_Spec.v) *)
Theorem C03_explicitH_crash_iff : forall T : its, explicit_h T = None <-> pairs_okb T = false.
Proof. exact explicit_h_crash_iff. Qed.
Print Assumptions C03_explicitH_crash_iff.

(** the WIRING of _explicit_h (proof/C03_Spec.v: [share_pair] = two atoms carry a common h_pairs id; [same_group] = its
    reflexive-transitive closure; [dl_of T n] = reactant-minus-product hydrogen count of atom n): the new bonds are one
    (donor, H) bond (1,0) and one (H, recipient) bond (0,1) per migration, and for EVERY migration the donor has a
    hydrogen surplus, the recipient a deficit, and the two are in the SAME hydrogen-transfer group — never two atoms
    that are not connected through shared pair ids, whatever the order of the atoms in the graph *)
Theorem C03_explicitH_wiring : forall (T T' : its) (ms : list (N * N)),
  NoDup (node_ids T) -> explicit_h T = Some (T', ms) ->
  gedges T' = gedges T ++ new_edges (N.succ (max_id T)) ms /\
  forall sd : N * N, In sd ms ->
    same_group T (fst sd) (snd sd) /\ 0 < dl_of T (fst sd) /\ dl_of T (snd sd) < 0.
Proof. exact explicit_h_wiring. Qed.
Print Assumptions C03_explicitH_wiring.

(** how often each atom is used ([grouped T x] = x belongs to one of the components the pairing works on): a grouped
    atom donates exactly its surplus, receives at most its deficit; an atom outside every group is never used *)
Theorem C03_explicitH_usage : forall (T T' : its) (ms : list (N * N)),
  explicit_h T = Some (T', ms) ->
  forall x : N,
    occurrences x (map fst ms) = (if grouped T x then Z.max 0 (dl_of T x) else 0) /\
    0 <= occurrences x (map snd ms) <= (if grouped T x then Z.max 0 (- dl_of T x) else 0).
Proof. exact explicit_h_usage. Qed.
Print Assumptions C03_explicitH_usage.

(** ... and receives EXACTLY its deficit when every group is exact (as many hydrogens to give as to take) *)
Theorem C03_explicitH_usage_exact : forall (T T' : its) (ms : list (N * N)),
  explicit_h T = Some (T', ms) -> pairs_exactb T = true ->
  forall x : N, occurrences x (map snd ms) = (if grouped T x then Z.max 0 (- dl_of T x) else 0).
Proof. exact explicit_h_usage_exact. Qed.
Print Assumptions C03_explicitH_usage_exact.

(** the grouped atoms are exactly the atoms that carry a pair id *)
Theorem C03_explicitH_grouped_iff : forall (T : its) (x : N),
  grouped T x = true <-> exists (A : inode) (pid : N), In (x, A) (gnodes T) /\ In pid (hp_of A).
Proof. exact grouped_iff. Qed.
Print Assumptions C03_explicitH_grouped_iff.

(** where the pair ids come from and where they go — the link between the groups of [C03_explicitH_wiring] and the
    TEMPLATE's own hydrogen transfers.  Default-mode rule preparation (template without h_pairs of its own): two rule
    atoms share a pair id only if both were bonded to ONE explicit hydrogen atom of the template; gluing copies the
    rule's pair ids onto the matched atoms and nothing else; hence two atoms of a proposed ITS share a pair id only if
    they are the images of two template atoms bonded to one template hydrogen.  (Converse: [C03_default_pair_ids_complete].) *)
Theorem C03_default_pair_ids : forall (tpl rc : its) (l r : molg),
  nodupb (node_ids tpl) = true -> (forall (k : N) (a : inode), In (k, a) (gnodes tpl) -> i_hp a = None) ->
  synrule tpl true = Some (rc, l, r) ->
  forall (x y : N) (A B : inode) (p : N),
    In (x, A) (gnodes rc) -> In (y, B) (gnodes rc) -> In p (hp_of A) -> In p (hp_of B) ->
    exists h : N, is_H_i tpl h = true /\ In x (nbrs tpl h) /\ In y (nbrs tpl h).
Proof. exact synrule_default_pairs. Qed.
Print Assumptions C03_default_pair_ids.

(** ... and conversely (templates with the same element on both sides of every atom): every removed hydrogen has a
    pair id, and EVERY non-hydrogen atom bonded to it in the template — on either side — carries that id in the rule.
    So a donor and a recipient of one template hydrogen always land in one group of [C03_explicitH_wiring]. *)
Theorem C03_default_pair_ids_complete : forall (tpl rc : its) (l r : molg),
  nodupb (node_ids tpl) = true -> (forall (k : N) (a : inode), In (k, a) (gnodes tpl) -> a_el (iH a) = a_el (iG a)) ->
  synrule tpl true = Some (rc, l, r) ->
  forall h : N, is_H_i tpl h = true -> heavy_nbr (side0 iG eG tpl) h = true -> heavy_nbr (side0 iH eH tpl) h = true ->
  exists p : N, forall x : N, In x (nbrs tpl h) -> is_H_i tpl x = false -> has_node tpl x = true ->
                exists A : inode, label rc x = Some A /\ In p (hp_of A).
Proof. exact synrule_default_pairs_complete. Qed.
Print Assumptions C03_default_pair_ids_complete.

Theorem C03_glue_pair_ids : forall (host : hostg) (rc : its) (m : mapping) (T : its) (a b : N),
  wf_hostb host = true -> wf_rcb rc = true -> match_rcb host rc m = true -> glue host rc m = Some T ->
  share_pair T a b ->
  exists (x y : N) (X Y : inode) (p : N),
    mget m x = Some a /\ mget m y = Some b /\ In (x, X) (gnodes rc) /\ In (y, Y) (gnodes rc) /\
    In p (hp_of X) /\ In p (hp_of Y).
Proof. exact glue_share_pair. Qed.
Print Assumptions C03_glue_pair_ids.

Theorem C03_default_wiring_template : forall (tpl rc : its) (l r : molg) (host : hostg) (m : mapping) (T : its) (a b : N),
  nodupb (node_ids tpl) = true -> (forall (k : N) (n : inode), In (k, n) (gnodes tpl) -> i_hp n = None) ->
  synrule tpl true = Some (rc, l, r) ->
  wf_hostb host = true -> wf_rcb rc = true -> match_rcb host rc m = true -> glue host rc m = Some T ->
  share_pair T a b ->
  exists (x y h : N), mget m x = Some a /\ mget m y = Some b /\ is_H_i tpl h = true /\ In x (nbrs tpl h) /\ In y (nbrs tpl h).
Proof. exact default_share_pair_template. Qed.
Print Assumptions C03_default_wiring_template.

(** clause (c) for the hydrogens END TO END in the default mode ([tpl_group], proof/C03_Spec.v: closure of "bonded to one
    explicit hydrogen of the template"): every (donor, recipient) pair wired by _explicit_h is the image under the match
    of two TEMPLATE atoms of one hydrogen-transfer group of the template, the donor with a hydrogen surplus, the recipient
    with a deficit.  (A literal isomorphism with the template's H atoms does not hold in general — first fit may choose
    another partner inside the group — which is why the statement, like the oracle clause its-c-wiring, is about groups.) *)
Theorem C03_default_migrations_in_template_groups :
  forall (tpl rc : its) (l r : molg) (host : hostg) (m : mapping) (T : its),
  nodupb (node_ids tpl) = true -> (forall (k : N) (n : inode), In (k, n) (gnodes tpl) -> i_hp n = None) ->
  synrule tpl true = Some (rc, l, r) ->
  wf_hostb host = true -> wf_rcb rc = true -> match_rcb host rc m = true -> glue host rc m = Some T ->
  forall (T' : its) (ms : list (N * N)), explicit_h T = Some (T', ms) ->
  forall sd : N * N, In sd ms ->
    exists x y : N, mget m x = Some (fst sd) /\ mget m y = Some (snd sd) /\ tpl_group tpl x y /\
                    0 < dl_of T (fst sd) /\ dl_of T (snd sd) < 0.
Proof. exact default_migrations_in_template_groups. Qed.
Print Assumptions C03_default_migrations_in_template_groups.

(** gluing followed by _explicit_h: a balanced rule still yields a balanced reaction whose reactant side has the
    substrate's element counts and, between substrate atoms, exactly the substrate's bonds *)
Theorem C03_explicitH_conserve : forall (host : hostg) (rc : its) (m : mapping) (T T' : its) (ms : list (N * N)),
  wf_hostb host = true -> wf_rcb rc = true -> match_rcb host rc m = true -> glue host rc m = Some T ->
  balancedb rc = true -> explicit_h T = Some (T', ms) ->
  (forall e : N, elem_count e (fst (its_decompose T')) = elem_count e (snd (its_decompose T'))) /\
  total_charge (fst (its_decompose T')) = total_charge (snd (its_decompose T')) /\
  (forall e : N, elem_count e (fst (its_decompose T')) = elem_count e (mol_of_host host)) /\
  (forall a b : N, In a (node_ids host) -> In b (node_ids host) -> bondG T' a b = adj host a b).
Proof. exact explicit_h_conserve. Qed.
Print Assumptions C03_explicitH_conserve.

(** the explicit path starts from the hydrogen-expanded substrate (h_to_explicit on the atoms of the kept match): the
    expansion only re-writes implicit hydrogens as explicit H atoms *)
Theorem C03_expand_host : forall (g : hostg) (nodes : list N), NoDup (node_ids g) ->
  (forall e : N, elem_count e (mol_of_host (h_to_explicit g nodes)) = elem_count e (mol_of_host g)) /\
  total_charge (mol_of_host (h_to_explicit g nodes)) = total_charge (mol_of_host g) /\
  (forall a b : N, In a (node_ids g) -> In b (node_ids g) -> adj (h_to_explicit g nodes) a b = adj g a b) /\
  (forall (n : N) (a : nattr), label g n = Some a ->
     exists a' : nattr, label (h_to_explicit g nodes) n = Some a' /\ set_hc a' 0 = set_hc a 0) /\
  NoDup (node_ids (h_to_explicit g nodes)).
Proof. exact h_to_explicit_accounting. Qed.
Print Assumptions C03_expand_host.

(** the explicit path composed (expand, glue along a re-match, _explicit_h): the reactant side of the result has the
    substrate's element counts and charge and, between substrate atoms, exactly the substrate's bonds; a balanced
    rule gives a balanced reaction.  ([match_rcb] of the re-match on the expanded host is the premise that stands for
    _get_explicit_map / VF2; it is evaluated by the correspondence on every re-match.) *)
Theorem C03_explicit_path : forall (host : hostg) (nodes : list N) (rc : its) (m : mapping) (T T' : its) (ms : list (N * N)),
  wf_hostb host = true -> wf_hostb (h_to_explicit host nodes) = true -> wf_rcb rc = true ->
  match_rcb (h_to_explicit host nodes) rc m = true -> glue (h_to_explicit host nodes) rc m = Some T ->
  explicit_h T = Some (T', ms) ->
  (forall e : N, elem_count e (fst (its_decompose T')) = elem_count e (mol_of_host host)) /\
  total_charge (fst (its_decompose T')) = total_charge (mol_of_host host) /\
  (forall a b : N, In a (node_ids host) -> In b (node_ids host) -> bondG T' a b = adj host a b) /\
  (balancedb rc = true ->
     (forall e : N, elem_count e (fst (its_decompose T')) = elem_count e (snd (its_decompose T'))) /\
     total_charge (fst (its_decompose T')) = total_charge (snd (its_decompose T'))).
Proof. exact explicit_path. Qed.
Print Assumptions C03_explicit_path.

(** ** a template handed over as a SynRule OBJECT (SynReactor._wrap_template, after /repo cc40c07): forward the rule is
    used as it is; backward the prepared rule graph is inverted and not prepared a second time — the rule that is glued
    is the prepared rule with its two sides swapped, so [C03_backward] applies with the prepared rule graph as [tpl] *)
Theorem C03_wrap_rule : forall (implicit_temp : bool) (rc : its) (l r : molg),
  wrap_template_rule false implicit_temp (rc, l, r) = Some (rc, l, r) /\
  (nodupb (node_ids rc) = true ->
   wrap_template_rule true implicit_temp (rc, l, r)
   = Some (invert_template rc, snd (its_decompose rc), fst (its_decompose rc))).
Proof. exact wrap_rule_spec. Qed.
Print Assumptions C03_wrap_rule.

(** ** where the hypothesis comes from: a mapping accepted by the matcher's node / edge predicates on the rule's
    reactant side ([match_okb]: the contract of SubgraphSearchEngine, see C06) is a valid match of the rule, provided
    every bond of the rule joins two atoms of the rule *)
Theorem C03_match_link : forall (host : hostg) (rc : its) (m : mapping),
  edges_closedb rc = true -> match_okb host (fst (its_decompose rc)) m = true -> match_rcb host rc m = true.
Proof. exact match_okb_rcb. Qed.
Print Assumptions C03_match_link.

(** ** round 5: _explicit_h for EVERY visiting order of a hydrogen-transfer group (model/C03_Order.v).
    The code walks the atoms of one group in the order of a Python SET (CPython's hash-table order: {1, 8, 2, 9} is visited
    8, 1, 2, 9), not in sorted order as [explicit_h] does; with two donors and two recipients in one group the partners
    differ (proof/C03_OrdEnd.v, ex_ord_changes_wiring).  [explicit_h_ord ord] takes the visiting order as a parameter;
    the correspondence runs it with [ord_of tbl] (the orders recorded from the implementation, each used only for a
    component with exactly its atoms, sorted order otherwise).  Everything above about [explicit_h] holds for every [ord]
    that returns a duplicate-free rearrangement of its argument. *)

(** [explicit_h] is the instance "sorted order" *)
Theorem C03_explicitH_ord_sorted : forall T : its, explicit_h_ord sort_N T = explicit_h T.
Proof. exact explicit_h_ord_sort. Qed.
Print Assumptions C03_explicitH_ord_sorted.

(** the order function of the correspondence is such a rearrangement, whatever the table *)
Theorem C03_ord_of_rearranges : forall (tbl : list (list N)) (l : list N),
  (forall x : N, In x (ord_of tbl l) <-> In x l) /\ (NoDup l -> NoDup (ord_of tbl l)).
Proof. intros tbl l. split; [intros x; apply ord_of_in|apply ord_of_nodup]. Qed.
Print Assumptions C03_ord_of_rearranges.

(** accounting and shape (the statements of C03_explicitH_partial and C03_explicitH_shape) for every order *)
Theorem C03_explicitH_ord_partial : forall (ord : list N -> list N),
  (forall (l : list N) (x : N), In x (ord l) <-> In x l) ->
  forall (T T' : its) (ms : list (N * N)),
  NoDup (node_ids T) -> explicit_h_ord ord T = Some (T', ms) ->
  (forall sd : N * N, In sd ms -> has_node T (fst sd) = true /\ has_node T (snd sd) = true) /\
  (forall e : N, elem_count e (fst (its_decompose T')) = elem_count e (fst (its_decompose T)) /\
                 elem_count e (snd (its_decompose T')) = elem_count e (snd (its_decompose T))) /\
  (total_charge (fst (its_decompose T')) = total_charge (fst (its_decompose T)) /\
   total_charge (snd (its_decompose T')) = total_charge (snd (its_decompose T))) /\
  (forall a b : N, In a (node_ids T) -> In b (node_ids T) -> adj T' a b = adj T a b) /\
  (forall (n : N) (a : inode), label T n = Some a ->
     exists a' : inode, label T' n = Some a' /\
       set_hc (iG a') 0 = set_hc (iG a) 0 /\ set_hc (iH a') 0 = set_hc (iH a) 0 /\ i_hc a' = i_hc a /\ i_hp a' = i_hp a) /\
  length (gnodes T') = (length (gnodes T) + length ms)%nat.
Proof. exact explicit_h_ord_accounting. Qed.
Print Assumptions C03_explicitH_ord_partial.

Theorem C03_explicitH_ord_shape : forall (ord : list N -> list N),
  (forall (l : list N) (x : N), In x (ord l) <-> In x l) ->
  forall (T T' : its) (ms : list (N * N)),
  NoDup (node_ids T) -> explicit_h_ord ord T = Some (T', ms) ->
  gedges T' = gedges T ++ new_edges (N.succ (max_id T)) ms /\
  node_ids T' = node_ids T ++ map fst (new_nodes (N.succ (max_id T)) ms) /\
  (forall (k : N) (a : inode), In (k, a) (new_nodes (N.succ (max_id T)) ms) -> label T' k = Some H_inode) /\
  (forall (n : N) (a : inode), label T n = Some a ->
     exists a' : inode, label T' n = Some a' /\
       a_hc (iG a') = a_hc (iG a) - occurrences n (map fst ms) /\
       a_hc (iH a') = a_hc (iH a) - occurrences n (map snd ms)).
Proof. exact explicit_h_ord_shape. Qed.
Print Assumptions C03_explicitH_ord_shape.

(** the wiring stays inside one group for every order: donor with a surplus, recipient with a deficit, same group *)
Theorem C03_explicitH_ord_wiring : forall (ord : list N -> list N),
  (forall (l : list N) (x : N), In x (ord l) <-> In x l) ->
  forall (T T' : its) (ms : list (N * N)),
  NoDup (node_ids T) -> explicit_h_ord ord T = Some (T', ms) ->
  gedges T' = gedges T ++ new_edges (N.succ (max_id T)) ms /\
  forall sd : N * N, In sd ms ->
    same_group T (fst sd) (snd sd) /\ 0 < dl_of T (fst sd) /\ dl_of T (snd sd) < 0.
Proof. exact explicit_h_ord_wiring. Qed.
Print Assumptions C03_explicitH_ord_wiring.

(** usage counts for every order; and against the sorted order: every atom gives the same number of hydrogens, and (exact
    groups) takes the same number — the visiting order changes only WHO is paired with WHOM *)
Theorem C03_explicitH_ord_usage : forall (ord : list N -> list N),
  (forall (l : list N) (x : N), In x (ord l) <-> In x l) -> (forall l : list N, NoDup l -> NoDup (ord l)) ->
  forall (T T' : its) (ms : list (N * N)),
  explicit_h_ord ord T = Some (T', ms) ->
  (forall x : N,
    occurrences x (map fst ms) = (if grouped T x then Z.max 0 (dl_of T x) else 0) /\
    0 <= occurrences x (map snd ms) <= (if grouped T x then Z.max 0 (- dl_of T x) else 0)) /\
  (pairs_exactb T = true ->
   forall x : N, occurrences x (map snd ms) = (if grouped T x then Z.max 0 (- dl_of T x) else 0)) /\
  (forall (T0 : its) (ms0 : list (N * N)), explicit_h T = Some (T0, ms0) ->
     (forall x : N, occurrences x (map fst ms) = occurrences x (map fst ms0)) /\
     (pairs_exactb T = true -> forall x : N, occurrences x (map snd ms) = occurrences x (map snd ms0))).
Proof.
  intros ord Hin Hnd T T' ms H. split; [|split].
  - exact (explicit_h_ord_usage ord Hin Hnd T T' ms H).
  - exact (explicit_h_ord_usage_exact ord Hin Hnd T T' ms H).
  - intros T0 ms0 H0. exact (explicit_h_ord_same_usage ord Hin Hnd T T' ms T0 ms0 H H0).
Qed.
Print Assumptions C03_explicitH_ord_usage.

(** whether _explicit_h raises does not depend on the order *)
Theorem C03_explicitH_ord_crash_iff : forall (ord : list N -> list N),
  (forall (l : list N) (x : N), In x (ord l) <-> In x l) -> (forall l : list N, NoDup l -> NoDup (ord l)) ->
  forall T : its, explicit_h_ord ord T = None <-> pairs_okb T = false.
Proof. exact explicit_h_ord_crash_iff. Qed.
Print Assumptions C03_explicitH_ord_crash_iff.

(** which partner is chosen INSIDE a group, in closed form (was: compared only).  [slots f l] = every atom of l repeated
    f(atom) times; [zip_migrations T comp] = combine (donors of comp in visiting order, each repeated as often as its
    surplus) (recipients in visiting order, each as often as its deficit): the k-th hydrogen given goes to the k-th free
    place.  First fit IS that zip, and it exists exactly when the places suffice; the list of migrations of the whole
    graph is the concatenation of the groups' zips *)
Theorem C03_first_fit_zip : forall (T : its) (comp : list N),
  migrations_of T comp = (if comp_balancedb T comp then Some (zip_migrations T comp) else None) /\
  zip_migrations T comp =
    combine (slots (dl_of T) (filter (fun n => 0 <? dl_of T n) comp))
            (slots (fun n => - dl_of T n) (filter (fun n => dl_of T n <? 0) comp)).
Proof. intros T comp. split; [apply migrations_of_closed|apply zip_migrations_eq]. Qed.
Print Assumptions C03_first_fit_zip.

Theorem C03_explicitH_ord_closed_form : forall (ord : list N -> list N) (T T' : its) (ms : list (N * N)),
  explicit_h_ord ord T = Some (T', ms) ->
  ms = flat_map (fun c => zip_migrations T (ord c)) (components (pair_to_nodes T)) /\ T' = apply_migrations T ms.
Proof. exact explicit_h_ord_migrations. Qed.
Print Assumptions C03_explicitH_ord_closed_form.

(** the bit the correspondence evaluates on every glued graph (pairing = closed form on every group) is always true *)
Theorem C03_zip_okb : forall (ord : list N -> list N) (T : its), zip_okb ord T = true.
Proof. exact zip_okb_true. Qed.
Print Assumptions C03_zip_okb.

(** glue then _explicit_h, and expand / glue / _explicit_h (C03_explicitH_conserve, C03_explicit_path) for every order *)
Theorem C03_explicitH_ord_conserve : forall (ord : list N -> list N),
  (forall (l : list N) (x : N), In x (ord l) <-> In x l) ->
  forall (host : hostg) (rc : its) (m : mapping) (T T' : its) (ms : list (N * N)),
  wf_hostb host = true -> wf_rcb rc = true -> match_rcb host rc m = true -> glue host rc m = Some T ->
  balancedb rc = true -> explicit_h_ord ord T = Some (T', ms) ->
  (forall e : N, elem_count e (fst (its_decompose T')) = elem_count e (snd (its_decompose T'))) /\
  total_charge (fst (its_decompose T')) = total_charge (snd (its_decompose T')) /\
  (forall e : N, elem_count e (fst (its_decompose T')) = elem_count e (mol_of_host host)) /\
  (forall a b : N, In a (node_ids host) -> In b (node_ids host) -> bondG T' a b = adj host a b).
Proof. exact explicit_h_ord_conserve. Qed.
Print Assumptions C03_explicitH_ord_conserve.

Theorem C03_explicit_path_ord : forall (ord : list N -> list N),
  (forall (l : list N) (x : N), In x (ord l) <-> In x l) ->
  forall (host : hostg) (nodes : list N) (rc : its) (m : mapping) (T T' : its) (ms : list (N * N)),
  wf_hostb host = true -> wf_hostb (h_to_explicit host nodes) = true -> wf_rcb rc = true ->
  match_rcb (h_to_explicit host nodes) rc m = true -> glue (h_to_explicit host nodes) rc m = Some T ->
  explicit_h_ord ord T = Some (T', ms) ->
  (forall e : N, elem_count e (fst (its_decompose T')) = elem_count e (mol_of_host host)) /\
  total_charge (fst (its_decompose T')) = total_charge (mol_of_host host) /\
  (forall a b : N, In a (node_ids host) -> In b (node_ids host) -> bondG T' a b = adj host a b) /\
  (balancedb rc = true ->
     (forall e : N, elem_count e (fst (its_decompose T')) = elem_count e (snd (its_decompose T'))) /\
     total_charge (fst (its_decompose T')) = total_charge (snd (its_decompose T'))).
Proof. exact explicit_path_ord. Qed.
Print Assumptions C03_explicit_path_ord.

(** the default mode end to end (C03_default_end_to_end_direct / _expanded, C03_default_migrations_in_template_groups) for
    every order: conservation from the template's condition, and every re-materialised hydrogen moves inside one
    hydrogen-transfer group of the TEMPLATE *)
Theorem C03_default_end_to_end_ord : forall (ord : list N -> list N),
  (forall (l : list N) (x : N), In x (ord l) <-> In x l) ->
  forall (tpl rc : its) (l r : molg) (host : hostg) (nodes : list N) (m : mapping) (T T' : its) (ms : list (N * N)),
  nodupb (node_ids tpl) = true -> (forall (k : N) (a : inode), In (k, a) (gnodes tpl) -> a_el (iH a) = a_el (iG a)) ->
  simple_edgesb (gedges tpl) = true -> synrule tpl true = Some (rc, l, r) -> tpl_condition tpl ->
  wf_hostb host = true -> wf_rcb rc = true ->
  ((match_rcb host rc m = true /\ glue host rc m = Some T) \/
   (wf_hostb (h_to_explicit host nodes) = true /\ match_rcb (h_to_explicit host nodes) rc m = true /\
    glue (h_to_explicit host nodes) rc m = Some T)) ->
  explicit_h_ord ord T = Some (T', ms) ->
  (forall e : N, elem_count e (fst (its_decompose T')) = elem_count e (snd (its_decompose T'))) /\
  total_charge (fst (its_decompose T')) = total_charge (snd (its_decompose T')) /\
  (forall e : N, elem_count e (fst (its_decompose T')) = elem_count e (mol_of_host host)) /\
  (forall a b : N, In a (node_ids host) -> In b (node_ids host) -> bondG T' a b = adj host a b).
Proof.
  intros ord Hin tpl rc l r host nodes m T T' ms Hnd Hel Hs H Hc Hwh Hwr [[Hm Hg]|[Hwx [Hm Hg]]] He.
  - exact (default_end_to_end_direct_ord ord Hin tpl rc l r host m T T' ms Hnd Hel Hs H Hc Hwh Hwr Hm Hg He).
  - exact (default_end_to_end_expanded_ord ord Hin tpl rc l r host nodes m T T' ms Hnd Hel Hs H Hc Hwh Hwx Hwr Hm Hg He).
Qed.
Print Assumptions C03_default_end_to_end_ord.

Theorem C03_default_migrations_in_template_groups_ord : forall (ord : list N -> list N),
  (forall (l : list N) (x : N), In x (ord l) <-> In x l) ->
  forall (tpl rc : its) (l r : molg) (host : hostg) (m : mapping) (T : its),
  nodupb (node_ids tpl) = true -> (forall (k : N) (n : inode), In (k, n) (gnodes tpl) -> i_hp n = None) ->
  synrule tpl true = Some (rc, l, r) ->
  wf_hostb host = true -> wf_rcb rc = true -> match_rcb host rc m = true -> glue host rc m = Some T ->
  forall (T' : its) (ms : list (N * N)), explicit_h_ord ord T = Some (T', ms) ->
  forall sd : N * N, In sd ms ->
    exists x y : N, mget m x = Some (fst sd) /\ mget m y = Some (snd sd) /\ tpl_group tpl x y /\
                    0 < dl_of T (fst sd) /\ dl_of T (snd sd) < 0.
Proof. exact default_migrations_in_template_groups_ord. Qed.
Print Assumptions C03_default_migrations_in_template_groups_ord.

(** ** round 5: the reactor as a state machine (model/C03_Reactor.v): the lazily cached _rule / _mappings (+ the
    explicit-hydrogen flag) / _its / _smarts behind rule, mappings, mapping_count, its_list, smarts_list, smiles_list and
    their aliases.  [step inp st op] = one attribute read (new caches, value); [run_ops] = a script of reads; [spec_val inp op]
    = the value the INPUTS determine (template, substrate, options; oracle inputs: the matcher's mappings and re-matches,
    the visiting orders, RDKit's strings); [nocrash inp] = no _explicit_h call raises.  The correspondence runs scripts of
    reads on fresh reactors ([run_reads]) and compares every value. *)

(** whatever is read, in whatever order and however often, on a fresh reactor: every read returns the value the inputs
    determine; and one step from ANY state whose caches hold only such values keeps that invariant ([inv0]) *)
Theorem C03_reads_stable : forall (inp : rin), nocrash inp ->
  (forall ops : list rop, run_ops inp rs0 ops = map (spec_val inp) ops) /\
  (forall (st : rstate) (op : rop), inv0 inp st ->
     forall (st' : rstate) (v : rval), step inp st op = (st', v) -> v = spec_val inp op /\ inv0 inp st').
Proof.
  intros inp Hnc. split; [intros ops; exact (reads_stable inp ops Hnc)|].
  intros st op Hinv st' v H. exact (step_spec inp st op Hnc Hinv st' v H).
Qed.
Print Assumptions C03_reads_stable.

(** its_list on a FRESH reactor takes the route the pattern calls for: `self.mappings` is evaluated (and sets the flag)
    before the flag is read — the class of "first thing asked of a fresh reactor" changes *)
Theorem C03_fresh_its_route : forall (inp : rin) (rc : its) (l r : molg),
  i_rule inp = Some (rc, l, r) -> nocrash inp ->
  forall (st' : rstate) (v : rval), step inp rs0 Oits = (st', v) ->
    s_flag st' = has_XH l /\
    v = match spec_its inp with Some gs => Vits gs | None => Vraise end /\
    (i_explicit inp = false -> v = Vits (map fst (glue_all (has_XH l) (i_host inp) rc (i_calls inp) (i_tbls inp)))).
Proof. exact fresh_its_route. Qed.
Print Assumptions C03_fresh_its_route.

(** the code as it is: when _explicit_h raises (a group with more hydrogens to give than to take), the first read of
    its_list raises and every later read silently returns the GLUED graphs, without the explicit-hydrogen stage — the
    cache was filled before the stage ran.  Compared with the implementation read by read on every run (families script-raw,
    synthetic-raw: hand-written rules whose group has more hydrogens to give than to take).  Not a C03 violation (the
    graphs returned are the rule's instances in count form; rules prepared from reaction templates never raise), recorded
    as an observation about stale state after an exception *)
Theorem C03_reads_after_crash : forall (inp : rin) (rc : its) (l r : molg),
  i_rule inp = Some (rc, l, r) -> i_explicit inp = true -> explicit_all (spec_glued inp) = None ->
  run_ops inp rs0 [Oits; Oits; Oits] = [Vraise; Vits (map fst (spec_glued inp)); Vits (map fst (spec_glued inp))].
Proof. exact reads_after_crash. Qed.
Print Assumptions C03_reads_after_crash.

(** the string half of the serialisation, for RDKit strings without '>' (premise: SMILES never contain it): entry by entry,
    smarts_list holds "r>>p" forwards and "p>>r" backwards for every result RDKit could write on both sides (the others are
    dropped), and smiles_list extracts p forwards and r — the substrate side — backwards.  With C03_left_is_host (r is
    the serialisation of the substrate side of the ITS) this is clause (a) at the level of the returned strings:
    substrate first when applied forwards, substrate last when applied backwards *)
Theorem C03_smarts_direction : forall (ser : nat -> its -> option str * option str),
  (forall (i : nat) (g : its) (r p : str), ser i g = (Some r, Some p) -> ~ In GT r /\ ~ In GT p) ->
  forall (invert : bool) (gs : list its),
    smarts_of invert ser gs = flat_map (fun x : list str => x) (mapi (fun i g => entry invert (ser i g)) O gs) /\
    map last_part (smarts_of invert ser gs) = flat_map (fun x : list str => x) (mapi (fun i g => side_entry invert (ser i g)) O gs).
Proof. exact smarts_of_spec. Qed.
Print Assumptions C03_smarts_direction.

(** reverse_reaction / split(">>") on such strings *)
Theorem C03_reverse_reaction : forall r p : str, ~ In GT r -> ~ In GT p ->
  split_gt (join_gt r p) = [r; p] /\ reverse_reaction (join_gt r p) = join_gt p r /\
  reverse_reaction (reverse_reaction (join_gt r p)) = join_gt r p /\ last_part (join_gt r p) = p.
Proof.
  intros r p Hr Hp. split; [exact (split_join r p Hr Hp)|]. split; [exact (reverse_join r p Hr Hp)|].
  split; [exact (reverse_involutive r p Hr Hp)|exact (last_join r p Hr Hp)].
Qed.
Print Assumptions C03_reverse_reaction.

(** ** capstone: every graph its_list returns is a genuine instance of the rule — the property itself, stated about the
    list the reactor returns (whatever was read before, C03_reads_stable), for every substrate, rule, set of matcher answers,
    hydrogen mode (explicit stage on / off, direct / expanded route) and every visiting order.
    Hypotheses: the inputs are well formed and the matcher's answers are valid matches ([call_okb], model/C03_Reactor.v;
    evaluated on every scripted case through [hyps_okb]).  Conclusion, for every g in the list ([instance_of],
    proof/C03_ReactorSpec.v, written out here): there are a base graph hb (the substrate, or the substrate with some
    implicit hydrogens written as H atoms), a valid match m and the glued graph T with g = T or g = _explicit_h(T), and
    (a) the reactant side of g has the SUBSTRATE's element counts (hydrogen = atoms + counts), total charge and — between
        substrate atoms — exactly the substrate's bonds; atom by atom, every substrate atom is an atom of g whose reactant
        tuple is the substrate's up to the hydrogen count (a count may have become explicit H atoms);
    (b) if the rule is balanced both sides of g have the same element counts and charge;
    (c) every matched atom of T carries the rule atom's element, hydrogen-count change and charges and every other atom is
        unchanged; the changed bonds of T are exactly the m-images of the rule's changed bonds with equal order changes,
        and g has in addition only the donor-H / H-recipient bonds of the re-materialised hydrogens, each joining a donor
        and a recipient of ONE hydrogen-transfer group. *)
Theorem C03_its_list_instances : forall (inp : rin) (rc : its) (l r : molg) (gs : list its),
  i_rule inp = Some (rc, l, r) -> wf_hostb (i_host inp) = true -> wf_rcb rc = true ->
  forallb (call_okb (has_XH l) (i_host inp) rc) (i_calls inp) = true ->
  spec_its inp = Some gs ->
  forall g : its, In g gs ->
  exists (hb : hostg) (m : mapping) (T : its) (tbl : list (list N)),
    (hb = i_host inp \/ exists nodes : list N, hb = h_to_explicit (i_host inp) nodes) /\
    wf_hostb hb = true /\ match_rcb hb rc m = true /\ glue hb rc m = Some T /\
    (g = T \/ exists ms : list (N * N), explicit_h_ord (ord_of tbl) T = Some (g, ms)) /\
    (forall e : N, elem_count e (fst (its_decompose g)) = elem_count e (mol_of_host (i_host inp))) /\
    total_charge (fst (its_decompose g)) = total_charge (mol_of_host (i_host inp)) /\
    (forall a b : N, In a (node_ids (i_host inp)) -> In b (node_ids (i_host inp)) -> bondG g a b = adj (i_host inp) a b) /\
    (forall (n : N) (a : nattr), label (i_host inp) n = Some a ->
       exists a' : inode, label g n = Some a' /\ set_hc (iG a') 0 = set_hc a 0) /\
    (balancedb rc = true ->
       (forall e : N, elem_count e (fst (its_decompose g)) = elem_count e (snd (its_decompose g))) /\
       total_charge (fst (its_decompose g)) = total_charge (snd (its_decompose g))) /\
    (forall (p : N) (pn : inode) (h : N), In (p, pn) (gnodes rc) -> mget m p = Some h ->
       exists a : inode, label T h = Some a /\ a_el (iG a) = a_el (iG pn) /\ a_el (iH a) = a_el (iG pn) /\ dH a = dH pn /\
                         a_ch (iG a) = a_ch (iG pn) /\ a_ch (iH a) = a_ch (iH pn)) /\
    (forall (h : N) (a : inode), ~ In h (map snd m) -> label T h = Some a -> iH a = iG a) /\
    Permutation (changed_bonds T) (image_changed_bonds m rc) /\
    (forall ms : list (N * N), explicit_h_ord (ord_of tbl) T = Some (g, ms) ->
       changed_bonds g = changed_bonds T ++ map bond_key (new_edges (N.succ (max_id T)) ms) /\
       forall sd : N * N, In sd ms -> same_group T (fst sd) (snd sd) /\ 0 < dl_of T (fst sd) /\ dl_of T (snd sd) < 0).
Proof. exact its_list_sound. Qed.
Print Assumptions C03_its_list_instances.

(** ... and through the state machine: every graph in every list any script of reads returns on a fresh reactor *)
Theorem C03_reads_return_instances : forall (inp : rin) (rc : its) (l r : molg),
  i_rule inp = Some (rc, l, r) -> wf_hostb (i_host inp) = true -> wf_rcb rc = true ->
  forallb (call_okb (has_XH l) (i_host inp) rc) (i_calls inp) = true -> nocrash inp ->
  forall (ops : list rop) (gs : list its), In (Vits gs) (run_ops inp rs0 ops) ->
  forall g : its, In g gs -> instance_of (i_host inp) rc g.
Proof. exact reads_return_instances. Qed.
Print Assumptions C03_reads_return_instances.

(** ... and from the TEMPLATE in the default mode (the rule glued is [synrule tpl true]): if the template satisfies
    [tpl_condition] (every stripped hydrogen keeps its number of bonds to the kept heavy atoms, the kept atoms keep the
    total charge — a condition on the template alone) EVERY graph of its_list conserves every element count including
    hydrogen and the total charge and has the substrate's composition and bonds on its reactant side: clauses (a) and (b)
    end to end, template -> prepared rule -> matches -> (expansion) -> gluing -> _explicit_h -> list returned *)
Theorem C03_its_list_default_mode : forall (inp : rin) (tpl rc : its) (l r : molg) (gs : list its),
  i_rule inp = synrule tpl true -> synrule tpl true = Some (rc, l, r) ->
  nodupb (node_ids tpl) = true -> (forall (k : N) (a : inode), In (k, a) (gnodes tpl) -> a_el (iH a) = a_el (iG a)) ->
  simple_edgesb (gedges tpl) = true -> tpl_condition tpl ->
  wf_hostb (i_host inp) = true -> wf_rcb rc = true ->
  forallb (call_okb (has_XH l) (i_host inp) rc) (i_calls inp) = true ->
  spec_its inp = Some gs ->
  forall g : its, In g gs ->
    (forall e : N, elem_count e (fst (its_decompose g)) = elem_count e (snd (its_decompose g))) /\
    total_charge (fst (its_decompose g)) = total_charge (snd (its_decompose g)) /\
    (forall e : N, elem_count e (fst (its_decompose g)) = elem_count e (mol_of_host (i_host inp))) /\
    total_charge (fst (its_decompose g)) = total_charge (mol_of_host (i_host inp)) /\
    (forall a b : N, In a (node_ids (i_host inp)) -> In b (node_ids (i_host inp)) -> bondG g a b = adj (i_host inp) a b).
Proof. exact its_list_default_mode. Qed.
Print Assumptions C03_its_list_default_mode.

(** ... and with the MATCHER'S CONTRACT as hypothesis instead of [match_rcb]: the reactor hands the rule's left graph l to
    SubgraphSearchEngine, whose answers satisfy [match_okb] on the pattern they were asked for (property C06).
    [matcher_hyps_okb] (proof/C03_ReactorSpec.v) = inputs well formed, every bond of rc joins two atoms of rc, l is the
    reactant side of rc as far as matching is concerned ([left_of_rcb]: same number of atoms, every rc atom is an l atom
    with the same element / charge / hydrogen count, every reactant-side bond of rc is a bond of l — evaluated on EVERY
    correspondence case through [rule_link_okb], and true by construction in the implicit-template mode), and the matcher's
    answers satisfy [match_okb] on l (direct route: the kept mapping on the substrate; expanded route: every re-match on
    the well-formed hydrogen-expanded substrate; evaluated per mapping in the ordinary observable and as one boolean on
    every scripted case). *)
Theorem C03_its_list_instances_matcher : forall (inp : rin) (rc : its) (l r : molg) (gs : list its),
  i_rule inp = Some (rc, l, r) ->
  wf_hostb (i_host inp) = true -> wf_rcb rc = true -> edges_closedb rc = true -> left_of_rcb rc l = true ->
  forallb (call_okm (i_host inp) l) (i_calls inp) = true ->
  spec_its inp = Some gs ->
  forall g : its, In g gs -> instance_of (i_host inp) rc g.
Proof.
  intros inp rc l r gs Er H1 H2 H3 H4 H5. apply (its_list_sound_matcher inp rc l r gs Er).
  rewrite Er. unfold matcher_hyps_okb. rewrite H1, H2, H3, H4, H5. reflexivity.
Qed.
Print Assumptions C03_its_list_instances_matcher.

Theorem C03_match_link_left : forall (host : hostg) (rc : its) (l : molg) (m : mapping),
  edges_closedb rc = true -> left_of_rcb rc l = true -> match_okb host l m = true -> match_rcb host rc m = true.
Proof. exact match_okb_left. Qed.
Print Assumptions C03_match_link_left.

Theorem C03_left_of_rcb_implicit : forall tpl : its, NoDup (node_ids tpl) -> left_of_rcb tpl (fst (its_decompose tpl)) = true.
Proof. exact left_of_rcb_dec. Qed.
Print Assumptions C03_left_of_rcb_implicit.

(** in the DEFAULT mode the hypotheses about the rule follow from the TEMPLATE (templates whose atoms have the same
    element on both sides): the prepared rule is well formed, its bonds join its atoms, and its left graph is the reactant
    side of its rule graph as far as matching goes *)
Theorem C03_default_rule_hyps : forall (tpl rc : its) (l r : molg),
  (forall (k : N) (a : inode), In (k, a) (gnodes tpl) -> a_el (iH a) = a_el (iG a)) ->
  wf_rcb tpl = true -> edges_closedb tpl = true -> synrule tpl true = Some (rc, l, r) ->
  wf_rcb rc = true /\ edges_closedb rc = true /\ left_of_rcb rc l = true.
Proof. exact default_rule_hyps. Qed.
Print Assumptions C03_default_rule_hyps.

(** the property END TO END in the default mode, hypotheses on the TEMPLATE (well formed, same element on both sides of
    every atom, [tpl_condition]), the SUBSTRATE (well formed) and the MATCHER'S CONTRACT ([call_okm]: its answers satisfy
    match_okb on the left graph it was given) only: every graph its_list returns (= every Vits value of any script of
    reads, C03_reads_stable) is an instance of the prepared rule in the sense of [instance_of] (written out in
    C03_its_list_instances: substrate side, changed bonds, in-group hydrogen wiring) and conserves every element count
    including hydrogen and the total charge *)
Theorem C03_its_list_default_end_to_end : forall (inp : rin) (tpl rc : its) (l r : molg) (gs : list its),
  i_rule inp = synrule tpl true -> synrule tpl true = Some (rc, l, r) ->
  (forall (k : N) (a : inode), In (k, a) (gnodes tpl) -> a_el (iH a) = a_el (iG a)) ->
  wf_rcb tpl = true -> edges_closedb tpl = true -> tpl_condition tpl ->
  wf_hostb (i_host inp) = true -> forallb (call_okm (i_host inp) l) (i_calls inp) = true ->
  spec_its inp = Some gs ->
  forall g : its, In g gs ->
    instance_of (i_host inp) rc g /\
    (forall e : N, elem_count e (fst (its_decompose g)) = elem_count e (snd (its_decompose g))) /\
    total_charge (fst (its_decompose g)) = total_charge (snd (its_decompose g)).
Proof. exact its_list_default_end_to_end. Qed.
Print Assumptions C03_its_list_default_end_to_end.

(** the property END TO END in the implicit-template mode, forwards and backwards ([invert]), hypotheses on the TEMPLATE
    (well formed, bonds join its atoms), the SUBSTRATE and the MATCHER'S CONTRACT only: the rule is the template (the
    inverted template backwards, C03_backward), its left graph the template's reactant (product) side; every graph of
    its_list is an instance of it, and balanced if the template is *)
Theorem C03_its_list_implicit_end_to_end : forall (invert : bool) (inp : rin) (tpl : its) (gs : list its),
  i_rule inp = synrule (if invert then invert_template tpl else tpl) false ->
  wf_rcb tpl = true -> edges_closedb tpl = true ->
  wf_hostb (i_host inp) = true ->
  forallb (call_okm (i_host inp) (fst (its_decompose (if invert then invert_template tpl else tpl)))) (i_calls inp) = true ->
  spec_its inp = Some gs ->
  forall g : its, In g gs ->
    instance_of (i_host inp) (if invert then invert_template tpl else tpl) g /\
    (balancedb tpl = true ->
       (forall e : N, elem_count e (fst (its_decompose g)) = elem_count e (snd (its_decompose g))) /\
       total_charge (fst (its_decompose g)) = total_charge (snd (its_decompose g))).
Proof. exact its_list_implicit_end_to_end. Qed.
Print Assumptions C03_its_list_implicit_end_to_end.

(** the default mode BACKWARDS: the reactor prepares [invert_template tpl].  The template condition is symmetric in the two
    sides, so it transfers to the inverted template (as do "same element", well-formedness and closed bonds) ... *)
Theorem C03_tpl_condition_invert : forall tpl : its,
  (forall (k : N) (a : inode), In (k, a) (gnodes tpl) -> a_el (iH a) = a_el (iG a)) -> simple_edgesb (gedges tpl) = true ->
  tpl_condition tpl -> tpl_condition (invert_template tpl).
Proof. exact tpl_condition_invert. Qed.
Print Assumptions C03_tpl_condition_invert.

(** ... and the property holds END TO END backwards under hypotheses on the template AS WRITTEN, the substrate and the
    matcher's contract (the backward half of the property's quantifier in the default mode) *)
Theorem C03_its_list_default_end_to_end_backward : forall (inp : rin) (tpl rc : its) (l r : molg) (gs : list its),
  i_rule inp = synrule (invert_template tpl) true -> synrule (invert_template tpl) true = Some (rc, l, r) ->
  (forall (k : N) (a : inode), In (k, a) (gnodes tpl) -> a_el (iH a) = a_el (iG a)) ->
  wf_rcb tpl = true -> edges_closedb tpl = true -> tpl_condition tpl ->
  wf_hostb (i_host inp) = true -> forallb (call_okm (i_host inp) l) (i_calls inp) = true ->
  spec_its inp = Some gs ->
  forall g : its, In g gs ->
    instance_of (i_host inp) rc g /\
    (forall e : N, elem_count e (fst (its_decompose g)) = elem_count e (snd (its_decompose g))) /\
    total_charge (fst (its_decompose g)) = total_charge (snd (its_decompose g)).
Proof. exact its_list_default_end_to_end_backward. Qed.
Print Assumptions C03_its_list_default_end_to_end_backward.

(** a SynRule OBJECT (prepared by the caller in the default mode from a template) applied backwards: the reactor inverts the
    PREPARED rule graph rc0 and uses it without preparing it again (C03_wrap_rule, /repo cc40c07); every graph of its_list
    is an instance of the inverted prepared rule, balanced if the template satisfies [tpl_condition] — hypotheses on the
    template, the substrate and the matcher's contract.  (Forwards a SynRule object is used as it is: C03_its_list_default_
    end_to_end / _implicit_end_to_end apply verbatim.) *)
Theorem C03_its_list_synrule_object_backward : forall (implicit_temp : bool) (inp : rin) (tpl rc0 : its) (l0 r0 : molg) (gs : list its),
  synrule tpl true = Some (rc0, l0, r0) ->
  i_rule inp = wrap_template_rule true implicit_temp (rc0, l0, r0) ->
  (forall (k : N) (a : inode), In (k, a) (gnodes tpl) -> a_el (iH a) = a_el (iG a)) ->
  wf_rcb tpl = true -> edges_closedb tpl = true ->
  wf_hostb (i_host inp) = true ->
  forallb (call_okm (i_host inp) (fst (its_decompose (invert_template rc0)))) (i_calls inp) = true ->
  spec_its inp = Some gs ->
  forall g : its, In g gs ->
    instance_of (i_host inp) (invert_template rc0) g /\
    (tpl_condition tpl ->
       (forall e : N, elem_count e (fst (its_decompose g)) = elem_count e (snd (its_decompose g))) /\
       total_charge (fst (its_decompose g)) = total_charge (snd (its_decompose g))).
Proof. exact its_list_synrule_object_backward. Qed.
Print Assumptions C03_its_list_synrule_object_backward.

(** the template-side hypotheses as ONE boolean of the template as written ([default_tpl_okb], proof/C03_ReactorSpec.v:
    well formed, closed bonds, same element on both sides, and the template condition in decidable form) — evaluated on every
    correspondence case by the model and, independently, by the harness (evidence: to how many templates the end-to-end
    theorems apply) *)
Theorem C03_default_tpl_okb_sound : forall tpl : its, default_tpl_okb tpl = true ->
  (forall (k : N) (a : inode), In (k, a) (gnodes tpl) -> a_el (iH a) = a_el (iG a)) /\
  wf_rcb tpl = true /\ edges_closedb tpl = true /\ tpl_condition tpl.
Proof. exact default_tpl_okb_sound. Qed.
Print Assumptions C03_default_tpl_okb_sound.

(** the property END TO END in the default mode, forwards and backwards, every hypothesis a boolean that the correspondence
    evaluates: the template ([default_tpl_okb], on the template as written), the substrate ([wf_hostb]), the matcher's
    contract ([call_okm]) *)
Theorem C03_its_list_default_bool : forall (invert : bool) (inp : rin) (tpl rc : its) (l r : molg) (gs : list its),
  default_tpl_okb tpl = true ->
  i_rule inp = synrule (if invert then invert_template tpl else tpl) true ->
  synrule (if invert then invert_template tpl else tpl) true = Some (rc, l, r) ->
  wf_hostb (i_host inp) = true -> forallb (call_okm (i_host inp) l) (i_calls inp) = true ->
  spec_its inp = Some gs ->
  forall g : its, In g gs ->
    instance_of (i_host inp) rc g /\
    (forall e : N, elem_count e (fst (its_decompose g)) = elem_count e (snd (its_decompose g))) /\
    total_charge (fst (its_decompose g)) = total_charge (snd (its_decompose g)).
Proof. exact its_list_default_bool. Qed.
Print Assumptions C03_its_list_default_bool.

(** ** _explicit_h NEVER RAISES on graphs glued from rules prepared from (condition-satisfying) templates.
    T-level: a hydrogen LEDGER ([ledger], [ledger_dl], proof/C03_ReactorSpec.v) — one entry per migrating hydrogen: the
    atoms it leaves, the atoms it joins.  If the ledger accounts for every atom's hydrogen change, the atoms of one entry
    carry a common pair id, and every entry leaves as many atoms as it joins, then every hydrogen-transfer group is EXACT
    (as many hydrogens to give as to take), so the pairing succeeds for every visiting order (and by
    C03_explicitH_ord_usage every recipient takes exactly its deficit) *)
Theorem C03_ledger_sound : forall (T : its) (lg : ledger),
  (forall n : N, dl_of T n = ledger_dl lg n) ->
  (forall h : list N * list N, In h lg ->
     exists p : N, forall x : N, In x (fst h ++ snd h) -> exists A : inode, In (x, A) (gnodes T) /\ In p (hp_of A)) ->
  (forall h : list N * list N, In h lg -> length (fst h) = length (snd h)) ->
  pairs_exactb T = true /\ pairs_okb T = true /\
  forall ord : list N -> list N, (forall (l : list N) (x : N), In x (ord l) <-> In x l) -> (forall l : list N, NoDup l -> NoDup (ord l)) ->
    explicit_h_ord ord T <> None.
Proof. exact ledger_sound. Qed.
Print Assumptions C03_ledger_sound.

(** the default mode: the ledger of the template's removed hydrogens (each with the images of the kept non-hydrogen atoms it
    is bonded to on the left / on the right) satisfies the three conditions — hydrogen counts of the prepared rule
    (C03_synrule_default_pointwise), pair ids (C03_default_pair_ids_complete), gluing (labels of matched / unmatched atoms),
    [tpl_condition] — so every graph glued from such a rule along a valid match has only exact groups *)
Theorem C03_default_glued_exact : forall (tpl rc : its) (l r : molg) (host : hostg) (m : mapping) (T : its),
  nodupb (node_ids tpl) = true -> (forall (k : N) (a : inode), In (k, a) (gnodes tpl) -> a_el (iH a) = a_el (iG a)) ->
  simple_edgesb (gedges tpl) = true -> synrule tpl true = Some (rc, l, r) -> tpl_condition tpl ->
  wf_rcb rc = true -> match_rcb host rc m = true -> glue host rc m = Some T ->
  pairs_exactb T = true /\ pairs_okb T = true /\
  forall ord : list N -> list N, (forall (l0 : list N) (x : N), In x (ord l0) <-> In x l0) -> (forall l0 : list N, NoDup l0 -> NoDup (ord l0)) ->
    explicit_h_ord ord T <> None.
Proof. exact default_glued_exact. Qed.
Print Assumptions C03_default_glued_exact.

(** ... hence the reactor's its_list never raises in the default mode ([nocrash], the hypothesis of C03_reads_stable and
    C03_reads_return_instances) *)
Theorem C03_default_nocrash : forall (inp : rin) (tpl rc : its) (l r : molg),
  i_rule inp = Some (rc, l, r) -> synrule tpl true = Some (rc, l, r) ->
  nodupb (node_ids tpl) = true -> (forall (k : N) (a : inode), In (k, a) (gnodes tpl) -> a_el (iH a) = a_el (iG a)) ->
  simple_edgesb (gedges tpl) = true -> tpl_condition tpl ->
  wf_hostb (i_host inp) = true -> wf_rcb rc = true ->
  forallb (call_okb (has_XH l) (i_host inp) rc) (i_calls inp) = true ->
  nocrash inp.
Proof. exact default_nocrash. Qed.
Print Assumptions C03_default_nocrash.

(** THE DEFAULT MODE, TOTAL — forwards and backwards, every hypothesis an evaluated boolean (the template as written:
    [default_tpl_okb]; the substrate: [wf_hostb]; the matcher's contract: [call_okm]): the reactor never raises; any script of
    reads on a fresh reactor returns, read by read, the values the inputs determine; its_list returns a list; and every
    graph in it is an instance of the prepared rule ([instance_of]: substrate side, changed atoms and bonds, in-group
    hydrogen wiring) that conserves every element count including hydrogen and the total charge *)
Theorem C03_default_reactor_total : forall (invert : bool) (inp : rin) (tpl rc : its) (l r : molg),
  default_tpl_okb tpl = true ->
  i_rule inp = synrule (if invert then invert_template tpl else tpl) true ->
  synrule (if invert then invert_template tpl else tpl) true = Some (rc, l, r) ->
  wf_hostb (i_host inp) = true -> forallb (call_okm (i_host inp) l) (i_calls inp) = true ->
  nocrash inp /\
  (forall ops : list rop, run_ops inp rs0 ops = map (spec_val inp) ops) /\
  (exists gs : list its, spec_its inp = Some gs) /\
  (forall (gs : list its) (g : its), spec_its inp = Some gs -> In g gs ->
     instance_of (i_host inp) rc g /\
     (forall e : N, elem_count e (fst (its_decompose g)) = elem_count e (snd (its_decompose g))) /\
     total_charge (fst (its_decompose g)) = total_charge (snd (its_decompose g))).
Proof. exact default_reactor_total. Qed.
Print Assumptions C03_default_reactor_total.

(** no pair ids, no migration: on a graph none of whose atoms carries a pair id _explicit_h changes nothing, whatever the
    order (rules without h_pairs — inverted templates, inverted prepared rules — move hydrogens as counts) *)
Theorem C03_explicitH_no_pairs : forall (ord : list N -> list N) (T : its),
  (forall (k : N) (a : inode), In (k, a) (gnodes T) -> hp_of a = []) -> explicit_h_ord ord T = Some (T, []).
Proof. exact explicit_h_no_pairs. Qed.
Print Assumptions C03_explicitH_no_pairs.

(** a SynRule object applied backwards, TOTAL: nothing raises, every script of reads returns the specified values, and
    its_list is the list of glued graphs (the explicit-hydrogen stage is the identity); with
    C03_its_list_synrule_object_backward every one of them is an instance of the inverted prepared rule *)
Theorem C03_synrule_object_backward_total : forall (implicit_temp : bool) (inp : rin) (tpl rc0 : its) (l0 r0 : molg),
  synrule tpl true = Some (rc0, l0, r0) ->
  i_rule inp = wrap_template_rule true implicit_temp (rc0, l0, r0) ->
  (forall (k : N) (a : inode), In (k, a) (gnodes tpl) -> a_el (iH a) = a_el (iG a)) ->
  wf_rcb tpl = true -> edges_closedb tpl = true ->
  wf_hostb (i_host inp) = true ->
  forallb (call_okm (i_host inp) (fst (its_decompose (invert_template rc0)))) (i_calls inp) = true ->
  nocrash inp /\ (forall ops : list rop, run_ops inp rs0 ops = map (spec_val inp) ops) /\
  spec_its inp = Some (map fst (spec_glued inp)).
Proof. exact synrule_object_backward_total. Qed.
Print Assumptions C03_synrule_object_backward_total.

(** THE IMPLICIT-TEMPLATE MODE, TOTAL — forwards and backwards (the explicit-hydrogen stage is off, so nothing can raise):
    hypotheses on the template (well formed, closed bonds), the substrate and the matcher's contract; every script of reads
    returns the specified values, its_list returns a list, every graph in it is an instance of the (inverted) template and is
    balanced if the template is *)
Theorem C03_implicit_reactor_total : forall (invert : bool) (inp : rin) (tpl : its),
  i_explicit inp = false ->
  i_rule inp = synrule (if invert then invert_template tpl else tpl) false ->
  wf_rcb tpl = true -> edges_closedb tpl = true ->
  wf_hostb (i_host inp) = true ->
  forallb (call_okm (i_host inp) (fst (its_decompose (if invert then invert_template tpl else tpl)))) (i_calls inp) = true ->
  nocrash inp /\
  (forall ops : list rop, run_ops inp rs0 ops = map (spec_val inp) ops) /\
  (exists gs : list its, spec_its inp = Some gs) /\
  (forall (gs : list its) (g : its), spec_its inp = Some gs -> In g gs ->
     instance_of (i_host inp) (if invert then invert_template tpl else tpl) g /\
     (balancedb tpl = true ->
        (forall e : N, elem_count e (fst (its_decompose g)) = elem_count e (snd (its_decompose g))) /\
        total_charge (fst (its_decompose g)) = total_charge (snd (its_decompose g)))).
Proof. exact implicit_reactor_total. Qed.
Print Assumptions C03_implicit_reactor_total.

