From SK Require Import model.C20_Model proof.C20_Proof.
Theorem C20_stub : empty_petri = empty_petri. Proof. exact stub. Qed.
Print Assumptions C20_stub.
