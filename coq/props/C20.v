(** C20 — siphons, traps and pathway realizability match their Petri-net definitions.
    Statements only.  The notions used (siphon, trap, minimal_among, same_set, antichain, weight,
    ordering, realizes, nonneg, markings_along) are defined in proof/C20_Spec.v, [path] (firing
    sequences of a net at the level of marking tuples) in proof/C20_Bfs.v. *)
From Coq Require Import ZArith NArith List Lia Permutation.
Import ListNotations.
From SK Require Import model.C20_Model proof.C20_Spec proof.C20_Siphon proof.C20_Petri proof.C20_Bfs proof.C20_Build proof.C20_Main proof.C20_Hist proof.C20_Analyzer proof.C20_Undirected proof.C20_Order proof.C20_Complete model.C20_Persist proof.C20_PersistProof model.C20_Inputs proof.C20_InputsProof model.C20_RawModel proof.C20_Raw.
Local Open Scope nat_scope.

(** The index predicate [_is_siphon_indices] is the Petri-net definition: for every network over the
    species 0..n-1 and every set X of species indices, evaluated on the bipartite export of the
    network exactly as [find_siphons] calls it. *)
Theorem C20_siphon_pred :
  forall (n : nat) (rs : list rxn) (X : list nat),
  wf_net n rs -> in_range n X ->
  let G := bipartite_of n rs in
  is_siphon_indices G (species_nodes_sorted G) (g_reactions G) X = true <-> siphon rs X.
Proof. exact main_siphon_pred. Qed.
Print Assumptions C20_siphon_pred.

(** Same for [_is_trap_indices]. *)
Theorem C20_trap_pred :
  forall (n : nat) (rs : list rxn) (X : list nat),
  wf_net n rs -> in_range n X ->
  let G := bipartite_of n rs in
  is_trap_indices G (species_nodes_sorted G) (g_reactions G) X = true <-> trap rs X.
Proof. exact main_trap_pred. Qed.
Print Assumptions C20_trap_pred.

(** [_minimal_sets] on ANY candidate list (any order, duplicates allowed) returns exactly the
    inclusion-minimal candidates, each once. *)
Theorem C20_minimal_sets :
  forall (cands : list (list nat)),
  (forall X, In X (minimal_sets cands) ->
     In X cands /\ forall T, In T cands -> incl T X -> incl X T) /\
  (forall X, In X cands -> (forall T, In T cands -> incl T X -> incl X T) ->
     exists X', In X' (minimal_sets cands) /\ same_set X' X) /\
  antichain (minimal_sets cands).
Proof. exact main_minimal_sets. Qed.
Print Assumptions C20_minimal_sets.

(** [find_siphons] on the export of any network with at least one species and one reaction: the reported
    sets are exactly the inclusion-minimal non-empty siphons — minimal among the siphons of EVERY size —
    that have at most max_size members (all of them when max_size is None), each reported once. *)
Theorem C20_find_siphons :
  forall (n : nat) (rs : list rxn) (max_size : option nat),
  wf_net n rs -> n <> 0 -> rs <> [] ->
  exists out, find_siphons (bipartite_of n rs) max_size = Some out /\
    (forall X, In X out ->
       in_range n X /\ length X <= match max_size with None => n | Some k => k end /\
       minimal_among (fun Y => in_range n Y /\ siphon rs Y) X) /\
    (forall Y, NoDup Y -> length Y <= match max_size with None => n | Some k => k end ->
       minimal_among (fun Y => in_range n Y /\ siphon rs Y) Y ->
       exists X, In X out /\ same_set X Y) /\
    antichain out.
Proof. exact main_find_siphons. Qed.
Print Assumptions C20_find_siphons.

(** [find_traps] on the export of any network with at least one species and one reaction: the reported
    sets are exactly the inclusion-minimal non-empty traps — minimal among the traps of EVERY size —
    that have at most max_size members (all of them when max_size is None), each reported once. *)
Theorem C20_find_traps :
  forall (n : nat) (rs : list rxn) (max_size : option nat),
  wf_net n rs -> n <> 0 -> rs <> [] ->
  exists out, find_traps (bipartite_of n rs) max_size = Some out /\
    (forall X, In X out ->
       in_range n X /\ length X <= match max_size with None => n | Some k => k end /\
       minimal_among (fun Y => in_range n Y /\ trap rs Y) X) /\
    (forall Y, NoDup Y -> length Y <= match max_size with None => n | Some k => k end ->
       minimal_among (fun Y => in_range n Y /\ trap rs Y) Y ->
       exists X, In X out /\ same_set X Y) /\
    antichain out.
Proof. exact main_find_traps. Qed.
Print Assumptions C20_find_traps.

(** Firing rule: a transition is enabled exactly when the marking covers its reactants; firing changes
    the marking by products minus reactants at every place; the tuple encoding reads the marking at
    the places in index order. *)
Theorem C20_fire :
  forall (t : transition) (m : dict),
  (enabled_t t m = true <-> forall p w, In (p, w) (t_pre t) -> (w <= get m p)%Z) /\
  (forall p, get (fire_t t m) p = (get m p - weight (t_pre t) p + weight (t_post t) p)%Z) /\
  (forall net i p, nth_error (pn_places net) i = Some p ->
                   nth_error (marking_to_tuple net (fire_t t m)) i = Some (get (fire_t t m) p)).
Proof. exact main_fire. Qed.
Print Assumptions C20_fire.

(** The fuel that makes the [while q] loop structurally recursive is never exhausted. *)
Theorem C20_bfs_fuel_enough :
  forall net target max_states max_depth q visited nen nfire,
  bo_verdict (bfs (S (N.to_nat max_states)) net target max_states max_depth q visited 0 nen nfire)
  <> OutOfFuel.
Proof. exact main_bfs_fuel_enough. Qed.
Print Assumptions C20_bfs_fuel_enough.

(** Soundness of [is_realizable], for every vertex list, edge list, flow and pair of bounds: a returned
    sequence fires each edge exactly flow times, every step is covered by the current marking
    (starting from the zero marking) and the final marking is zero again; with unique species per
    tail (a Python dict) every marking passed through is non-negative. *)
Theorem C20_realizable_sound :
  forall (vertices : list N) (edges : list edge) (flow : list Z) (max_states max_depth : N) (sq : list N),
  bo_verdict (is_realizable (build_petri_net_from_flow vertices edges flow) max_states max_depth) = Found sq ->
  realizes edges flow sq /\
  ((forall e, In e edges -> NoDup (map fst (fst e))) -> Forall nonneg (markings_along edges zero sq)).
Proof. exact main_realizable_sound. Qed.
Print Assumptions C20_realizable_sound.

(** Completeness within the bounds — "no pathway that has such an ordering within the search bounds is reported
    unrealizable" — stated on the pathway itself (round 5; proof/C20_Complete.v).  For every vertex list, edge list, flow and
    pair of bounds: if some ordering fires each edge exactly flow times, covered at every step, back to zero ([realizes]);
    the states (how often each edge has fired, species marking) reachable from (nothing fired, zero) by covered firings that
    never fire an edge more often than its flow are covered by a list [R] of at most max_states elements; and the sum of the
    positive flows ([total_flow]) is at most max_depth — then [is_realizable] returns a sequence (which, by
    [C20_realizable_sound], is such an ordering).  Ingredients: the converse simulation (an ordering of the pathway IS a
    firing sequence of the extended net from M0 to MT), one supply token consumed per firing (so no firing sequence is
    longer than the sum of the positive flows), and a reachable extended marking is determined by (fired counts, species
    marking) — on top of the search-level completeness below. *)
Theorem C20_realizable_complete :
  forall (vertices : list N) (edges : list edge) (flow : list Z) (max_states max_depth : N)
         (R : list (list Z * smarking)),
  (exists sq, realizes edges flow sq) ->
  (forall sq m, ordering edges zero sq m ->
                (forall j, In j sq -> N.to_nat j < length edges) ->
                (forall j, In j sq -> (count j sq <= nth (N.to_nat j) flow 0)%Z) ->
     exists cm, In cm R /\ (forall k, k < length edges -> nth k (fst cm) 0%Z = count (N.of_nat k) sq) /\
                (forall x, snd cm x = m x)) ->
  (N.of_nat (length R) <= max_states)%N ->
  (total_flow edges flow <= Z.of_N max_depth)%Z ->
  exists sq', bo_verdict (is_realizable (build_petri_net_from_flow vertices edges flow) max_states max_depth)
              = Found sq'.
Proof. exact main_realizable_complete. Qed.
Print Assumptions C20_realizable_complete.

(** The search-level form of the same (premises stated on the extended Petri net that the code builds: places = species
    + one supply and one target place per edge): a firing sequence from M0 to MT exists, the markings reachable from M0 fit
    into a list of at most max_states elements, and no firing sequence from M0 is longer than max_depth.  Kept under its
    round-2 name; [C20_realizable_complete] above discharges the three premises from pathway-level ones. *)
Theorem C20_realizable_complete_partial :
  forall (vertices : list N) (edges : list edge) (flow : list Z) (max_states max_depth : N) (R : list tuple),
  let b := build_petri_net_from_flow vertices edges flow in
  let net := b_net b in
  let start := marking_to_tuple net (b_M0 b) in
  let target := marking_to_tuple net (b_MT b) in
  (exists sq, path net start sq target) ->
  (forall s m, path net start s m -> In m R) ->
  (N.of_nat (length R) <= max_states)%N ->
  (forall s m, path net start s m -> (N.of_nat (length s) <= max_depth)%N) ->
  exists sq', bo_verdict (is_realizable b max_states max_depth) = Found sq'.
Proof. exact main_realizable_complete_partial. Qed.
Print Assumptions C20_realizable_complete_partial.


(** Call histories on ONE object ([last_flow], [built_after], [cert_plain], [fresh] are defined in proof/C20_Hist.v: the flow
    loaded after a list of calls, whether a net is built after it, whether the certificate field stems from a plain search
    — i.e. no is_borrow_realizable since the field was last written or cleared —, the state of a fresh object loaded
    with a flow and built or not).  After ANY sequence of is_realizable / is_scaled_realizable / is_borrow_realizable /
    certificate / build_petri_net_from_flow / load_hypergraph_and_flow calls the object holds the flow loaded last, its
    net and markings are exactly those built from that flow (or absent right after a reload) — never a scaled flow's, never
    borrowed tokens —, and a stored certificate of a plain search is a correct firing sequence of that flow. *)
Theorem C20_history_state :
  forall (cf : pr_config) (V : list N) (E : list edge) (flow : list Z) (ops : list pr_op),
  let st := pr_exec cf V E (pr_loaded flow) ops in
  let fl := last_flow flow ops in
  pr_flow st = fl /\
  pr_built st = (if built_after false ops then Some (build_petri_net_from_flow V E fl) else None) /\
  (forall sq, cert_plain true ops = true -> pr_cert st = Some sq ->
     realizes E fl sq /\
     ((forall e, In e E -> NoDup (map fst (fst e))) -> Forall nonneg (markings_along E zero sq))).
Proof. exact main_history_state. Qed.
Print Assumptions C20_history_state.

(** History independence: the answer of every call at every position of every history ([pr_run] is what the
    correspondence evaluates) equals the answer a FRESH object — loaded with the current flow, built iff the
    history has built — gives to the same call, and it leaves the same flow, net and markings behind.
    (The [certificate] property returns the stored field, characterised by [C20_history_state].) *)
Theorem C20_history_independence :
  forall (cf : pr_config) (V : list N) (E : list edge) (flow : list Z) (ops1 : list pr_op) (op : pr_op) (ops2 : list pr_op),
  let st := pr_exec cf V E (pr_loaded flow) ops1 in
  let fr := fresh cf V E (last_flow flow ops1) (built_after false ops1) in
  nth_error (pr_run cf V E (pr_loaded flow) (ops1 ++ op :: ops2)) (length ops1) =
    Some (snd (pr_step cf V E st op), fst (pr_step cf V E st op)) /\
  snd (pr_step cf V E st op) =
    match op with
    | OpCert => ACert (pr_cert st)
    | _ => snd (pr_step cf V E fr op)
    end /\
  pr_flow (fst (pr_step cf V E st op)) = pr_flow (fst (pr_step cf V E fr op)) /\
  pr_built (fst (pr_step cf V E st op)) = pr_built (fst (pr_step cf V E fr op)).
Proof. exact main_history_independence. Qed.
Print Assumptions C20_history_independence.

(** PetriAnalyzer kept while the analysed network object is edited ([last_net], [computed_for] are defined in
    proof/C20_Analyzer.v: the network the analyzer refers to after a list of calls, and the network as it was at the last
    successful compute_siphons_traps()).  After ANY history of compute / read / edit calls the stored siphons and traps
    are exactly find_siphons / find_traps of the network AT THE LAST SUCCESSFUL COMPUTE (nothing before the first one) —
    with [C20_find_siphons] / [C20_find_traps]: exactly its minimal siphons / traps; a compute never keeps or returns an
    earlier result. *)
Theorem C20_analyzer_no_stale :
  forall (k : option nat) (net0 : network) (ops : list an_op),
  let st := an_exec k (AN net0 None None) ops in
  an_net st = last_net net0 ops /\
  match computed_for net0 None ops with
  | None => an_siphons st = None /\ an_traps st = None
  | Some net => an_siphons st = find_siphons (bipartite_of (fst net) (snd net)) k /\
                an_traps st = find_traps (bipartite_of (fst net) (snd net)) k
  end.
Proof. exact main_analyzer_no_stale. Qed.
Print Assumptions C20_analyzer_no_stale.

(** In particular a compute on a network with species and reactions stores the results of the CURRENT network,
    whatever the history before it. *)
Theorem C20_analyzer_compute_current :
  forall (k : option nat) (net0 : network) (ops : list an_op),
  let cur := last_net net0 ops in
  computable cur = true ->
  let st := an_exec k (AN net0 None None) (ops ++ [AnCompute]) in
  an_siphons st = find_siphons (bipartite_of (fst cur) (snd cur)) k /\
  an_traps st = find_traps (bipartite_of (fst cur) (snd cur)) k.
Proof. exact main_analyzer_compute_current. Qed.
Print Assumptions C20_analyzer_compute_current.

(** A read at any position of any history ([an_run] is what the correspondence evaluates) returns the stored fields
    characterised by [C20_analyzer_no_stale]. *)
Theorem C20_analyzer_read :
  forall (k : option nat) (st : an_state) (ops1 ops2 : list an_op),
  nth_error (an_run k st (ops1 ++ AnRead :: ops2)) (length ops1) =
  Some (AnSets (an_siphons (an_exec k st ops1)) (an_traps (an_exec k st ops1))).
Proof. exact main_analyzer_read. Qed.
Print Assumptions C20_analyzer_read.

(** Undirected bipartite inputs (an nx.Graph carrying the same node / edge attributes): _as_bipartite orients every incidence
    by its role, whichever way the undirected edge is stored ([undirected_view]: all reversed) — the graph the siphon / trap code
    then works on IS the directed export, so every theorem above applies to undirected inputs unchanged ([run_net] evaluates
    exactly this composition for the undirected cases). *)
Theorem C20_undirected_input :
  forall (n : nat) (rs : list rxn), wf_net n rs ->
  orient_undirected (undirected_view (bipartite_of n rs)) = bipartite_of n rs.
Proof. exact main_undirected_input. Qed.
Print Assumptions C20_undirected_input.

(** Caller-supplied graphs: whatever order the species nodes were inserted in ([with_species_order order]: the export with its
    species nodes listed in the order [order], any permutation of the ranks), _species_order hands out the same sorted nodes and
    the same sorted labels, and find_siphons / find_traps report exactly what they report for the export — so the theorems
    above hold for such graphs: index i of the checked node set and index i of the reported label are the same species. *)
Theorem C20_species_insertion_order :
  forall (n : nat) (rs : list rxn) (order : list nat) (max_size : option nat),
  Permutation order (seq 0 n) ->
  let G := bipartite_of n rs in
  let G' := with_species_order order G in
  species_nodes_sorted G' = species_nodes_sorted G /\
  species_labels G' = species_labels G /\
  find_siphons G' max_size = find_siphons G max_size /\
  find_traps G' max_size = find_traps G max_size.
Proof. exact main_species_insertion_order. Qed.
Print Assumptions C20_species_insertion_order.

(** siphon_persistence_condition (persistence.py; model coq/model/C20_Persist.v, round 5).  The floating-point P-semiflow basis is
    not modelled: the SUPPORTS of its columns are oracle inputs.  For every list of supports: on the export of a network with species
    and reactions the function answers, and it answers True exactly when every siphon reported by find_siphons — by
    [C20_find_siphons] exactly the inclusion-minimal non-empty siphons with at most max_siphon_size members — contains a
    non-empty support (no siphon: True; no column or only empty supports: False as soon as there is a siphon). *)
Theorem C20_persistence_condition :
  forall (n : nat) (rs : list rxn) (max_size : option nat) (supports : list (list nat)),
  wf_net n rs -> n <> 0 -> rs <> [] ->
  exists sip b, find_siphons (bipartite_of n rs) max_size = Some sip /\
    siphon_persistence_condition (bipartite_of n rs) max_size supports = Some b /\
    (b = true <-> forall S, In S sip -> exists T, In T supports /\ T <> [] /\ incl T S).
Proof. exact persistence_condition_spec. Qed.
Print Assumptions C20_persistence_condition.

(** PetriAnalyzer's persistence field under ANY history of compute_siphons_traps / check_persistence / compute_all / read / edit calls
    on one object ([anp_exec]; [base_ops] projects a history to the calls the base machine of [C20_analyzer_no_stale] sees, [checked_for]
    is the network and the semiflow supports of the last successful check_persistence / compute_all): the siphon / trap fields are
    those of the base machine, and the stored verdict is exactly the verdict for the network AS IT WAS at the last successful check —
    never an earlier one, never one for a network edited since. *)
Theorem C20_analyzer_persistence_no_stale :
  forall (k : option nat) (net0 : network) (ops : list anp_op),
  let st := anp_exec k (ANP (AN net0 None None) None) ops in
  anp_base st = an_exec k (AN net0 None None) (base_ops ops) /\
  anp_persist st = match checked_for net0 None ops with
                   | None => None
                   | Some (net, sup) => siphon_persistence_condition (bipartite_of (fst net) (snd net)) k sup
                   end.
Proof. exact anp_no_stale. Qed.
Print Assumptions C20_analyzer_persistence_no_stale.

(** a read at any position of [anp_run] (what the correspondence evaluates) returns the three stored fields *)
Theorem C20_analyzer_persistence_read :
  forall (k : option nat) (st : anp_state) (ops1 ops2 : list anp_op),
  nth_error (anp_run k st (ops1 ++ PBase AnRead :: ops2)) (length ops1) =
  Some (let s := anp_exec k st ops1 in PRead (an_siphons (anp_base s)) (an_traps (anp_base s)) (anp_persist s)).
Proof. exact anp_read. Qed.
Print Assumptions C20_analyzer_persistence_read.

(** The flow maps on the way into PathwayRealizability (model coq/model/C20_Inputs.v; evaluated by every flow case: the caller's map is
    handed to the model, the defaults are applied there).  Through hypergraph_to_pr_inputs an edge keeps the flow it was GIVEN — also an
    explicit 0 or a negative number — and gets 1 only when the mapping is None or has no entry for it; loaded directly an edge without
    an entry gets 0; entries for unknown edge ids never matter. *)
Theorem C20_flow_defaults :
  forall (nedges : nat) (given : option (list (N * Z))) (flow : list (N * Z)) (k : nat), k < nedges ->
  nth k (flow_via_hg nedges given) 0%Z =
    match given with
    | None => 1%Z
    | Some g => match assocZ (N.of_nat k) g with Some f => f | None => 1%Z end
    end /\
  nth k (flow_direct nedges flow) 0%Z = match assocZ (N.of_nat k) flow with Some f => f | None => 0%Z end /\
  length (flow_via_hg nedges given) = nedges /\ length (flow_direct nedges flow) = nedges.
Proof.
  intros nedges given flow k Hk. split; [exact (flow_via_hg_spec nedges given k Hk)|].
  split; [exact (flow_direct_spec nedges flow k Hk)|exact (flow_lengths nedges given flow)].
Qed.
Print Assumptions C20_flow_defaults.

(** Attribute layer (model coq/model/C20_RawModel.v; every caller-supplied DiGraph of the net cases goes through it, attributes present
    or absent as they are).  The graph the siphon / trap / persistence code works on — hence every predicate value, every reported set
    and the persistence verdict ([run_net_raw]) — depends only on each node's identifier, its two classification tests
    (kind == "species" or bipartite == 0 / kind == "reaction" or bipartite == 1) and its effective label (the label, else str(node)),
    and on each arc's end points, role and effective coefficient (stoich, else 1). *)
Theorem C20_attributes_normalised :
  forall (G G' : rgraph) (k : nat) (cands sup : list (list nat)),
  Forall2 (fun a b => rn_id a = rn_id b /\ species_like a = species_like b /\ reaction_like a = reaction_like b /\
                      label_of a = label_of b) (rg_nodes G) (rg_nodes G') ->
  Forall2 (fun a b => ra_src a = ra_src b /\ ra_dst a = ra_dst b /\ ra_role a = ra_role b /\ eff_stoich a = eff_stoich b)
          (rg_arcs G) (rg_arcs G') ->
  normalise G = normalise G' /\ run_net_raw G k cands sup = run_net_raw G' k cands sup.
Proof.
  intros G G' k cands sup Hn Ha. split; [exact (normalise_eqv G G' Hn Ha)|exact (run_net_raw_eqv G G' k cands sup Hn Ha)].
Qed.
Print Assumptions C20_attributes_normalised.

(** The fully annotated export, with its species nodes inserted in ANY order, normalises to the export of model/C20_Model.v:
    [bipartite_of] in label order, [with_species_order] otherwise — so [C20_siphon_pred] ... [C20_species_insertion_order] apply to
    what the code computes from it, and by [C20_attributes_normalised] from every attribute-equivalent graph (classification by one
    attribute only, labels left to the node ids, coefficients 1 left out). *)
Theorem C20_raw_export_normalised :
  forall (n : nat) (rs : list rxn) (order : list nat),
  normalise (raw_export (seq 0 n) n rs) = bipartite_of n rs /\
  (order <> [] -> normalise (raw_export order n rs) = with_species_order order (bipartite_of n rs)).
Proof.
  intros n rs order. split; [exact (normalise_raw_export_sorted n rs)|exact (normalise_raw_export_order order n rs)].
Qed.
Print Assumptions C20_raw_export_normalised.

(** Undirected inputs at the attribute level (conversion.py:_as_bipartite on an nx.Graph; [orient_raw]: every stored edge is oriented by
    its role, the reaction end found by kind == "reaction" or (kind absent and bipartite == 1)).  For every well-formed network, every
    insertion order of its species nodes and WHICHEVER way the undirected graph stores each edge ([flips]), orienting gives back the
    directed raw export — so [C20_raw_export_normalised] and everything that follows from it covers undirected inputs
    ([run_net_raw_und] evaluates normalise after orient_raw on the graph as networkx stores it). *)
Theorem C20_undirected_raw_input :
  forall (order : list nat) (n : nat) (rs : list rxn) (flips : list bool),
  wf_net n rs -> Forall (fun i => i < n) order ->
  orient_raw (undirected_raw flips (raw_export order n rs)) = raw_export order n rs.
Proof. intros order n rs flips Hwf Ho. exact (orient_undirected_raw order n rs Hwf Ho flips). Qed.
Print Assumptions C20_undirected_raw_input.
