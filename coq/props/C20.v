(** C20 — siphons, traps and pathway realizability match their Petri-net definitions.
    Statements only; proofs are in proof/C20_*.v, definitions of the notions used here
    (siphon, trap, minimal_among, same_set, antichain, weight, ordering, realizes) in proof/C20_Spec.v. *)
From Coq Require Import ZArith NArith List Lia.
Import ListNotations.
From SK Require Import model.C20_Model proof.C20_Spec proof.C20_Siphon proof.C20_Petri proof.C20_Bfs.

(** The index predicates are the Petri-net definitions: for every network over species 0..n-1 and
    every set X of species indices, on the bipartite export of the network. *)
Theorem C20_siphon_pred : forall (n : nat) (rs : list rxn) (X : list nat),
  wf_net n rs -> in_range n X ->
  let G := bipartite_of n rs in
  is_siphon_indices G (species_nodes_sorted G) (g_reactions G) X = true <-> siphon rs X.
Proof. intros n rs X Hwf HX. exact (siphon_pred n rs Hwf X HX). Qed.
Print Assumptions C20_siphon_pred.

Theorem C20_trap_pred : forall (n : nat) (rs : list rxn) (X : list nat),
  wf_net n rs -> in_range n X ->
  let G := bipartite_of n rs in
  is_trap_indices G (species_nodes_sorted G) (g_reactions G) X = true <-> trap rs X.
Proof. intros n rs X Hwf HX. exact (trap_pred n rs Hwf X HX). Qed.
Print Assumptions C20_trap_pred.

(** [_minimal_sets] on ANY candidate list (in any order, duplicates allowed) returns exactly the
    inclusion-minimal candidates, each once. *)
Theorem C20_minimal_sets : forall (cands : list (list nat)),
  (forall X, In X (minimal_sets cands) ->
     In X cands /\ forall T, In T cands -> incl T X -> incl X T) /\
  (forall X, In X cands -> (forall T, In T cands -> incl T X -> incl X T) ->
     exists X', In X' (minimal_sets cands) /\ same_set X' X) /\
  antichain (minimal_sets cands).
Proof.
  intros cands. split; [|split].
  - apply minimal_sets_sound.
  - apply minimal_sets_complete.
  - apply minimal_sets_antichain.
Qed.
Print Assumptions C20_minimal_sets.

(** [find_siphons] / [find_traps] on the export of any network with at least one species and one
    reaction: the reported sets are exactly the inclusion-minimal non-empty siphons (traps) — minimal
    among the siphons of EVERY size — that have at most max_size members (all of them when
    max_size is None), each reported once. *)
Theorem C20_find_siphons : forall (n : nat) (rs : list rxn) (max_size : option nat),
  wf_net n rs -> n <> 0 -> rs <> [] ->
  exists out, find_siphons (bipartite_of n rs) max_size = Some out /\
    (forall X, In X out ->
       in_range n X /\ length X <= match max_size with None => n | Some k => k end /\
       minimal_among (fun Y => in_range n Y /\ siphon rs Y) X) /\
    (forall Y, NoDup Y -> length Y <= match max_size with None => n | Some k => k end ->
       minimal_among (fun Y => in_range n Y /\ siphon rs Y) Y ->
       exists X, In X out /\ same_set X Y) /\
    antichain out.
Proof. intros n rs max_size Hwf Hn Hrs. exact (find_siphons_spec n rs max_size Hwf Hn Hrs). Qed.
Print Assumptions C20_find_siphons.

Theorem C20_find_traps : forall (n : nat) (rs : list rxn) (max_size : option nat),
  wf_net n rs -> n <> 0 -> rs <> [] ->
  exists out, find_traps (bipartite_of n rs) max_size = Some out /\
    (forall X, In X out ->
       in_range n X /\ length X <= match max_size with None => n | Some k => k end /\
       minimal_among (fun Y => in_range n Y /\ trap rs Y) X) /\
    (forall Y, NoDup Y -> length Y <= match max_size with None => n | Some k => k end ->
       minimal_among (fun Y => in_range n Y /\ trap rs Y) Y ->
       exists X, In X out /\ same_set X Y) /\
    antichain out.
Proof. intros n rs max_size Hwf Hn Hrs. exact (find_traps_spec n rs max_size Hwf Hn Hrs). Qed.
Print Assumptions C20_find_traps.

(** Firing rule: a transition is enabled exactly when the marking covers its reactants, and firing
    changes the marking by products minus reactants at every place; the tuple encoding reads the
    marking at the places in index order. *)
Theorem C20_fire : forall (t : transition) (m : dict),
  (enabled_t t m = true <-> forall p w, In (p, w) (t_pre t) -> (w <= get m p)%Z) /\
  (forall p, get (fire_t t m) p = (get m p - weight (t_pre t) p + weight (t_post t) p)%Z) /\
  (forall net i p, nth_error (pn_places net) i = Some p ->
                   nth_error (marking_to_tuple net (fire_t t m)) i = Some (get (fire_t t m) p)).
Proof.
  intros t m. split; [apply enabled_t_spec|split; [apply fire_t_spec|]].
  intros net i p. apply marking_to_tuple_nth.
Qed.
Print Assumptions C20_fire.

(** The fuel that makes the [while q] loop structurally recursive is never exhausted. *)
Theorem C20_bfs_fuel_enough : forall net target max_states max_depth q visited nen nfire,
  bo_verdict (bfs (S (N.to_nat max_states)) net target max_states max_depth q visited 0 nen nfire) <> OutOfFuel.
Proof. intros. apply bfs_fuel; simpl; lia. Qed.
Print Assumptions C20_bfs_fuel_enough.
