From Coq Require Import List NArith ZArith Bool.
From SK Require Import lib.LGraph lib.Mono.
From SK Require model.C06_Model model.C11_Model.
From SK Require Import model.C03_Model model.C05_Model proof.C05_Proof proof.C05_Glue proof.C05_Pipe proof.C05_Prep proof.C05_Comp proof.C05_Main proof.C05_Order proof.C05_Sub proof.C05_Set proof.C05_Result proof.C05_AllStrat proof.C05_PrepOrder proof.C05_Final proof.C05_Default proof.C05_Rewrite proof.C05_Capstone proof.C05_Refuted proof.C05_Cap proof.C05_AnyCap proof.C05_Partial proof.C05_PartialOrder proof.C05_PartialCap proof.C05_Prefilter proof.C05_PrefilterOrder proof.C05_Enum proof.C05_Thms.
From SK Require Import lib.C06_Spec proof.C06_Comp.
From SK Require proof.C11_Dedup.
From Coq Require Import Permutation.
Import ListNotations.

(** Conventions.  [relabel f g] renames the node ids of a list graph by [f] and keeps the insertion order of nodes and
    edges; [inj f] = f is injective; [mv sg pi m] = the match [pi o m o sg^-1] (pairs (p, h) |-> (sg p, pi h)).
    [pi] renumbers the substrate, [sg] renumbers the rule (the template's atom-map numbers ARE its node ids).
    Sections 1-5c are literal equalities of lists / list graphs (renumbering that keeps insertion order); sections 2', 3',
    6 and 7 are about graphs as FUNCTIONS and matches as SETS of pairs (any insertion order).  The vocabulary of the
    latter is written out in [C05_vocabulary].
    VF2 IS INSTANTIATED: [matches] and [rule_auts] call the verified enumerator of lib/Mono.v (node-list order) where the Python
    code calls networkx's VF2 (its own order, same matches by the oracle contract; counts, raw-match multisets and glued
    multisets are compared on every case).  Which representative the pruning keeps depends on that order; section 24 proves
    that the result set does not.
    THE EMBEDDING CAP.  Every definition of the model takes the effective cap of the search engine as a parameter
    ([TH : Thr], [thr_val]; SynReactor(embed_threshold = k) -> find_subgraph_mappings(threshold = k); the default 5000 is
    [thr_of None]), so every theorem below that starts with [forall (TH : Thr)] holds for EVERY cap, the default one and
    any non-default one, zero included.  What the cap itself does is section 14. *)
Theorem C05_vocabulary :
  forall (TH : Thr),
  (forall f, inj f <-> forall a b : N, f a = f b -> a = b) /\
  (forall sg pi (m : mapping), mv sg pi m = map (fun ph => (sg (fst ph), pi (snd ph))) m) /\
  (* the same graph written in another order: same node ids, labels, adjacency *)
  (forall (g g' : hostg), same_graph g g' <->
     (forall u, label g' u = label g u) /\ (forall u v, LGraph.adj g' u v = LGraph.adj g u v) /\
     (forall u, In u (node_ids g) <-> In u (node_ids g')) /\ NoDup (node_ids g) /\ NoDup (node_ids g')) /\
  (* observational equality of two ITS graphs: the same label function and the same adjacency function *)
  (forall (T T' : its), obs_eq T T' <->
     (forall n, label T' n = label T n) /\ (forall a b, LGraph.adj T' a b = LGraph.adj T a b)) /\
  (* what the boolean [side_okb] (evaluated by the correspondence on every writing) guarantees *)
  (forall host p, side_okb host p = true ->
     p_flag p = false /\ gwf (host_c06 host) /\ gwf (pat_c06 (p_pat p)) /\
     (C06_Model.lenN (C06_Model.monos_on (host_c06 host) (pat_c06 (p_pat p))
                        (node_ids (host_c06 host)) (node_ids (pat_c06 (p_pat p)))) <= thr_val)%N /\
     NoDup (node_ids (p_rc p)) /\ simple_edgesb (gedges (p_rc p)) = true /\
     (forall a b x, In (a, b, x) (gedges (p_rc p)) -> In a (node_ids (p_rc p)) /\ In b (node_ids (p_rc p))) /\
     (forall u, In u (node_ids (p_pat p)) -> In u (node_ids (p_rc p)))) /\
  (* [side_okb_c] (what the run function evaluates) = [side_okb] and the component-aware bound of the C06 specification *)
  (forall host p, side_okb_c host p = true ->
     side_okb host p = true /\
     (comp_bound (C06_Model.monos_on (host_c06 host) (pat_c06 (p_pat p))) true (host_c06 host) (pat_c06 (p_pat p)) <= thr_val)%N).
Proof. exact @thm_vocabulary. Qed.
Print Assumptions C05_vocabulary.

(** 1. Gluing is equivariant: the relabelled rule glued onto the relabelled substrate along the transported match is the
    relabelled ITS (and fails exactly when the original fails). *)
Theorem C05_glue_equivariant :
  forall (sg pi : N -> N), inj sg -> inj pi ->
  forall (host : hostg) (rc : its) (m : mapping),
    glue (relabel pi host) (relabel sg rc) (mv sg pi m) = option_map (relabel pi) (glue host rc m).
Proof. exact thm_glue_equivariant. Qed.
Print Assumptions C05_glue_equivariant.

(** 2. Matching is equivariant.  (a) the verified enumerator that stands for VF2 (any labels, induced or not): the match
    list of the relabelled problem is the transported match list, in the same order; (b) the raw matches of every strategy
    (ALL / COMPONENT / BACKTRACK: connected components, per-component enumeration, length sort, back-tracking combination)
    as SynReactor.mappings configures the engine; (c) the automorphisms of the rule used for pruning. *)
Theorem C05_matches_equivariant :
  forall (TH : Thr),
  (forall (A B : Type) (sg pi : N -> N), inj pi ->
   forall (hn : list N) (pl hl pl' hl' : N -> A) (pe he pe' he' : N -> N -> option B)
          (nm : A -> A -> bool) (em : B -> B -> bool) (induced : bool),
     (forall p, pl' (sg p) = pl p) -> (forall h, hl' (pi h) = hl h) ->
     (forall p q, pe' (sg p) (sg q) = pe p q) -> (forall h k, he' (pi h) (pi k) = he h k) ->
     forall pn, monos (map sg pn) (map pi hn) pl' hl' pe' he' nm em induced
                = map (mv sg pi) (monos pn hn pl hl pe he nm em induced)) /\
  (forall (strat : N) (sg pi : N -> N), inj sg -> inj pi ->
   forall (host : hostg) (pat : molg),
     matches strat (relabel pi host) (relabel sg pat) = map (mv sg pi) (matches strat host pat)) /\
  (forall (sg : N -> N), inj sg ->
   forall rc : its, rule_auts (relabel sg rc) = map (mv sg sg) (rule_auts rc)).
Proof. exact @thm_matches_equivariant. Qed.
Print Assumptions C05_matches_equivariant.

(** 3. Strategies, dispatch.  The fallback strategy returns the component-aware result whenever that is non-empty: raw
    matches, kept matches and (pattern without explicit X-H bonds) glued graphs.  When the substrate has fewer
    components than the pattern the component-aware search is the exhaustive search.  On the explicit-hydrogen path the
    re-matching inside _glue_graph uses the strategy again, so the glued-graph clause is stated for patterns without
    explicit X-H bonds.  The inclusion comp <= all is 3' below. *)
Theorem C05_strategy_dispatch :
  forall (TH : Thr),
  (forall host pat, matches 1%N host pat <> [] -> matches 2%N host pat = matches 1%N host pat) /\
  (forall host p, raw_of 1%N host p <> [] -> kept_of 2%N host p = kept_of 1%N host p) /\
  (forall host p, p_flag p = false -> raw_of 1%N host p <> [] -> glued_of 2%N host p = glued_of 1%N host p) /\
  (forall host pat,
     (length (C06_Model.comps (pat_c06 pat)) <> 0)%nat ->
     (length (C06_Model.comps (host_c06 host)) < length (C06_Model.comps (pat_c06 pat)))%nat ->
     matches 1%N host pat = matches 0%N host pat).
Proof. exact @thm_strategy_dispatch. Qed.
Print Assumptions C05_strategy_dispatch.

(** 4. Repetition.  NOT A COVERAGE CLAIM: the statement below is congruence — it holds for every Gallina function — and only
    records that the modelled pipeline has no hidden state BY CONSTRUCTION.  The clause "unchanged when the call is repeated"
    of the property is about the state the IMPLEMENTATION has: it is TESTED (oracle clauses `repeat` and `invariant-sequence`:
    second reads of every lazily computed attribute, several reactors on one template object, histories in both orders in a
    fresh interpreter), and the reactor's lazy caches are modelled as a state machine and proved coherent by C03
    (model/C03_Reactor.v, C03_reads_stable / C03_reads_after_crash), not here. *)
Theorem C05_repeat_trivial :
  forall (TH : Thr),
  forall inv imp ex s (h h' : hostg) (t t' : its),
    h = h' -> t = t' -> pipeline inv imp ex s h t = pipeline inv imp ex s h' t'.
Proof. exact @thm_repeat. Qed.
Print Assumptions C05_repeat_trivial.

(** 5a. The symmetry pruning is equivariant, returns a sub-list of the raw matches in their order, and loses no class:
    every raw match is a kept match, or has the same pairs as one, or is a kept match moved by one of the listed
    automorphisms of the rule. *)
Theorem C05_prune_sound :
  (forall (sg pi : N -> N), inj sg -> inj pi ->
   forall (rc : its) raw, prune (relabel sg rc) (map (mv sg pi) raw) = map (mv sg pi) (prune rc raw)) /\
  (forall rc raw, C11_Dedup.subseq (prune rc raw) raw) /\
  (forall rc raw m, In m raw ->
     exists k, In k (prune rc raw) /\
       (k = m \/ C11_Model.set_eqb m k = true \/
        exists s, In s (rule_auts rc) /\ C11_Model.set_eqb m (C11_Model.act s k) = true)).
Proof. exact thm_prune_sound. Qed.
Print Assumptions C05_prune_sound.

(** 5b. The result list is transported by renumbering.
    FULL CLAUSE (property text): for every strategy, hydrogen mode and direction, if host' is host renumbered by pi with
    any insertion order and tpl' is tpl renumbered by sg with any insertion order, then the results of (host', tpl') are,
    as a set up to isomorphism, the results of (host, tpl); composed with the RDKit contract (isomorphic ITS graphs
    serialise to equal standardised strings; rewritten SMILES parse to isomorphic graphs) this is the invariance of the
    set of distinct reactions.
    PROVED (this theorem): every strategy, prepared rule whose pattern has no explicit X-H bond, renumbering that keeps the
    insertion order — the kept matches, the glued graphs and the result list (without the _explicit_h stage) of the
    renumbered inputs are literally the renumbered ones, one for one and in the same order.  In particular nothing in
    the pipeline looks at the numbers (no tie-break by node id, no anchor by smallest id: the defect repaired by aa7fe3c).
    NOT IN THIS LITERAL FORM: (i) insertion-order changes — the kept representative of a class and the order of the lists
    change; the set-level statements are sections 7 and 8; (ii) the explicit-hydrogen path: new
    hydrogen ids and h_pairs ids are allocated in numeric order, so results are isomorphic, not literally renumbered;
    (iii) the RDKit half.  All three are exercised on every run: the correspondence compares the multiset of glued graphs
    of every writing and strategy with the implementation (whose VF2 order differs from the model's), the oracle
    compares reaction sets across writings. *)
Theorem C05_result_list_equivariant :
  forall (TH : Thr),
  forall (strat : N) (sg pi : N -> N), inj sg -> inj pi ->
  forall (host : hostg) (p : prepared), p_flag p = false ->
    kept_of strat (relabel pi host) (relabel_prep sg p) = map (mv sg pi) (kept_of strat host p) /\
    glued_of strat (relabel pi host) (relabel_prep sg p) = map (relabel pi) (glued_of strat host p) /\
    results_of false strat (relabel pi host) (relabel_prep sg p) = option_map (map (relabel pi)) (results_of false strat host p).
Proof. exact @thm_result_list_equivariant. Qed.
Print Assumptions C05_result_list_equivariant.

(** 5c. End to end from the template (implicit-hydrogen mode: SynReactor(..., implicit_temp=True, explicit_h=False), both
    directions, every strategy, prepared pattern without explicit X-H bonds): rule preparation commutes with the
    renumbering of the template, hence the result list of the renumbered (substrate, template) pair is the renumbered
    result list.  Same restrictions as 5b otherwise. *)
Theorem C05_pipeline_equivariant_implicit :
  forall (TH : Thr),
  forall (strat : N) (sg pi : N -> N), inj sg -> inj pi ->
  forall (inv : bool) (host : hostg) (tpl : its) (p : prepared),
    prepare inv true tpl = Some p -> p_flag p = false ->
    prepare inv true (relabel sg tpl) = Some (relabel_prep sg p) /\
    pipeline inv true false strat (relabel pi host) (relabel sg tpl)
    = option_map (map (relabel pi)) (pipeline inv true false strat host tpl).
Proof. exact @thm_pipeline_equivariant_implicit. Qed.
Print Assumptions C05_pipeline_equivariant_implicit.

(** 2'. Insertion order.  [same_graph g g'] : the same node ids, labels and adjacency, whatever the insertion order of
    nodes and bonds and the orientation of the stored bonds (what a SMILES rewriting changes besides the numbering).
    The SET of raw matches of the exhaustive strategy does not depend on it; with 2(b): under an arbitrary rewriting
    (renumbering pi, then any reordering) every raw match is transported to a raw match of the rewritten substrate.
    (Pattern-side reordering and the other strategies: not proved, see 5b.) *)
Theorem C05_matches_order_independent :
  forall (TH : Thr),
  (forall (host host' : hostg) (pat : molg), same_graph host host' ->
     forall m, In m (matches 0%N host pat) <-> In m (matches 0%N host' pat)) /\
  (forall (sg pi : N -> N), inj sg -> inj pi ->
   forall (host host' : hostg) (pat : molg), same_graph (relabel pi host) host' ->
     forall m, In m (matches 0%N host pat) -> In (mv sg pi m) (matches 0%N host' (relabel sg pat))).
Proof. exact @thm_matches_order_independent. Qed.
Print Assumptions C05_matches_order_independent.

(** 3'. The component-aware strategy returns a subset of the exhaustive strategy: every component-aware match is, as a
    set of pairs (Permutation: the order of the pairs of a match is not observable, Python dicts), an exhaustive match.
    Premises: the matcher's graphs are well formed ([gwf]: distinct node ids, bonds join two different listed atoms —
    part of [side_okb], evaluated on every case) and neither search runs into the embedding cap ([thr_val]: 5000 by
    default; [comp_bound] = the longest list the component-aware search builds; past the cap the engine empties a
    result).  Section 21 removes the premise about the component-aware search.  Derived from the specification theorems
    of proof/C06_*.v (C06_comp_spec, C06_all_exact) instantiated with the reactor's configuration. *)
Theorem C05_strategy_subset :
  forall (TH : Thr),
  forall (host : hostg) (pat : molg),
    gwf (host_c06 host) -> gwf (pat_c06 pat) ->
    (comp_bound (C06_Model.monos_on (host_c06 host) (pat_c06 pat)) true (host_c06 host) (pat_c06 pat) <= thr_val)%N ->
    (C06_Model.lenN (C06_Model.monos_on (host_c06 host) (pat_c06 pat) (node_ids (host_c06 host)) (node_ids (pat_c06 pat)))
       <= thr_val)%N ->
    forall m, In m (matches 1%N host pat) -> exists m', In m' (matches 0%N host pat) /\ Permutation m m'.
Proof. exact @thm_strategy_subset. Qed.
Print Assumptions C05_strategy_subset.

(** 6. The glue does not look at insertion orders, and matches of one pruning class glue to the same ITS.
    (a) two writings of substrate and rule (observationally equal graphs) and two writings of the match (same pairs):
    both glues fail, or both succeed with observationally equal ITS graphs; (b) a match moved by one of the listed
    automorphisms of the rule ([C11_Model.act s k] = the pairs (sigma[p], h)) glues to the same ITS as the match itself —
    this is why pruning by rule automorphisms loses no reaction (clause 4 of C11 at graph level). *)
Theorem C05_glue_order_independent :
  (forall (host host' : hostg) (rc rc' : its) (m m' : mapping),
     obs_eq host host' -> obs_eq rc rc' ->
     simple_edgesb (gedges rc) = true -> simple_edgesb (gedges rc') = true ->
     NoDup (map fst m) -> NoDup (map snd m) -> NoDup (map fst m') -> NoDup (map snd m') ->
     (forall ph, In ph m <-> In ph m') ->
     (forall p h, In (p, h) m -> (exists pn, label rc p = Some pn) /\ (exists hn, label host h = Some hn)) ->
     match glue host rc m, glue host' rc' m' with
     | Some T, Some T' => obs_eq T T'
     | None, None => True
     | _, _ => False
     end) /\
  (forall (rc : its) (s : mapping),
     NoDup (node_ids rc) -> simple_edgesb (gedges rc) = true ->
     (forall a b x, In (a, b, x) (gedges rc) -> In a (node_ids rc) /\ In b (node_ids rc)) ->
     In s (rule_auts rc) ->
     forall (host : hostg) (k : mapping),
       NoDup (map fst k) -> NoDup (map snd k) ->
       (forall p h, In (p, h) k -> (exists pn, label rc p = Some pn) /\ (exists hn, label host h = Some hn)) ->
       match glue host rc k, glue host rc (C11_Model.act s k) with
       | Some T, Some T' => obs_eq T T'
       | None, None => True
       | _, _ => False
       end).
Proof. exact thm_glue_order_independent. Qed.
Print Assumptions C05_glue_order_independent.

(** 7. The result set of the exhaustive strategy is invariant under ARBITRARY rewriting of both inputs: renumbering by
    (sg, pi) followed by any re-ordering of nodes, bonds and bond orientations of substrate, rule graph and pattern.
    The glued ITS graphs of the rewritten inputs are, as a set of observationally equal graphs, exactly the renumbered
    glued ITS graphs of the original: nothing is gained, nothing is lost.  (Pattern without explicit X-H bonds; the
    premises [side_okb] are evaluated by the correspondence on every writing of every case.)
    With the RDKit contract (rewritten SMILES parse to the same graph up to numbering and order; isomorphic ITS graphs
    serialise to equal standardised strings) this is the property's first clause for the exhaustive strategy.
    Every strategy: section 8 (one more premise).  Not covered: the explicit-hydrogen path, the _explicit_h stage, rule
    preparation under re-ordering of the template (under renumbering: 5c). *)
Theorem C05_result_set_invariant_exhaustive :
  forall (TH : Thr),
  forall (sg pi : N -> N), inj sg -> inj pi ->
  forall (host host'' : hostg) (p p'' : prepared),
    side_okb (relabel pi host) (relabel_prep sg p) = true -> side_okb host'' p'' = true ->
    same_graph (relabel pi host) host'' -> same_graph (relabel sg (p_rc p)) (p_rc p'') ->
    same_graph (relabel sg (p_pat p)) (p_pat p'') ->
    (forall T, In T (glued_of 0%N host p) -> exists T'', In T'' (glued_of 0%N host'' p'') /\ obs_eq (relabel pi T) T'') /\
    (forall T'', In T'' (glued_of 0%N host'' p'') -> exists T, In T (glued_of 0%N host p) /\ obs_eq (relabel pi T) T'').
Proof. exact @thm_result_set_invariant_exhaustive. Qed.
Print Assumptions C05_result_set_invariant_exhaustive.

(** 8. C05_result_set_invariant — the clause for EVERY strategy (0 exhaustive, 1 component-aware, 2 fallback), at graph
    level.  FULL CLAUSE (property text): the set of distinct reactions is unchanged when the substrate SMILES is
    rewritten and the template's map numbers are permuted, for all strategies, modes and directions.
    PROVED: for every strategy, every renumbering (sg, pi) and every re-ordering of atoms, bonds and bond orientations
    of substrate, rule graph and pattern, the glued ITS graphs of the rewritten inputs are, as a set of observationally
    equal graphs, exactly the renumbered glued ITS graphs of the original.  Premise per writing: the boolean [side_okb_c] = [side_okb] and
    the longest intermediate list of the component-aware search below the embedding cap (past it the engine
    empties results; exhaustive strategy without this premise: sections 14e, 20, 23); it is evaluated by the correspondence on every writing of every
    case ([run_c05]).
    MISSING for the full clause: (i) the RDKit half — rewritten SMILES parse to [same_graph]s up to numbering, and
    observationally equal ITS graphs serialise to equal standardised strings (oracle contract, monitored by the
    metamorphic oracle on every case); (ii) patterns that keep explicit X-H bonds (re-matching on the hydrogen-expanded
    substrate) and the _explicit_h stage of the default mode: fresh hydrogen ids are allocated in numeric order, the
    statement needs isomorphism instead of renumbering; (iii) rule preparation in the default mode
    (_strip_explicit_h assigns hydrogen-pair ids in numeric order); in implicit-hydrogen mode the statement from the
    TEMPLATE is section 9.  (ii) and (iii) are compared with the implementation on every run (multisets of glued graphs
    per writing and strategy). *)
Theorem C05_result_set_invariant_partial :
  forall (TH : Thr),
  forall (strat : N), strat = 0%N \/ strat = 1%N \/ strat = 2%N ->
  forall (sg pi : N -> N), inj sg -> inj pi ->
  forall (host host'' : hostg) (p p'' : prepared),
    side_okb_c (relabel pi host) (relabel_prep sg p) = true -> side_okb_c host'' p'' = true ->
    same_graph (relabel pi host) host'' -> same_graph (relabel sg (p_rc p)) (p_rc p'') ->
    same_graph (relabel sg (p_pat p)) (p_pat p'') ->
    (forall T, In T (glued_of strat host p) -> exists T'', In T'' (glued_of strat host'' p'') /\ obs_eq (relabel pi T) T'') /\
    (forall T'', In T'' (glued_of strat host'' p'') -> exists T, In T (glued_of strat host p) /\ obs_eq (relabel pi T) T'').
Proof. exact @thm_result_set_invariant_partial. Qed.
Print Assumptions C05_result_set_invariant_partial.

(** 9. From the template, implicit-hydrogen mode (SynReactor(..., implicit_temp=True, explicit_h=False)), both
    directions, every strategy: if the substrate is rewritten (renumbered by pi, any re-ordering) and the template ITS is
    rewritten (map numbers permuted by sg, any re-ordering of its node and edge lists), then the rewritten template is
    prepared into a rule again, both pipelines return their glued graphs, and the two result sets correspond one to one
    up to the renumbering (premises [side_okb_c], as in 8).  Rule preparation
    (its_decompose, typesGH refresh, _invert_template, the explicit X-H test) only depends on the template as a graph. *)
Theorem C05_pipeline_set_invariant_implicit :
  forall (TH : Thr),
  forall (strat : N), strat = 0%N \/ strat = 1%N \/ strat = 2%N ->
  forall (sg pi : N -> N) (inv : bool) (host host'' : hostg) (tpl tpl'' : its) (p : prepared),
    inj sg -> inj pi ->
    prepare inv true tpl = Some p -> p_flag p = false ->
    simple_edgesb (gedges tpl) = true -> simple_edgesb (gedges tpl'') = true ->
    same_graph (relabel pi host) host'' -> same_graph (relabel sg tpl) tpl'' ->
    exists p'', prepare inv true tpl'' = Some p'' /\ p_flag p'' = false /\
      pipeline inv true false strat host tpl = Some (glued_of strat host p) /\
      pipeline inv true false strat host'' tpl'' = Some (glued_of strat host'' p'') /\
      (side_okb_c (relabel pi host) (relabel_prep sg p) = true -> side_okb_c host'' p'' = true ->
       (forall T, In T (glued_of strat host p) -> exists T'', In T'' (glued_of strat host'' p'') /\ obs_eq (relabel pi T) T'') /\
       (forall T'', In T'' (glued_of strat host'' p'') -> exists T, In T (glued_of strat host p) /\ obs_eq (relabel pi T) T'')).
Proof. exact @thm_pipeline_set_invariant_implicit. Qed.
Print Assumptions C05_pipeline_set_invariant_implicit.

(** 3''. The same inclusion for RESULTS: every glued ITS graph of the component-aware strategy, and of the fallback
    strategy, is (up to [obs_eq]) a glued ITS graph of the exhaustive strategy on the same inputs — although the three
    strategies keep different representatives of the pruning classes.  Premise [side_okb_c], evaluated on every writing. *)
Theorem C05_strategy_subset_results :
  forall (TH : Thr),
  forall (host : hostg) (p : prepared), side_okb_c host p = true ->
    (forall T, In T (glued_of 1%N host p) -> exists T', In T' (glued_of 0%N host p) /\ obs_eq T T') /\
    (forall T, In T (glued_of 2%N host p) -> exists T', In T' (glued_of 0%N host p) /\ obs_eq T T').
Proof. exact @thm_strategy_subset_results. Qed.
Print Assumptions C05_strategy_subset_results.

(** 10. The DEFAULT configuration (SynReactor(substrate, template): explicit_h=True, implicit_temp=False), both directions,
    every strategy, for templates WITHOUT hydrogen atoms ([noHb]: no node has element H on either side): rule preparation
    (standardize_hydrogen, its_decompose, _strip_explicit_h, typesGH refresh) is then the pointwise function
    [prep_default] of the template (hydrogen counts reset, empty h_pairs), the pattern has no explicit X-H bond, and the
    _explicit_h stage leaves every glued graph as it is (no hydrogen pair, no migration) — so [pipeline] with the
    _explicit_h stage switched on is the list of glued graphs, and the set-level invariance of section 8 holds from the
    TEMPLATE to its_list: substrate and template renumbered and re-ordered, the two result sets correspond one to one.
    (Templates that write hydrogen changes with explicit H atoms: pair ids and fresh hydrogen ids are allocated in numeric
    order — compared with the implementation on every run, not covered here.) *)
Theorem C05_pipeline_set_invariant_default :
  forall (TH : Thr),
  forall (strat : N), strat = 0%N \/ strat = 1%N \/ strat = 2%N ->
  forall (sg pi : N -> N) (inv : bool) (host host'' : hostg) (tpl tpl'' : its),
    inj sg -> inj pi ->
    (* both writings of the template: distinct ids, simple edge list, no hydrogen atom on either side, no h_pairs *)
    nodupb (node_ids tpl) = true -> noHb tpl = true ->
    (forall k a, In (k, a) (gnodes tpl) -> i_hp a = None \/ i_hp a = Some []) -> simple_edgesb (gedges tpl) = true ->
    nodupb (node_ids tpl'') = true -> noHb tpl'' = true ->
    (forall k a, In (k, a) (gnodes tpl'') -> i_hp a = None \/ i_hp a = Some []) -> simple_edgesb (gedges tpl'') = true ->
    same_graph (relabel pi host) host'' -> same_graph (relabel sg tpl) tpl'' ->
    pipeline inv false true strat host tpl = Some (glued_of strat host (prep_default inv tpl)) /\
    pipeline inv false true strat host'' tpl'' = Some (glued_of strat host'' (prep_default inv tpl'')) /\
    (side_okb_c (relabel pi host) (relabel_prep sg (prep_default inv tpl)) = true -> side_okb_c host'' (prep_default inv tpl'') = true ->
     (forall T, In T (glued_of strat host (prep_default inv tpl)) ->
        exists T'', In T'' (glued_of strat host'' (prep_default inv tpl'')) /\ obs_eq (relabel pi T) T'') /\
     (forall T'', In T'' (glued_of strat host'' (prep_default inv tpl'')) ->
        exists T, In T (glued_of strat host (prep_default inv tpl)) /\ obs_eq (relabel pi T) T'')).
Proof. exact @thm_pipeline_set_invariant_default. Qed.
Print Assumptions C05_pipeline_set_invariant_default.

(** 11. The premise "the second writing is the first one renumbered and re-ordered" of sections 8-10 is checked inside Coq
    on every case: the harness hands over, for every compared writing, the renumberings (pi, sg) it found with networkx
    between the graphs the IMPLEMENTATION parsed from the two writings, and the run function [run_c05w] evaluates
    [rewriting_okb].  This theorem says what a [true] means: both renumberings are injective functions on node ids and the
    writing is [same_graph] to the renumbered base — substrate and template.  (So for every compared writing of every case
    the hypotheses of 9 / 10 other than the well-formedness of the template are established by evaluation, and the RDKit
    contract "a rewritten SMILES parses to the same graph" is checked, not assumed, for that case.) *)
Theorem C05_rewriting_monitor :
  forall (host0 host : hostg) (tpl0 tpl : its) (pi sg : list (N * N)),
    rewriting_okb host0 tpl0 (host, tpl, pi, sg) = true ->
    inj (apply_map pi) /\ inj (apply_map sg) /\
    same_graph (relabel (apply_map pi) host0) host /\ same_graph (relabel (apply_map sg) tpl0) tpl /\
    simple_edgesb (gedges tpl0) = true /\ simple_edgesb (gedges tpl) = true.
Proof. exact thm_rewriting_monitor. Qed.
Print Assumptions C05_rewriting_monitor.

(** 12. CAPSTONES — the statements of 8, 9 and 10 with every premise about the two writings in the form the run function
    evaluates on that very case: [side_okb_c] on the base writing AND on the other writing (the premise on the renumbered
    base of 8-10 follows: the premises are themselves invariant under renumbering), and [rewriting_okb] for "the other
    writing is the base renumbered and re-ordered" (11).  What remains assumed is outside the two writings: for 12b the
    base template is prepared with no explicit X-H bond (an observable of the case), for 12c both templates are
    hydrogen-free with distinct ids (evaluable booleans).
    12a: prepared rules, every strategy. *)
Theorem C05_result_set_invariant_checked :
  forall (TH : Thr),
  forall (strat : N), strat = 0%N \/ strat = 1%N \/ strat = 2%N ->
  forall (sg pi : N -> N), inj sg -> inj pi ->
  forall (host0 host : hostg) (p0 p : prepared),
    side_okb_c host0 p0 = true -> side_okb_c host p = true ->
    same_graph (relabel pi host0) host -> same_graph (relabel sg (p_rc p0)) (p_rc p) -> same_graph (relabel sg (p_pat p0)) (p_pat p) ->
    (forall T, In T (glued_of strat host0 p0) -> exists T', In T' (glued_of strat host p) /\ obs_eq (relabel pi T) T') /\
    (forall T', In T' (glued_of strat host p) -> exists T, In T (glued_of strat host0 p0) /\ obs_eq (relabel pi T) T').
Proof. exact @thm_result_set_invariant_checked. Qed.
Print Assumptions C05_result_set_invariant_checked.

(** 12b: from the template, implicit-hydrogen mode. *)
Theorem C05_pipeline_checked_implicit :
  forall (TH : Thr),
  forall (strat : N), strat = 0%N \/ strat = 1%N \/ strat = 2%N ->
  forall (inv : bool) (host0 host : hostg) (tpl0 tpl : its) (pi sg : list (N * N)) (p0 : prepared),
    rewriting_okb host0 tpl0 (host, tpl, pi, sg) = true ->
    prepare inv true tpl0 = Some p0 -> p_flag p0 = false -> side_okb_c host0 p0 = true ->
    exists p, prepare inv true tpl = Some p /\ p_flag p = false /\
      pipeline inv true false strat host0 tpl0 = Some (glued_of strat host0 p0) /\
      pipeline inv true false strat host tpl = Some (glued_of strat host p) /\
      (side_okb_c host p = true ->
       (forall T, In T (glued_of strat host0 p0) -> exists T', In T' (glued_of strat host p) /\ obs_eq (relabel (apply_map pi) T) T') /\
       (forall T', In T' (glued_of strat host p) -> exists T, In T (glued_of strat host0 p0) /\ obs_eq (relabel (apply_map pi) T) T')).
Proof. exact @thm_pipeline_checked_implicit. Qed.
Print Assumptions C05_pipeline_checked_implicit.

(** 12c: from the template, default configuration, hydrogen-free templates. *)
Theorem C05_pipeline_checked_default :
  forall (TH : Thr),
  forall (strat : N), strat = 0%N \/ strat = 1%N \/ strat = 2%N ->
  forall (inv : bool) (host0 host : hostg) (tpl0 tpl : its) (pi sg : list (N * N)),
    rewriting_okb host0 tpl0 (host, tpl, pi, sg) = true ->
    nodupb (node_ids tpl0) = true -> noHb tpl0 = true -> (forall k a, In (k, a) (gnodes tpl0) -> i_hp a = None \/ i_hp a = Some []) ->
    nodupb (node_ids tpl) = true -> noHb tpl = true -> (forall k a, In (k, a) (gnodes tpl) -> i_hp a = None \/ i_hp a = Some []) ->
    side_okb_c host0 (prep_default inv tpl0) = true -> side_okb_c host (prep_default inv tpl) = true ->
    pipeline inv false true strat host0 tpl0 = Some (glued_of strat host0 (prep_default inv tpl0)) /\
    pipeline inv false true strat host tpl = Some (glued_of strat host (prep_default inv tpl)) /\
    (forall T, In T (glued_of strat host0 (prep_default inv tpl0)) ->
       exists T', In T' (glued_of strat host (prep_default inv tpl)) /\ obs_eq (relabel (apply_map pi) T) T') /\
    (forall T', In T' (glued_of strat host (prep_default inv tpl)) ->
       exists T, In T (glued_of strat host0 (prep_default inv tpl0)) /\ obs_eq (relabel (apply_map pi) T) T').
Proof. exact @thm_pipeline_checked_default. Qed.
Print Assumptions C05_pipeline_checked_default.

(** 13. REFUTED on the explicit-hydrogen path (the code is kept as it is; known finding "explicit-path:bt-equals-comp"):
    "the fallback strategy returns the component-aware result whenever that is non-empty" (3 holds it for patterns without
    explicit X-H bonds).  When the pattern keeps explicit X-H bonds, _glue_graph re-matches the explicit pattern on the
    hydrogen-expanded substrate with the strategy again, so BACKTRACK re-decides its fallback per kept match.  Witness:
    Data/Testcase reaction 47 (centre template, forwards, implicit_temp=True): the component-aware search keeps 3 matches
    and glues 2 graphs, BACKTRACK glues 4. *)
Theorem C05_bt_equals_comp_explicit_path_refuted :
  exists (host : hostg) (p : prepared),
    p_flag p = true /\ @raw_of (thr_of None) 1%N host p <> [] /\
    length (@glued_of (thr_of None) 1%N host p) = 2%nat /\ length (@glued_of (thr_of None) 2%N host p) = 4%nat.
Proof. exact thm_bt_equals_comp_explicit_path_refuted. Qed.
Print Assumptions C05_bt_equals_comp_explicit_path_refuted.

(** 14. The embedding cap.  (a) how the option is read: not given = 5000; [Some 0] is a real cap (not "no cap"); no strategy
    ever returns more embeddings than the cap, and cap 0 empties every search. *)
Theorem C05_embed_threshold_option :
  eff_thr None = 5000%N /\ (forall k, eff_thr (Some k) = k) /\ eff_thr (Some 0%N) = 0%N /\
  (forall o, @thr_val (thr_of o) = eff_thr o) /\
  (forall (TH : Thr) strat host pat, (C06_Model.lenN (matches strat host pat) <= thr_val)%N) /\
  (forall (TH : Thr) strat host pat, thr_val = 0%N -> matches strat host pat = []).
Proof. exact thm_embed_threshold_option. Qed.
Print Assumptions C05_embed_threshold_option.

(** (b) ALL OR NOTHING: under any cap a search answers with its complete, limit-free result or with nothing — never with
    "the first k embeddings in enumeration order", which would depend on how the inputs are written.  [enum_all] = every
    embedding of the pattern (the verified enumerator), [comp_unl] = the limit-free component-aware result of the C06
    specification.  An exhaustive search over the cap produces no match, no glued graph, and [its_list] = []. *)
Theorem C05_cap_all_or_nothing :
  forall (TH : Thr),
  (forall host pat,
     matches 0%N host pat = if (thr_val <? C06_Model.lenN (enum_all host pat))%N then [] else enum_all host pat) /\
  (forall host pat,
     matches 1%N host pat = [] \/
     matches 1%N host pat = C06_Comp.comp_unl (C06_Model.monos_on (host_c06 host) (pat_c06 pat)) true (host_c06 host) (pat_c06 pat)) /\
  (forall host pat,
     matches 2%N host pat = [] \/
     matches 2%N host pat = C06_Comp.comp_unl (C06_Model.monos_on (host_c06 host) (pat_c06 pat)) true (host_c06 host) (pat_c06 pat) \/
     matches 2%N host pat = enum_all host pat) /\
  (forall host p, (thr_val < C06_Model.lenN (enum_all host (p_pat p)))%N ->
     raw_of 0%N host p = [] /\ kept_of 0%N host p = [] /\ glued_of 0%N host p = [] /\
     forall ex, results_of ex 0%N host p = Some []).
Proof. exact thm_cap_all_or_nothing. Qed.
Print Assumptions C05_cap_all_or_nothing.

(** (c) WHICH of the two it is does not depend on the writing: the number of embeddings is the same for every insertion
    order of the substrate, for every renumbering of substrate and pattern, and for ANY rewriting of both (renumbering
    followed by re-ordering of node lists, bond lists and bond orientation of substrate AND pattern; premise: the four
    matcher graphs are well formed, part of [side_okb]) — so a search that is over the cap for one writing is over the
    cap, and empty, for every other writing.  (The bound of the component-aware search: invariant under renumbering,
    [side_okb_c_relabel]; under re-ordering it is evaluated on every writing by the correspondence, not proved.) *)
Theorem C05_cap_decision_invariant :
  (forall (host host' : hostg) (pat : molg), same_graph host host' ->
     C06_Model.lenN (enum_all host' pat) = C06_Model.lenN (enum_all host pat)) /\
  (forall (sg pi : N -> N), inj sg -> inj pi ->
   forall (host host' : hostg) (pat : molg), same_graph (relabel pi host) host' ->
     C06_Model.lenN (enum_all host' (relabel sg pat)) = C06_Model.lenN (enum_all host pat)) /\
  (forall (sg pi : N -> N), inj sg -> inj pi ->
   forall (host host'' : hostg) (pat pat'' : molg),
     same_graph (relabel pi host) host'' -> same_graph (relabel sg pat) pat'' ->
     gwf (host_c06 (relabel pi host)) -> gwf (pat_c06 (relabel sg pat)) -> gwf (host_c06 host'') -> gwf (pat_c06 pat'') ->
     C06_Model.lenN (enum_all host'' pat'') = C06_Model.lenN (enum_all host pat)) /\
  (forall (TH : Thr) (sg pi : N -> N), inj sg -> inj pi ->
   forall (host host'' : hostg) (pat pat'' : molg),
     same_graph (relabel pi host) host'' -> same_graph (relabel sg pat) pat'' ->
     gwf (host_c06 (relabel pi host)) -> gwf (pat_c06 (relabel sg pat)) -> gwf (host_c06 host'') -> gwf (pat_c06 pat'') ->
     (thr_val < C06_Model.lenN (enum_all host pat))%N ->
     matches 0%N host pat = [] /\ matches 0%N host'' pat'' = []).
Proof. exact thm_cap_decision_invariant. Qed.
Print Assumptions C05_cap_decision_invariant.

(** (d) REFUTED under a non-default cap (the code is kept as it is; known finding "capped:comp-subset"): "the
    component-aware strategy returns a subset of the exhaustive strategy" — 3' has the premise "both searches below the
    cap".  Halogen exchange on ClCCBr.ClCCBr: 4 embeddings / 4 glued graphs for the exhaustive search, 2 for the
    component-aware one; with embed_threshold = 3 the documented guard empties the exhaustive result only (and BACKTRACK
    returns the component-aware result). *)
Theorem C05_comp_subset_capped_refuted :
  exists (host : hostg) (p : prepared),
    length (@glued_of (thr_of None) 0%N host p) = 4%nat /\ length (@glued_of (thr_of None) 1%N host p) = 2%nat /\
    p_flag p = false /\ @glued_of (thr_of (Some 3%N)) 0%N host p = [] /\
    length (@glued_of (thr_of (Some 3%N)) 1%N host p) = 2%nat /\
    @glued_of (thr_of (Some 3%N)) 2%N host p = @glued_of (thr_of (Some 3%N)) 1%N host p.
Proof. exact thm_comp_subset_capped_refuted. Qed.
Print Assumptions C05_comp_subset_capped_refuted.

(** (e) The clause of section 7 for EVERY cap, with no premise about the cap: exhaustive strategy, any rewriting of both
    inputs (renumbering by (sg, pi), then any re-ordering of nodes, bonds and bond orientations of substrate, rule graph
    and pattern) — the glued ITS graphs of the two writings correspond one to one up to [obs_eq].  By (b) and (c) both
    searches are over the cap (two empty lists) or both are below it (section 7).  The premise [side_okb0] is [side_okb]
    without "the number of embeddings is at most the cap" (first two clauses: what it guarantees; it follows from the
    monitored [side_okb]); the run function [run_c05t] evaluates it on every compared writing of every case. *)
Theorem C05_result_set_invariant_exhaustive_any_cap :
  (forall host p, side_okb0 host p = true ->
     p_flag p = false /\ gwf (host_c06 host) /\ gwf (pat_c06 (p_pat p)) /\
     NoDup (node_ids (p_rc p)) /\ simple_edgesb (gedges (p_rc p)) = true /\
     (forall a b x, In (a, b, x) (gedges (p_rc p)) -> In a (node_ids (p_rc p)) /\ In b (node_ids (p_rc p))) /\
     (forall u, In u (node_ids (p_pat p)) -> In u (node_ids (p_rc p)))) /\
  (forall (TH : Thr) host p, side_okb host p = true -> side_okb0 host p = true) /\
  (forall (TH : Thr) (sg pi : N -> N), inj sg -> inj pi ->
   forall (host host'' : hostg) (p p'' : prepared),
     side_okb0 (relabel pi host) (relabel_prep sg p) = true -> side_okb0 host'' p'' = true ->
     same_graph (relabel pi host) host'' -> same_graph (relabel sg (p_rc p)) (p_rc p'') ->
     same_graph (relabel sg (p_pat p)) (p_pat p'') ->
     (forall T, In T (glued_of 0%N host p) -> exists T'', In T'' (glued_of 0%N host'' p'') /\ obs_eq (relabel pi T) T'') /\
     (forall T'', In T'' (glued_of 0%N host'' p'') -> exists T, In T (glued_of 0%N host p) /\ obs_eq (relabel pi T) T'')).
Proof. exact thm_result_set_invariant_exhaustive_any_cap. Qed.
Print Assumptions C05_result_set_invariant_exhaustive_any_cap.

(** 15. SynReactor(partial=True): the raw matches of the PartialMatcher engine as the reactor configures it
    ([partial_matches]: connected components of the pattern — [None] = the ValueError for a pattern without components —,
    per-component search with strict_cc_count = False, combinations of k = n, n-1, ..., 1 components in itertools order,
    back-tracking over embeddings that are disjoint in the host, merged mappings) and the matches kept by the symmetry
    pruning are literally the renumbered ones when substrate and rule are renumbered — every strategy, every cap.
    (Gluing a PARTIAL match completes the rule with wildcard atoms: not modelled; the result sets of this option are
    compared across writings by the metamorphic oracle only.  Re-ordering of the inputs: not proved for this engine.) *)
Theorem C05_partial_equivariant :
  forall (TH : Thr) (strat : N) (sg pi : N -> N), inj sg -> inj pi ->
  (forall (host : hostg) (pat : molg),
     partial_matches strat (relabel pi host) (relabel sg pat) = option_map (map (mv sg pi)) (partial_matches strat host pat)) /\
  (forall (host : hostg) (p : prepared),
     partial_matches strat (relabel pi host) (p_pat (relabel_prep sg p))
     = option_map (map (mv sg pi)) (partial_matches strat host (p_pat p)) /\
     forall raw, partial_matches strat host (p_pat p) = Some raw ->
       prune (p_rc (relabel_prep sg p)) (map (mv sg pi) raw) = map (mv sg pi) (prune (p_rc p) raw)).
Proof. exact thm_partial_equivariant. Qed.
Print Assumptions C05_partial_equivariant.

(** 16. REFUTED for the option combination SynReactor(partial=True, embed_threshold=k) (the code is kept as it is; known
    finding "partial-capped:invariant-rewriting"): in partial mode the reactor ALSO turns the cap into a result limit
    max_results = k / 100 ([pmax_of]: the engines test `len(results) >= max_results`, so the effective limit is ceil(k/100)),
    and a result limit keeps the first matches in enumeration order — which ones these are depends on the order in which
    the substrate's atoms are stored.  Witness: thiol dimerisation (centre = the two sulfur atoms) on CCS.CS with
    embed_threshold = 100 (limit 1): stored in the order 1..5 the single match is S2 -> atom 3 (the thiol of CCS), stored
    in reverse order it is S2 -> atom 5 (the thiol of CS); without the option both orders give the same 6 matches.
    (The model enumerates in node-list order, VF2 in its own: the implementation shows the same dependence on the atom
    order of the SMILES — corpus/regress/C05/partial_capped.json.) *)
Theorem C05_partial_capped_order_dependent_refuted :
  exists (host host' : hostg) (pat : molg),
    same_graph host host' /\ gnodes host' <> gnodes host /\
    pmax_of (Some 100%N) = 1%N /\
    @partial_matches (thr_of (Some 100%N)) 0%N host pat = Some [[(2%N, 3%N)]] /\
    @partial_matches (thr_of (Some 100%N)) 0%N host' pat = Some [[(2%N, 5%N)]] /\
    (exists r r', @partial_matches (thr_of None) 0%N host pat = Some r /\ @partial_matches (thr_of None) 0%N host' pat = Some r' /\
                  length r = 6%nat /\ Permutation r r').
Proof. exact thm_partial_capped_order_dependent_refuted. Qed.
Print Assumptions C05_partial_capped_order_dependent_refuted.

(** 17. SynReactor(partial=True), exhaustive strategy, no result limit ([pmax_val = 0]: embed_threshold not given), every cap:
    the SET of raw partial matches does not depend on the insertion order of the substrate's atoms and bonds nor on the
    orientation of the stored bonds (both raise the ValueError, or both return the same set).  Per pattern component the
    exhaustive search lists the same embeddings — or nothing, past the cap, for both writings —, and the combination /
    back-tracking stage depends on these lists only as sets.  With 15 (renumbering): any rewriting of the substrate SMILES.
    (Strategies comp / bt inside the engine, re-ordering of the pattern: compared on every run, not proved.) *)
Theorem C05_partial_matches_order_independent :
  forall (TH : Thr) (host host' : hostg) (pat : molg),
    pmax_val = 0%N -> same_graph host host' ->
    match partial_matches 0%N host pat, partial_matches 0%N host' pat with
    | Some r, Some r' => forall m, In m r <-> In m r'
    | None, None => True
    | _, _ => False
    end.
Proof. exact thm_partial_matches_order_independent. Qed.
Print Assumptions C05_partial_matches_order_independent.

(** 18. SynReactor(embed_pre_filter = True): the first search runs with the cheap pre-filter of find_subgraph_mappings (the
    re-match on the explicit-hydrogen path never does).  [matches_pf pref] / [glued_of_pf pref] are the raw matches and
    glued graphs under the option ([pref = false]: the definitions of the other sections).  The guard can only EMPTY the
    result; its decision (C06's [quick_pre_filter]: some pattern atom without candidate, or the product of the per-atom
    candidate counts above cap * 10000) commutes with every injective renumbering of substrate and pattern, and so do
    the raw matches and the glued graphs under the option — every strategy, every cap.  Re-ordering: section 19. *)
Theorem C05_prefilter_guard :
  forall (TH : Thr),
  (forall strat host pat, matches_pf false strat host pat = matches strat host pat) /\
  (forall strat host pat,
     matches_pf true strat host pat
     = if C06_Model.quick_pre_filter (host_c06 host) (pat_c06 pat) thr_val then [] else matches strat host pat) /\
  (forall strat host p,
     glued_of_pf true strat host p = if prefilter_fires host p then [] else glued_of strat host p) /\
  (forall (sg pi : N -> N), inj sg -> inj pi ->
   forall (H P : C06_Model.graph) thr,
     C06_Model.quick_pre_filter (relabel pi H) (relabel sg P) thr = C06_Model.quick_pre_filter H P thr) /\
  (forall (pref : bool) (strat : N) (sg pi : N -> N), inj sg -> inj pi ->
   forall (host : hostg) (pat : molg),
     matches_pf pref strat (relabel pi host) (relabel sg pat) = map (mv sg pi) (matches_pf pref strat host pat)) /\
  (forall (pref : bool) (strat : N) (sg pi : N -> N), inj sg -> inj pi ->
   forall (host : hostg) (p : prepared), p_flag p = false ->
     glued_of_pf pref strat (relabel pi host) (relabel_prep sg p) = map (relabel pi) (glued_of_pf pref strat host p)).
Proof. exact thm_prefilter. Qed.
Print Assumptions C05_prefilter_guard.

(** 19. The decision of the pre-filter does not depend on how substrate and pattern are WRITTEN (any insertion order of atoms
    and bonds, any orientation of the stored bonds): the loop multiplies the per-atom candidate counts in the order of
    the pattern's atoms and leaves early, yet its outcome is a function of the multiset of counts ("some count is zero,
    or the whole product exceeds cap * 10000"), each count is a number of substrate atoms with a property of labels and
    degrees, and the degree of an atom is the number of its neighbours whatever the order of a simple bond list
    (premise [wfb]: distinct atoms, simple bond list — C06_input_premise_monitor).  So when the guard fires for one
    writing it fires, and empties the result, for every other writing — every strategy, every cap. *)
Theorem C05_prefilter_decision_invariant :
  forall (TH : Thr) (host host' : hostg) (p p' : prepared),
    same_graph host host' -> same_graph (p_pat p) (p_pat p') ->
    C06_Model.wfb (host_c06 host) = true -> C06_Model.wfb (host_c06 host') = true ->
    C06_Model.wfb (pat_c06 (p_pat p)) = true -> C06_Model.wfb (pat_c06 (p_pat p')) = true ->
    prefilter_fires host' p' = prefilter_fires host p /\
    (forall strat, p_flag p = false -> p_flag p' = false ->
       prefilter_fires host p = true -> glued_of_pf true strat host p = [] /\ glued_of_pf true strat host' p' = []).
Proof. exact thm_prefilter_decision_invariant. Qed.
Print Assumptions C05_prefilter_decision_invariant.

(** 20. The first clause of the property for the exhaustive strategy at graph level, for EVERY configuration of the two guards:
    any embedding cap ([TH]) and the pre-filter on or off ([pref]) — substrate and rule renumbered by (sg, pi) and re-ordered
    in any way (nodes, bonds, bond orientations of substrate, rule graph and pattern): the glued ITS graphs of the two writings
    correspond one to one up to [obs_eq].  No premise about the cap or the guard: by 14 and 19 both writings are stopped by the
    same guard (two empty lists) or by none (section 7).  Premises: [side_okb0] (14e) and [wfb] (19), evaluated per writing. *)
Theorem C05_result_set_invariant_exhaustive_any_options :
  forall (TH : Thr) (pref : bool) (sg pi : N -> N), inj sg -> inj pi ->
  forall (host host'' : hostg) (p p'' : prepared),
    side_okb0 (relabel pi host) (relabel_prep sg p) = true -> side_okb0 host'' p'' = true ->
    C06_Model.wfb (host_c06 (relabel pi host)) = true -> C06_Model.wfb (host_c06 host'') = true ->
    C06_Model.wfb (pat_c06 (p_pat (relabel_prep sg p))) = true -> C06_Model.wfb (pat_c06 (p_pat p'')) = true ->
    same_graph (relabel pi host) host'' -> same_graph (relabel sg (p_rc p)) (p_rc p'') ->
    same_graph (relabel sg (p_pat p)) (p_pat p'') ->
    (forall T, In T (glued_of_pf pref 0%N host p) -> exists T'', In T'' (glued_of_pf pref 0%N host'' p'') /\ obs_eq (relabel pi T) T'') /\
    (forall T'', In T'' (glued_of_pf pref 0%N host'' p'') -> exists T, In T (glued_of_pf pref 0%N host p) /\ obs_eq (relabel pi T) T'').
Proof. exact thm_result_set_invariant_exhaustive_any_options. Qed.
Print Assumptions C05_result_set_invariant_exhaustive_any_options.

(** 21. 3' under every cap, with the weakest possible premise: the component-aware strategy AND the fallback strategy return
    subsets of the exhaustive strategy whenever the EXHAUSTIVE search is not over the cap — nothing is asked of the
    component-aware search (under a cap it returns its limit-free result or nothing, 14b).  13' / 14d show that the premise
    cannot be dropped: it is exactly the known finding "capped:comp-subset". *)
Theorem C05_strategy_subset_any_cap :
  forall (TH : Thr) (host : hostg) (pat : molg),
    gwf (host_c06 host) -> gwf (pat_c06 pat) ->
    (C06_Model.lenN (enum_all host pat) <= thr_val)%N ->
    (forall m, In m (matches 1%N host pat) -> exists m', In m' (matches 0%N host pat) /\ Permutation m m') /\
    (forall m, In m (matches 2%N host pat) -> exists m', In m' (matches 0%N host pat) /\ Permutation m m').
Proof. exact thm_strategy_subset_any_cap. Qed.
Print Assumptions C05_strategy_subset_any_cap.

(** 22. 3'' with the weaker premise: every glued ITS graph of the component-aware and of the fallback strategy is, up to
    [obs_eq], a glued ITS graph of the exhaustive strategy whenever the EXHAUSTIVE search is not capped ([side_okb] instead
    of [side_okb_c]: nothing is asked of the component-aware search).  Proved by changing the cap — every theorem holds
    for every cap: under the larger cap max(cap, bound of the component-aware search) 3'' applies, the exhaustive result
    is the same under both caps, and the component-aware / fallback result under the smaller cap is empty or a result
    under the larger one (14b). *)
Theorem C05_strategy_subset_results_any_cap :
  forall (TH : Thr) (host : hostg) (p : prepared), side_okb host p = true ->
    (forall T, In T (glued_of 1%N host p) -> exists T', In T' (glued_of 0%N host p) /\ obs_eq T T') /\
    (forall T, In T (glued_of 2%N host p) -> exists T', In T' (glued_of 0%N host p) /\ obs_eq T T').
Proof. exact thm_strategy_subset_results_any_cap. Qed.
Print Assumptions C05_strategy_subset_results_any_cap.

(** 23. CAPSTONE of 20: the same statement with every premise about the two writings in the form the run function [run_c05t]
    evaluates on each compared writing of each case ([okb0_of] = [side_okb0] and [wfb] of the two matcher graphs, on the base
    writing and on the other writing — the premises are invariant under renumbering, [side_ok0_relabel], [wf_relabel]). *)
Theorem C05_result_set_invariant_exhaustive_any_options_checked :
  forall (TH : Thr) (pref : bool) (sg pi : N -> N), inj sg -> inj pi ->
  forall (host0 host : hostg) (p0 p : prepared),
    side_okb0 host0 p0 = true -> side_okb0 host p = true ->
    C06_Model.wfb (host_c06 host0) = true -> C06_Model.wfb (host_c06 host) = true ->
    C06_Model.wfb (pat_c06 (p_pat p0)) = true -> C06_Model.wfb (pat_c06 (p_pat p)) = true ->
    same_graph (relabel pi host0) host -> same_graph (relabel sg (p_rc p0)) (p_rc p) -> same_graph (relabel sg (p_pat p0)) (p_pat p) ->
    (forall T, In T (glued_of_pf pref 0%N host0 p0) -> exists T', In T' (glued_of_pf pref 0%N host p) /\ obs_eq (relabel pi T) T') /\
    (forall T', In T' (glued_of_pf pref 0%N host p) -> exists T, In T (glued_of_pf pref 0%N host0 p0) /\ obs_eq (relabel pi T) T').
Proof. exact thm_result_set_invariant_exhaustive_any_options_checked. Qed.
Print Assumptions C05_result_set_invariant_exhaustive_any_options_checked.

(** 24. The result set does not depend on the ENUMERATION ORDER of the matcher (the model's enumerator lists matches in node-list
    order, VF2 in its own, and writes each match as a dict with its own item order; the pruning keeps the FIRST match of
    every class).  For any two listings of the same matches — any order of the list, any order of the pairs inside a match,
    repetitions allowed — the graphs glued from the KEPT matches correspond one to one up to [obs_eq] (first two clauses:
    [glue1], the general statement).  Third clause: the pipeline's glued graphs are exactly these (pattern without explicit
    X-H bonds).  Fourth: for a writing that satisfies [side_okb], any other listing of its exhaustive raw matches — VF2's —
    gives the same result set, both inclusions.  (Scope: the fourth clause is about the exhaustive strategy; for the
    component-aware / fallback strategies the raw list is assembled from several enumerations — per-component lists, length
    sort, back-tracking — so the general clauses apply: independence of the kept set GIVEN the raw list.) *)
Theorem C05_result_set_independent_of_enumeration :
  (forall host rc m, glue1 host rc m = match glue host rc m with Some T => [T] | None => [] end) /\
  (forall (host : hostg) (rc : its) (raw raw' : list mapping),
     NoDup (node_ids rc) -> simple_edgesb (gedges rc) = true ->
     (forall a b x, In (a, b, x) (gedges rc) -> In a (node_ids rc) /\ In b (node_ids rc)) ->
     (forall m, In m raw -> NoDup (map fst m) /\ NoDup (map snd m) /\
        forall q h, In (q, h) m -> (exists pn, label rc q = Some pn) /\ (exists hn, label host h = Some hn)) ->
     (forall m, In m raw' -> NoDup (map fst m) /\ NoDup (map snd m) /\
        forall q h, In (q, h) m -> (exists pn, label rc q = Some pn) /\ (exists hn, label host h = Some hn)) ->
     (forall m, In m raw -> exists m', In m' raw' /\ forall ph, In ph m <-> In ph m') ->
     (forall m', In m' raw' -> exists m, In m raw /\ forall ph, In ph m' <-> In ph m) ->
     forall T, In T (flat_map (glue1 host rc) (prune rc raw)) ->
       exists T', In T' (flat_map (glue1 host rc) (prune rc raw')) /\ obs_eq T T') /\
  (forall (TH : Thr) strat host p, p_flag p = false ->
     glued_of strat host p = flat_map (glue1 host (p_rc p)) (prune (p_rc p) (raw_of strat host p))) /\
  (forall (TH : Thr) (host : hostg) (p : prepared) (raw' : list mapping),
     side_okb host p = true ->
     (forall m, In m (raw_of 0%N host p) -> exists m', In m' raw' /\ forall ph, In ph m <-> In ph m') ->
     (forall m', In m' raw' -> exists m, In m (raw_of 0%N host p) /\ forall ph, In ph m' <-> In ph m) ->
     (forall m, In m raw' -> NoDup (map fst m) /\ NoDup (map snd m)) ->
     (forall T, In T (glued_of 0%N host p) ->
        exists T', In T' (flat_map (glue1 host (p_rc p)) (prune (p_rc p) raw')) /\ obs_eq T T') /\
     (forall T', In T' (flat_map (glue1 host (p_rc p)) (prune (p_rc p) raw')) ->
        exists T, In T (glued_of 0%N host p) /\ obs_eq T' T)).
Proof. exact thm_result_set_independent_of_enumeration. Qed.
Print Assumptions C05_result_set_independent_of_enumeration.
