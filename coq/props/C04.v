(** C04 — applying a reaction's own template regenerates it, forwards and backwards.
    Statements only; every proof is [exact <lemma of proof/C04_*.v>].

    Vocabulary (model/C04_Model.v; rule application from model/C03_Model.v): a reaction is the pair (G, H) of its parsed
    reactant and product graphs (node ids = atom maps).  [its_construct G H] = rsmi_to_its, [get_rc] = the centre,
    [template core invert G H] = the template handed to the reactor (centre | full ITS, inverted when applied backwards),
    [mode_E G H] = the hydrogen mode the reaction calls for (explicit centre hydrogens -> default mode),
    [rule_of] = the SynRule the reactor builds, [pattern_of l] = the pattern given to the matcher,
    [substrate invert G H] = the own reactants (products, backwards) with implicit hydrogens,
    [id_map ns] = the identity mapping, [match_okb] / [match_rcb] = what the matcher's node/edge predicates demand of a
    mapping (on the pattern / on the rule), [regenerate] = _glue_graph along the identity (+ _explicit_h in mode E),
    [regen_exact T A B] = the decomposition of T is (A, B): same atoms with the same element, hydrogen count and charge
    and the same bonds with the same orders (the aromatic flag and 'neighbors' are not compared: the gluing copies them
    from the substrate and RDKit re-perceives them), [centre_carries T] = no atom outside the centre changes charge or
    hydrogen count, [consistent_H T] = the precondition "all centre hydrogens explicit, or none".
    Hypotheses, all booleans evaluated by [run_c04] on every correspondence case: [pair_wfb G H] (both graphs simple
    with positive orders, same atoms, same elements: balanced and mapped) and [no_explicit_H G] (the "none explicit"
    branch of the precondition: every implicit-mode reaction of the corpora has no hydrogen atom at all).

    Map of the file (41 theorems).  Implicit mode, identity match: C04_consistent_H, C04_identity_match, C04_identity_glue,
    C04_centre_refuted / C04_centre_exact (what a centre cannot express: the 114 known findings).  Any rule in either mode:
    C04_identity_glue_any_rule(_symmetric).  Default mode: C04_identity_glue_default, C04_identity_match_default,
    C04_explicit_h_keeps_reaction, C04_explicit_h_total_criterion, C04_any_match_explicit_h_total, C04_identity_default_end(_total).
    Engine (C06) and pruning (C11): C04_identity_among_raw, C04_pruned_results, C04_canonical_codes_faithful,
    C04_engine_match_is_rule_match, C04_in_results_partial / _symmetric (any kept list).  The reactor OBJECT: C04_in_results_engine_partial
    (implicit), C04_in_results_engine_default (default; _default_partial is its earlier form with one more premise),
    C04_in_results_verified_{implicit,default} (no VF2 premise), C04_smarts_contains, C04_reads_coherent, C04_stale_after_crash,
    C04_reverse_reaction.  Strategies comp / bt: C04_comp_bt_refuted, C04_{comp,bt}_regenerates_partial, C04_separating_boolean,
    C04_own_{comp,bt}_{implicit,default}(_object).
    NOT covered by a theorem (correspondence + oracle only, see TESTED_NOT_PROVED in harness/props/C04.py): the H2 / H+ explicit
    re-match path of the default mode; RDKit parsing / serialisation and Standardize.fit. *)
From Coq Require Import List NArith ZArith Bool Permutation.
From SK Require Import lib.Mono model.C06_Model lib.C06_Spec proof.C06_Comp model.C11_Model.
From SK Require Import model.C03_Order.
From SK Require Import lib.Tok lib.LGraph model.C03_Model model.C04_Model model.C04_Reactor proof.C04_Any proof.C04_Check proof.C04_Proof proof.C04_DefaultProof proof.C04_Engine proof.C04_Prune proof.C04_Examples proof.C04_Object proof.C04_Chain proof.C04_Glue proof.C04_Template proof.C04_Fold proof.C04_Default proof.C04_Explicit proof.C04_DefaultEnd proof.C04_DefaultChain proof.C04_CompBt proof.C03_Spec proof.C04_Total proof.C04_TotalDefault proof.C04_TotalEnd proof.C04_TotalAny proof.C04_MonoMatch proof.C04_DefaultChainTotal proof.C04_DefaultNonneg proof.C04_Verified proof.C04_CompBtObject proof.C04_CompBtDefault proof.C04_TotalExamples proof.C04_ObjectExamples.
Import ListNotations.
Local Open Scope Z_scope.

(** the precondition is decided by a boolean function of the ITS; a reaction written without hydrogen atoms satisfies
    it and calls for the implicit mode *)
Theorem C04_consistent_H : forall G H : hostg,
  pair_wfb G H = true -> no_explicit_H G = true ->
  consistent_H (its_construct G H) = true /\ mode_E G H = false.
Proof. exact consistent_and_mode. Qed.
Print Assumptions C04_consistent_H.

(** the identity is a valid match of the prepared pattern of the own template on the own substrate -- centre or full
    ITS, forwards or backwards, with NO condition on the centre *)
Theorem C04_identity_match : forall (core invert : bool) (G H : hostg),
  pair_wfb G H = true -> no_explicit_H G = true ->
  exists (rc : its) (l r : molg), rule_of core invert G H = Some (rc, l, r) /\
    match_okb (substrate invert G H) (pattern_of l) (id_map (node_ids (pattern_of l))) = true /\
    match_rcb (substrate invert G H) rc (id_map (node_ids (pattern_of l))) = true.
Proof. exact identity_match. Qed.
Print Assumptions C04_identity_match.

(** gluing along the identity gives an ITS whose decomposition is the reaction again: always for the full ITS, and
    for the centre whenever it carries every change; backwards the products are taken to the reactants *)
Theorem C04_identity_glue : forall (core invert : bool) (G H : hostg),
  pair_wfb G H = true -> no_explicit_H G = true ->
  (core = true -> centre_carries (its_construct G H) = true) ->
  exists T : its, regenerate core invert G H = Some T /\
    regen_exact T (if invert then H else G) (if invert then G else H) = true.
Proof. exact identity_glue. Qed.
Print Assumptions C04_identity_glue.

(** the condition on the centre cannot be dropped: a reaction inside the precondition whose own centre template, glued
    along the identity, does NOT give the reaction back (water + ammonia -> hydroxide + ammonium; known findings
    *:centre:*:outside-centre-change) *)
Theorem C04_centre_refuted : exists G H : hostg,
  pair_wfb G H = true /\ no_explicit_H G = true /\ consistent_H (its_construct G H) = true /\
  centre_carries (its_construct G H) = false /\
  exists T : its, regenerate true false G H = Some T /\ regen_exact T G H = false /\ regen_folded T G H = false.
Proof. exact centre_refuted. Qed.
Print Assumptions C04_centre_refuted.

(** ... and it is exact: whenever some atom outside the centre changes hydrogen count or charge, the centre template
    glued along the identity does NOT give the reaction back, forwards or backwards (the general form of the 114
    known findings *:centre:*:outside-centre-change: not a defect of the gluing but of what a centre can express) *)
Theorem C04_centre_exact : forall (invert : bool) (G H : hostg),
  pair_wfb G H = true -> no_explicit_H G = true ->
  centre_carries (its_construct G H) = false ->
  exists T : its, regenerate true invert G H = Some T /\
    regen_exact T (if invert then H else G) (if invert then G else H) = false.
Proof. exact centre_exact_all. Qed.
Print Assumptions C04_centre_exact.

(** the gluing half for ANY rule and BOTH hydrogen modes: whenever the rule the reactor prepared describes the pair
    (A, B) = (substrate, other side with implicit hydrogens) -- the boolean [describesb], evaluated by [run_c04] on
    every correspondence case and recomputed independently by the harness -- the identity is a valid match and the
    glued ITS decomposes to (A, B).  In implicit mode the premise is PROVED from the precondition
    (C04_identity_glue); in the default mode (rule prepared by _strip_explicit_h) it is validated per case, and the
    result is the ITS BEFORE _explicit_h re-materialises the migrating hydrogens. *)
Theorem C04_identity_glue_any_rule : forall (A B : hostg) (rc : its),
  pair_wfb A B = true -> describesb A B rc = true ->
  match_rcb A rc (id_map (node_ids rc)) = true /\
  exists T : its, glue A rc (id_map (node_ids rc)) = Some T /\ regen_exact T A B = true.
Proof. exact glue_any_rule. Qed.
Print Assumptions C04_identity_glue_any_rule.

(** ... and so does the identity composed with any symmetry of that rule ([rule_aut rc s s']: a bijection of the rule's
    atoms with inverse [s'] preserving both tuples of every atom and the label of every bond; [aut_map rc s] sends
    pattern atom n to substrate atom s n): what the pruning by rule automorphisms may keep instead of the identity *)
Theorem C04_identity_glue_any_rule_symmetric : forall (A B : hostg) (rc : its) (s s' : N -> N),
  pair_wfb A B = true -> describesb A B rc = true -> rule_aut rc s s' ->
  match_rcb A rc (aut_map rc s) = true /\
  exists T : its, glue A rc (aut_map rc s) = Some T /\ regen_exact T A B = true.
Proof. exact glue_any_rule_symmetric. Qed.
Print Assumptions C04_identity_glue_any_rule_symmetric.

(** DEFAULT (explicit-hydrogen) mode, the "all centre hydrogens explicit" branch of the precondition, for the reaction's
    own templates -- centre or full ITS, forwards or backwards.  [default_okb A B tpl] is the boolean form of that way of
    writing (evaluated by [run_c04] on every case and recomputed by the harness): no atom changes its implicit hydrogen
    count and no count is negative; every hydrogen atom is bonded on both sides, and only to non-hydrogen atoms; if it
    is a template atom it is there with all its bonds (otherwise it is a spectator) and _strip_explicit_h can remove it (non-hydrogen neighbour on both template sides:
    excludes H2, H+).  Then: the reactor's rule exists (SynRule.__init__ with implicit_h=True never fails here), the
    matcher's pattern is its left side, the identity is a valid match on the substrate (own side with implicit
    hydrogens), and the glued ITS decomposes to the pair of implicit-hydrogen forms of the reaction's two sides.  This is
    the ITS BEFORE _explicit_h re-materialises the migrating hydrogens; that last stage is covered by the correspondence
    (C03 proves its bookkeeping).  The characterisation of _strip_explicit_h used here is C03's (proof/C03_StripCor.v). *)
Theorem C04_identity_glue_default : forall (core invert : bool) (G H : hostg),
  pair_wfb G H = true -> mode_E G H = true ->
  default_okb (if invert then H else G) (if invert then G else H) (template core invert G H) = true ->
  (core = true -> centre_carries (its_construct G H) = true) ->
  exists (rc : its) (l r : molg), rule_of core invert G H = Some (rc, l, r) /\ pattern_of l = l /\
    match_rcb (substrate invert G H) rc (id_map (node_ids (pattern_of l))) = true /\
    exists T : its, glue (substrate invert G H) rc (id_map (node_ids (pattern_of l))) = Some T /\
      regen_exact T (substrate invert G H) (h_to_implicit_host (if invert then G else H)) = true.
Proof. exact default_identity_glue_all. Qed.
Print Assumptions C04_identity_glue_default.

(** PARTIAL.  Full clause wanted: the reaction is among the reactor's results.  Proved: for ANY list of mappings the
    pruning keeps, if it contains the identity then its_list contains an ITS that decomposes to the reaction.  Missing
    (tested by the oracle on every run): (i) the matcher returns the identity among the raw matches -- by
    C04_identity_match it is a valid match, completeness of the engine is C06; (ii) the pruning by rule automorphisms
    keeps the identity or a match gluing to the same ITS (C11 clause 4); (iii) RDKit serialises the ITS to a reaction
    that Standardize.fit maps to the standardised input. *)
Theorem C04_in_results_partial : forall (core invert : bool) (G H : hostg) (kept : list mapping),
  pair_wfb G H = true -> no_explicit_H G = true ->
  (core = true -> centre_carries (its_construct G H) = true) ->
  In (identity core invert G H) kept ->
  exists T : its, In (Some T) (its_list core invert G H kept) /\
    regen_exact T (if invert then H else G) (if invert then G else H) = true.
Proof. exact in_results_partial_all. Qed.
Print Assumptions C04_in_results_partial.

(** PARTIAL, one premise closer: the pruning premise in exactly the form C11 proves it (C11_prune_complete_aut: every raw
    match is a kept match composed with a label-preserving automorphism of the rule centre): if the kept list contains
    the identity composed with a symmetry of the rule, its_list contains an ITS that decomposes to the reaction.  Still
    premises: the identity is among the raw matches (C04_identity_match + completeness of the engine, C06_all_exact /
    C06_comp_spec / C06_bt_spec, whose graphs and mappings live in another model: the translation of [match_okb] into
    C06's [is_mono] and of [rule_aut] into C11's [is_automorphism] is not written), and RDKit serialisation. *)
Theorem C04_in_results_symmetric : forall (core invert : bool) (G H : hostg) (s s' : N -> N) (kept : list mapping),
  pair_wfb G H = true -> no_explicit_H G = true ->
  (core = true -> centre_carries (its_construct G H) = true) ->
  rule_aut (template core invert G H) s s' -> In (aut_map (template core invert G H) s) kept ->
  exists T : its, In (Some T) (its_list core invert G H kept) /\
    regen_exact T (if invert then H else G) (if invert then G else H) = true.
Proof. exact in_results_symmetric_all. Qed.
Print Assumptions C04_in_results_symmetric.

(** first premise of the two theorems above, for strategy ALL: the identity IS among the raw matches.  [tr_host] /
    [tr_pat] translate substrate and pattern into the graphs of the search-engine model (model/C06_Model.v: node label =
    codes of element and charge + hydrogen count, edge label = code of the order, as the reactor selects them);
    [C06_Model.find enum (Cfg 0 0 T strict false)] is the exhaustive strategy without result limit; [vf2_contract] is
    C06's contract for the one VF2 enumeration call it makes (sound, complete, duplicate-free; monitored by C06's check,
    and met by the verified enumerator, C06_enumerator_meets_contract).  Proof: C04_identity_match + translation of
    [match_okb] into C06's [is_mono] + C06's all_exact.  The conclusion compares mappings as sets of pairs
    ([Permutation]), as Python dicts are.  (comp / bt: comp keeps only matches that put different pattern components
    into different substrate components and has the strict_cc_count guard, so it does not contain the identity in
    general; bt = comp or, if that is empty, all.) *)
Theorem C04_identity_among_raw : forall (core invert : bool) (G H : hostg)
    (enum : list N -> list N -> list C06_Model.mapping) (T : N) (strict : bool) (rc : its) (l r : molg),
  pair_wfb G H = true -> no_explicit_H G = true ->
  rule_of core invert G H = Some (rc, l, r) ->
  forallb (fun p => 0 <=? m_hc (snd p)) (gnodes (pattern_of l)) = true ->
  vf2_contract enum (tr_host (substrate invert G H)) (tr_pat (pattern_of l))
               (node_ids (tr_host (substrate invert G H))) (node_ids (tr_pat (pattern_of l))) ->
  (lenN (enum (node_ids (tr_host (substrate invert G H))) (node_ids (tr_pat (pattern_of l)))) <= T)%N ->
  exists m', In m' (C06_Model.find enum (Cfg 0 0 T strict false) (tr_host (substrate invert G H)) (tr_pat (pattern_of l))) /\
             Permutation (id_map (node_ids (pattern_of l))) m'.
Proof. exact identity_among_raw. Qed.
Print Assumptions C04_identity_among_raw.

(** the pruning premise DISCHARGED with C11's theorem (prune_complete_fun, read-only): take any raw list of injective maps
    defined on atoms of the rule that contains the identity as a set of pairs (C04_identity_among_raw provides it for
    strategy ALL); hand the rule to C11's model of the pruning ([C11_Model.prune], first match of every class under the
    automorphisms of the rule centre) through node / edge codes that are faithful on the rule ([faithful]: equal codes
    only for atoms with equal tuples / bonds with equal labels -- the harness interns attribute values); then its_list
    built from what the pruning keeps contains an ITS that decomposes to the reaction.  With C04_identity_among_raw
    this is the whole chain substrate -> matches -> pruning -> gluing of the implicit mode, up to RDKit serialisation. *)
Theorem C04_pruned_results : forall (cn : inode -> N) (ce : iedge -> N) (core invert : bool) (G H : hostg)
    (raw : list C03_Model.mapping),
  faithful cn ce (template core invert G H) ->
  pair_wfb G H = true -> no_explicit_H G = true ->
  (core = true -> centre_carries (its_construct G H) = true) ->
  (forall m, In m raw -> NoDup (map fst m) /\ NoDup (map snd m) /\
                         forall p h, In (p, h) m -> In p (node_ids (template core invert G H))) ->
  (exists m0, In m0 raw /\ Permutation (id_map (node_ids (template core invert G H))) m0) ->
  exists T : its,
    In (Some T) (its_list core invert G H (C11_Model.prune (fun m : C03_Model.mapping => m) (tr_rule cn ce (template core invert G H)) raw)) /\
    regen_exact T (if invert then H else G) (if invert then G else H) = true.
Proof. exact pruned_results_all. Qed.
Print Assumptions C04_pruned_results.

(** * the reactor as an OBJECT (model/C04_Reactor.v): options, the caches _mappings / _flag_pattern_has_explicit_H / _its /
    _smarts behind the lazily computed attributes, the engine call through C06's call interface [find_api], the pruning
    through C11's [prune] on canonical attribute codes, _glue_graph per kept mapping, _explicit_h over the list, _to_smarts,
    reverse_reaction.  Oracle inputs: [enum] (one VF2 enumeration), [rematch] (the re-matching of the explicit-hydrogen
    path), [ser] (RDKit's graph_to_smi of the two sides of the i-th ITS). *)

(** the canonical codes [cn_of] / [ce_of] (position of the first atom / bond of the rule with the same label) meet the
    premise [faithful] of C04_pruned_results: with them that theorem has no hypothesis about codes left *)
Theorem C04_canonical_codes_faithful : forall t : its, faithful (cn_of t) (ce_of t) t.
Proof. exact canon_faithful. Qed.
Print Assumptions C04_canonical_codes_faithful.

(** PARTIAL, but now through the whole reactor.  Full clause wanted: for every reaction in the precondition, every template
    kind, direction and strategy, the standardised reaction is among the standardised results.  Proved, for the implicit
    mode and the exhaustive strategy (the reactor's default) with no pre-filter, for ANY embed_threshold [thr] that the
    number of matches does not exceed: a fresh reactor built from the reaction's own template on its own substrate
    (i) has, in its_list, an ITS [T] whose decomposition is the reaction -- the engine is called through C06's interface
    [api_engine enum] = find_subgraph_mappings(strategy, threshold, pre_filter) under C06's VF2 contract for the one
    enumeration it makes, the pruning is C11's [prune] by the automorphisms of the rule on the canonical codes (applied only
    when there is more than one raw match), and _glue_graph runs on every kept mapping; and (ii) whenever RDKit writes
    the two sides of that [T] as strings [r], [p] (non-empty, without '>'), smarts_list contains 'r>>p' -- turned round
    again ('p>>r', i.e. reactants>>products of the original reaction) when the reactor runs backwards.
    Missing for the full clause: the default (explicit-hydrogen) mode at this level (proved up to the ITS before _explicit_h:
    C04_identity_glue_default); strategies comp / bt (comp keeps only component-separating matches and has the
    strict_cc_count guard); that RDKit parses the unmapped side to this substrate and writes [T] back as a string that
    Standardize.fit maps to the standardised reaction (oracle). *)
Theorem C04_in_results_engine_partial : forall (enum : list N -> list N -> list C06_Model.mapping)
    (rematch : nat -> hostg -> molg -> list C03_Model.mapping) (ser : nat -> its -> option bytes * option bytes)
    (core invert : bool) (G H : hostg) (thr : option N),
  pair_wfb G H = true -> no_explicit_H G = true ->
  (core = true -> centre_carries (its_construct G H) = true) ->
  forallb (fun p : N * mnode => 0 <=? m_hc (snd p)) (gnodes (pattern_of (dec_side iG C03_Model.eG (template core invert G H)))) = true ->
  vf2_contract enum (tr_host (substrate invert G H)) (tr_pat (pattern_of (dec_side iG C03_Model.eG (template core invert G H))))
               (node_ids (tr_host (substrate invert G H)))
               (node_ids (tr_pat (pattern_of (dec_side iG C03_Model.eG (template core invert G H))))) ->
  (lenN (enum (node_ids (tr_host (substrate invert G H)))
              (node_ids (tr_pat (pattern_of (dec_side iG C03_Model.eG (template core invert G H)))))) <= dflt DEFAULT_THRESHOLD thr)%N ->
  rule_of core invert G H = Some (template core invert G H, dec_side iG C03_Model.eG (template core invert G H),
                                  dec_side iH C03_Model.eH (template core invert G H)) /\
  exists (gs : list its) (T : its),
    fst (read_its (api_engine enum) rematch (own_opts invert false (SMember 0%N) thr false) (substrate invert G H)
                  (template core invert G H, dec_side iG C03_Model.eG (template core invert G H),
                   dec_side iH C03_Model.eH (template core invert G H)) fresh) = Some gs /\
    In T gs /\ regen_exact T (if invert then H else G) (if invert then G else H) = true /\
    forall (i : nat) (r p : bytes),
      nth_error gs i = Some T -> ser i T = (Some r, Some p) -> r ++ arrow ++ p <> [] -> no_gt r -> no_gt p ->
      exists ss : list bytes,
        fst (read_smarts (api_engine enum) rematch ser (own_opts invert false (SMember 0%N) thr false) (substrate invert G H)
                         (template core invert G H, dec_side iG C03_Model.eG (template core invert G H),
                          dec_side iH C03_Model.eH (template core invert G H)) fresh) = Some ss /\
        In (if invert then p ++ arrow ++ r else r ++ arrow ++ p) ss.
Proof. exact chain_full. Qed.
Print Assumptions C04_in_results_engine_partial.

(** the caches are coherent (history cases of the harness, for ALL scripts): if _explicit_h does not raise on any glued
    ITS ([crashed] = false for the kept mappings), then whatever attributes are read from one reactor -- mappings, its_list,
    smarts_list, smiles_list, mapping_count, len(smarts_list) -- how often and in which order, every answer is the answer
    a fresh reactor gives to that read.  In particular smarts_list is reversed once, not on every read; its_list uses
    the explicit-hydrogen flag the pattern really had.  For any engine, re-matcher, serialiser, options, substrate, rule. *)
Theorem C04_reads_coherent : forall (engine : sarg -> option N -> bool -> C06_Model.graph -> C06_Model.graph -> outcome)
    (rematch : nat -> hostg -> molg -> list C03_Model.mapping) (ser : nat -> its -> option bytes * option bytes)
    (o : ropts) (host : hostg) (rule : triple),
  (forall ms, compute_mappings engine o host rule = Some ms -> crashed rematch o host rule ms = false) ->
  forall s : list attr,
    fst (run_script engine rematch ser o host rule s fresh) = map (fun a => fst (read engine rematch ser o host rule a fresh)) s.
Proof. exact reads_coherent. Qed.
Print Assumptions C04_reads_coherent.

(** ... and the hypothesis cannot be dropped: the code keeps the half-processed list when _explicit_h raises
    (self._its is assigned before the loop over _explicit_h).  Exact description: the first read of its_list raises
    (None); from then on its_list returns the list in which the graphs before the failing one went through _explicit_h
    and the others did not ([its_stored]), and smarts_list serialises that list -- no read raises again.  Replayed on the
    implementation (harness cases hand:crash-rule:obj:*, witness proof/C04_ObjectExamples.v cr_hyps / cr_reads); outside
    the precondition of C04 (needs a hand-made rule object), hence documented, not repaired. *)
Theorem C04_stale_after_crash : forall (engine : sarg -> option N -> bool -> C06_Model.graph -> C06_Model.graph -> outcome)
    (rematch : nat -> hostg -> molg -> list C03_Model.mapping) (ser : nat -> its -> option bytes * option bytes)
    (o : ropts) (host : hostg) (rule : triple) (ms : list C03_Model.mapping),
  compute_mappings engine o host rule = Some ms -> crashed rematch o host rule ms = true ->
  fst (read_its engine rematch o host rule fresh) = None /\
  (let st1 := snd (read_its engine rematch o host rule fresh) in
   read_its engine rematch o host rule st1 = (Some (its_stored rematch o host rule ms), st1) /\
   fst (read_smarts engine rematch ser o host rule st1) = Some (smarts_of ser o (its_stored rematch o host rule ms))).
Proof. exact stale_after_crash. Qed.
Print Assumptions C04_stale_after_crash.

(** reverse_reaction / split(">>") on byte strings: for sides without '>' (SMILES have none) reverse_reaction swaps the
    sides, twice is the identity, and the last piece (smiles_list) is the product side *)
Theorem C04_reverse_reaction : forall r p : bytes, no_gt r -> no_gt p ->
  reverse_reaction (r ++ arrow ++ p) = p ++ arrow ++ r /\
  reverse_reaction (reverse_reaction (r ++ arrow ++ p)) = r ++ arrow ++ p /\
  last_piece (r ++ arrow ++ p) = p.
Proof. exact reverse_reaction_all. Qed.
Print Assumptions C04_reverse_reaction.

(** * the _explicit_h stage (default mode) *)

(** _explicit_h does not change the reaction in implicit-hydrogen normal form.  For ANY ITS [T] with distinct atom ids
    whose two sides are, exactly, the implicit-hydrogen forms of two molecule graphs A and B ([regen_exact T (h_to_implicit_host
    A) (h_to_implicit_host B)]: what C04_identity_glue_default / C04_identity_glue_any_rule establish for the glued ITS), with
    A and B well formed, closed and foldable (every hydrogen atom has a neighbour and only non-hydrogen neighbours): if
    _explicit_h returns [T'] -- with whatever list of migrations -- then [T'] decomposes to (A, B) in implicit-hydrogen
    normal form.  Proof: every re-materialised hydrogen hangs on its donor only (reactant side) / its recipient only
    (product side), the counts of both were lowered by one per hydrogen, and h_to_implicit folds each of them back:
    h_to_implicit (side of T') = side of T, exactly (proof/C04_Explicit.v explicit_left / explicit_right). *)
Theorem C04_explicit_h_keeps_reaction : forall (T T' : its) (ms : list (N * N)) (A B : hostg),
  wf_hostb A = true -> wf_hostb B = true -> foldable A -> foldable B -> closed A -> closed B ->
  NoDup (node_ids T) ->
  regen_exact T (h_to_implicit_host A) (h_to_implicit_host B) = true ->
  explicit_h T = Some (T', ms) ->
  regen_folded T' A B = true.
Proof. exact explicit_end. Qed.
Print Assumptions C04_explicit_h_keeps_reaction.

(** the DEFAULT mode to the end of its_list, for the reaction's own templates (centre or full ITS, forwards or backwards):
    under the hypotheses of C04_identity_glue_default, [regenerate] -- rule preparation by _strip_explicit_h, gluing
    along the identity, _explicit_h -- returns an ITS that decomposes to the reaction in implicit-hydrogen normal form
    ([regen_folded]: the comparison the harness makes on every case), PROVIDED _explicit_h does not raise on the glued ITS.
    That last premise is the one thing still validated per case (observable: the result of _explicit_h on every glued ITS;
    C03_explicitH_crash_iff characterises it: every hydrogen-transfer group has at least as many places to take hydrogens
    as hydrogens to give); deriving it from [default_okb] needs C03's pair-id bookkeeping and is not done. *)
Theorem C04_identity_default_end : forall (core invert : bool) (G H : hostg),
  pair_wfb G H = true -> mode_E G H = true ->
  default_okb (if invert then H else G) (if invert then G else H) (template core invert G H) = true ->
  (core = true -> centre_carries (its_construct G H) = true) ->
  (forall rc l r T, rule_of core invert G H = Some (rc, l, r) ->
     glue (substrate invert G H) rc (id_map (node_ids (pattern_of l))) = Some T -> explicit_h T <> None) ->
  exists T' : its, regenerate core invert G H = Some T' /\
    regen_folded T' (if invert then H else G) (if invert then G else H) = true.
Proof. exact default_identity_end. Qed.
Print Assumptions C04_identity_default_end.

(** * strategies comp / bt: the clause is REFUTED (known findings hand:intra-spectator:centre:fwd:{comp,bt}:not-separating)

    The property text quantifies over the strategies comp / bt / all.  C06 fixes what comp returns: only the matches that
    put different components of the pattern into different components of the substrate (and nothing in the strict_cc_count
    guard region); bt returns comp's answer when it is not empty.  So whenever the reaction is INTRAMOLECULAR for a pattern
    with several components (a centre whose changed bonds are not connected on the reactant side) and a spectator molecule
    offers the missing group, the identity -- a valid match -- is not among the raw matches of comp or bt, and the own template
    does not regenerate the reaction: witness 5-bromopentan-1-ol + methanol -> tetrahydropyran + HBr + methanol, centre
    template, forwards, with C06's verified enumerator as VF2 (so the VF2 contract holds).  The exhaustive strategy regenerates
    it (C04_in_results_engine_partial).  Not repaired: the behaviour is C06's specification of the two strategies; the
    oracle emits the known-finding key only when the identity is a valid match that does not separate the pattern components,
    and then the raw matches are also enumerated by the model. *)
Theorem C04_comp_bt_refuted : exists (G H : hostg) (rule : triple),
  pair_wfb G H = true /\ no_explicit_H G = true /\ consistent_H (its_construct G H) = true /\
  centre_carries (its_construct G H) = true /\ rule_of true false G H = Some rule /\
  let host := substrate false G H in
  let pat := pattern_of (snd (fst rule)) in
  let enum := monos_on (tr_host host) (tr_pat pat) in
  let regenerates (s : sarg) :=
    match read_its (api_engine enum) no_rematch (own_opts false false s None false) host rule fresh with
    | (Some gs, _) => existsb (fun T => regen_folded T G H) gs
    | _ => false
    end in
  match_okb host pat (id_map (node_ids pat)) = true /\
  regenerates (SMember 0%N) = true /\ regenerates (SStr [99; 111; 109; 112]%N) = false /\ regenerates (SStr [98; 116]%N) = false.
Proof. exact comp_bt_refuted. Qed.
Print Assumptions C04_comp_bt_refuted.

(** * the default mode through the engine, the pruning and the reactor object *)

(** default-mode counterpart of C04_identity_match: under the hypotheses of C04_identity_glue_default the reactor's rule
    exists, its pattern has no explicit hydrogen left (the matcher uses it as it is: no re-match path), and the identity
    passes the matcher's node / edge predicates on the substrate.  Proof: the stripped pattern [l] IS the reactant side of the
    prepared rule -- same atoms, elements, charges, hydrogen counts and (positive) bond orders ([left_of], from C03's exact
    description of _strip_explicit_h, read-only) -- so a match of the rule is a match of the pattern. *)
Theorem C04_identity_match_default : forall (core invert : bool) (G H : hostg),
  pair_wfb G H = true -> mode_E G H = true ->
  default_okb (if invert then H else G) (if invert then G else H) (template core invert G H) = true ->
  (core = true -> centre_carries (its_construct G H) = true) ->
  exists (rc : its) (l r : molg), rule_of core invert G H = Some (rc, l, r) /\ has_XH l = false /\ left_of rc l /\
    match_okb (substrate invert G H) (pattern_of l) (id_map (node_ids (pattern_of l))) = true.
Proof. exact default_identity_match. Qed.
Print Assumptions C04_identity_match_default.

(** PARTIAL -- the default (explicit-hydrogen) mode, the library's own default, through the whole reactor object for the
    exhaustive strategy: under the hypotheses of C04_identity_glue_default, C06's VF2 contract for the one enumeration, a
    threshold that is not exceeded and non-negative pattern counts (boolean, monitored), IF _explicit_h raises on none of
    the glued ITS graphs ([crashed] = false: the premise that is validated per case, see C04_identity_default_end), then a
    fresh reactor -- engine call, pruning by the rule's automorphisms on the canonical codes, _glue_graph on every kept
    mapping, _explicit_h over the list -- has in its_list an ITS that decomposes to the reaction in implicit-hydrogen
    normal form.  With C04_in_results_engine_partial (implicit mode) this covers both branches of the precondition for
    strategy ALL up to RDKit.  Missing for the full clause: totality of _explicit_h from the precondition; H2 / H+ (re-match
    path, outside default_okb); comp / bt (refuted in general: C04_comp_bt_refuted); RDKit + Standardize.fit. *)
Theorem C04_in_results_engine_default_partial : forall (enum : list N -> list N -> list C06_Model.mapping)
    (rematch : nat -> hostg -> molg -> list C03_Model.mapping) (core invert : bool) (G H : hostg) (thr : option N),
  pair_wfb G H = true -> mode_E G H = true ->
  default_okb (if invert then H else G) (if invert then G else H) (template core invert G H) = true ->
  (core = true -> centre_carries (its_construct G H) = true) ->
  forall (rc : its) (l r : molg),
  rule_of core invert G H = Some (rc, l, r) ->
  forallb (fun p : N * mnode => 0 <=? m_hc (snd p)) (gnodes l) = true ->
  vf2_contract enum (tr_host (substrate invert G H)) (tr_pat l) (node_ids (tr_host (substrate invert G H))) (node_ids (tr_pat l)) ->
  (lenN (enum (node_ids (tr_host (substrate invert G H))) (node_ids (tr_pat l))) <= dflt DEFAULT_THRESHOLD thr)%N ->
  (forall ms, compute_mappings (api_engine enum) (own_opts invert true (SMember 0%N) thr false) (substrate invert G H) (rc, l, r) = Some ms ->
              crashed rematch (own_opts invert true (SMember 0%N) thr false) (substrate invert G H) (rc, l, r) ms = false) ->
  exists (gs : list its) (T' : its),
    fst (read_its (api_engine enum) rematch (own_opts invert true (SMember 0%N) thr false) (substrate invert G H) (rc, l, r) fresh) = Some gs /\
    In T' gs /\ regen_folded T' (if invert then H else G) (if invert then G else H) = true.
Proof. exact default_chain. Qed.
Print Assumptions C04_in_results_engine_default_partial.

(** * strategies comp / bt, the positive side (with C04_comp_bt_refuted: the whole picture)

    For ANY rule [rc] that describes a pair (A, B) ([describes]: proof/C04_Glue.v -- the own templates in implicit mode by
    C04_identity_glue's proof, the prepared rule of the default mode by C04_identity_glue_default's) together with its pattern
    [l] ([left_of rc l]: same atoms, the elements / charges / hydrogen counts of the reactant tuples, the bonds with positive
    reactant order -- [own_left_of] in implicit mode, C04_identity_match_default in the default mode), under C06's contract
    [oracle_ok] for every VF2 call the component-aware search can make (whole graphs and pattern component x substrate
    component; met by the verified enumerator: C06_enumerator_oracle_ok), [hcc] / [pcc] = number of connected components of
    substrate / pattern, strict_cc_count at its default (True), for every embed_threshold from some [T0] on:

    comp: outside the strict_cc_count guard region (not 0 < pcc < hcc), if hcc < pcc (then comp is exhaustive) or the identity
    SEPARATES the pattern components ([separating], lib/C06_Spec.v: two atoms in one substrate component only if they are in one
    pattern component), the engine answers and among the mappings the pruning keeps there is one whose glued ITS decomposes
    to (A, B);
    bt: the same, and also inside the guard region (comp returns nothing there, bt falls back to the exhaustive strategy).
    The remaining case -- identity not separating, hcc = pcc, comp's answer not empty -- is where both lose the reaction
    (C04_comp_bt_refuted).  PARTIAL with respect to the property text for the same reasons as C04_in_results_engine_partial
    (RDKit; in the default mode _explicit_h's totality). *)
Theorem C04_comp_regenerates_partial : forall (enum : list N -> list N -> list C06_Model.mapping)
    (A B : hostg) (rc : its) (l r : molg),
  pair_wf A B -> describes A B rc -> left_of rc l -> has_XH l = false ->
  forallb (fun p : N * mnode => 0 <=? m_hc (snd p)) (gnodes l) = true ->
  gwf (tr_host A) -> gwf (tr_pat l) -> oracle_ok enum (tr_host A) (tr_pat l) ->
  (0 <? length (comps (tr_pat l)))%nat && (length (comps (tr_pat l)) <? length (comps (tr_host A)))%nat = false ->
  ((length (comps (tr_host A)) <? length (comps (tr_pat l)))%nat = true \/
   separating (tr_host A) (tr_pat l) (id_map (node_ids l))) ->
  exists T0 : N, forall (T : N) (o : ropts), (T0 <= T)%N ->
    o_strategy o = SMember 1%N -> o_thr o = Some T -> o_pref o = false ->
    exists (ms : list C03_Model.mapping) (y : C03_Model.mapping) (T' : its),
      compute_mappings (api_engine enum) o A (rc, l, r) = Some ms /\ In y ms /\
      glue A rc y = Some T' /\ regen_exact T' A B = true.
Proof. exact comp_regenerates. Qed.
Print Assumptions C04_comp_regenerates_partial.

Theorem C04_bt_regenerates_partial : forall (enum : list N -> list N -> list C06_Model.mapping)
    (A B : hostg) (rc : its) (l r : molg),
  pair_wf A B -> describes A B rc -> left_of rc l -> has_XH l = false ->
  forallb (fun p : N * mnode => 0 <=? m_hc (snd p)) (gnodes l) = true ->
  gwf (tr_host A) -> gwf (tr_pat l) -> oracle_ok enum (tr_host A) (tr_pat l) ->
  ((0 <? length (comps (tr_pat l)))%nat && (length (comps (tr_pat l)) <? length (comps (tr_host A)))%nat = true \/
   (length (comps (tr_host A)) <? length (comps (tr_pat l)))%nat = true \/
   separating (tr_host A) (tr_pat l) (id_map (node_ids l))) ->
  exists T0 : N, forall (T : N) (o : ropts), (T0 <= T)%N ->
    o_strategy o = SMember 2%N -> o_thr o = Some T -> o_pref o = false ->
    exists (ms : list C03_Model.mapping) (y : C03_Model.mapping) (T' : its),
      compute_mappings (api_engine enum) o A (rc, l, r) = Some ms /\ In y ms /\
      glue A rc y = Some T' /\ regen_exact T' A B = true.
Proof. exact bt_regenerates. Qed.
Print Assumptions C04_bt_regenerates_partial.

(** the premise [separating] of the two theorems above for the identity match, as the boolean [id_separatingb] that the
    correspondence evaluates on every case (next to the numbers of components of substrate and pattern) and that the harness
    recomputes independently with networkx *)
Theorem C04_separating_boolean : forall (H P : C06_Model.graph),
  gwf H -> gwf P -> incl (node_ids P) (node_ids H) ->
  id_separatingb H P = true -> separating H P (id_map (node_ids P)).
Proof. exact id_separatingb_sound. Qed.
Print Assumptions C04_separating_boolean.

(** * comp / bt for the reaction's OWN templates: the four instances of the two theorems above (implicit mode: the template with
    its decomposed reactant side; default mode: the prepared rule with the stripped pattern, substrate and other side with
    implicit hydrogens, result before _explicit_h -- C04_explicit_h_keeps_reaction takes it to the end), with the separation
    premise as the monitored boolean.  Together with C04_in_results_engine_partial / _default_partial (strategy ALL) and
    C04_comp_bt_refuted this settles the quantifier "strategies comp / bt / all" of the property up to RDKit. *)
Theorem C04_own_comp_implicit : forall (enum : list N -> list N -> list C06_Model.mapping) (core invert : bool) (G H : hostg),
  pair_wfb G H = true -> no_explicit_H G = true ->
  (core = true -> centre_carries (its_construct G H) = true) ->
  forallb (fun p : N * mnode => 0 <=? m_hc (snd p)) (gnodes (dec_side iG C03_Model.eG (template core invert G H))) = true ->
  oracle_ok enum (tr_host (if invert then H else G)) (tr_pat (dec_side iG C03_Model.eG (template core invert G H))) ->
  (0 <? length (comps (tr_pat (dec_side iG C03_Model.eG (template core invert G H)))))%nat && (length (comps (tr_pat (dec_side iG C03_Model.eG (template core invert G H)))) <? length (comps (tr_host (if invert then H else G))))%nat = false ->
  ((length (comps (tr_host (if invert then H else G))) <? length (comps (tr_pat (dec_side iG C03_Model.eG (template core invert G H)))))%nat = true \/ id_separatingb (tr_host (if invert then H else G)) (tr_pat (dec_side iG C03_Model.eG (template core invert G H))) = true) ->
  exists T0 : N, forall (T : N) (o : ropts), (T0 <= T)%N ->
    o_strategy o = SMember 1%N -> o_thr o = Some T -> o_pref o = false ->
    exists (ms : list C03_Model.mapping) (y : C03_Model.mapping) (T' : its),
      compute_mappings (api_engine enum) o (if invert then H else G) (template core invert G H, dec_side iG C03_Model.eG (template core invert G H), dec_side iH C03_Model.eH (template core invert G H)) = Some ms /\ In y ms /\
      glue (if invert then H else G) (template core invert G H) y = Some T' /\ regen_exact T' (if invert then H else G) (if invert then G else H) = true.
Proof. exact own_comp_implicit. Qed.
Print Assumptions C04_own_comp_implicit.

Theorem C04_own_bt_implicit : forall (enum : list N -> list N -> list C06_Model.mapping) (core invert : bool) (G H : hostg),
  pair_wfb G H = true -> no_explicit_H G = true ->
  (core = true -> centre_carries (its_construct G H) = true) ->
  forallb (fun p : N * mnode => 0 <=? m_hc (snd p)) (gnodes (dec_side iG C03_Model.eG (template core invert G H))) = true ->
  oracle_ok enum (tr_host (if invert then H else G)) (tr_pat (dec_side iG C03_Model.eG (template core invert G H))) ->
  ((0 <? length (comps (tr_pat (dec_side iG C03_Model.eG (template core invert G H)))))%nat && (length (comps (tr_pat (dec_side iG C03_Model.eG (template core invert G H)))) <? length (comps (tr_host (if invert then H else G))))%nat = true \/ (length (comps (tr_host (if invert then H else G))) <? length (comps (tr_pat (dec_side iG C03_Model.eG (template core invert G H)))))%nat = true \/ id_separatingb (tr_host (if invert then H else G)) (tr_pat (dec_side iG C03_Model.eG (template core invert G H))) = true) ->
  exists T0 : N, forall (T : N) (o : ropts), (T0 <= T)%N ->
    o_strategy o = SMember 2%N -> o_thr o = Some T -> o_pref o = false ->
    exists (ms : list C03_Model.mapping) (y : C03_Model.mapping) (T' : its),
      compute_mappings (api_engine enum) o (if invert then H else G) (template core invert G H, dec_side iG C03_Model.eG (template core invert G H), dec_side iH C03_Model.eH (template core invert G H)) = Some ms /\ In y ms /\
      glue (if invert then H else G) (template core invert G H) y = Some T' /\ regen_exact T' (if invert then H else G) (if invert then G else H) = true.
Proof. exact own_bt_implicit. Qed.
Print Assumptions C04_own_bt_implicit.

Theorem C04_own_comp_default : forall (enum : list N -> list N -> list C06_Model.mapping) (core invert : bool) (G H : hostg),
  pair_wfb G H = true -> mode_E G H = true ->
  default_okb (if invert then H else G) (if invert then G else H) (template core invert G H) = true ->
  (core = true -> centre_carries (its_construct G H) = true) ->
  forall (rc : its) (l r : molg), rule_of core invert G H = Some (rc, l, r) ->
  oracle_ok enum (tr_host (substrate invert G H)) (tr_pat l) ->
  (0 <? length (comps (tr_pat l)))%nat && (length (comps (tr_pat l)) <? length (comps (tr_host (substrate invert G H))))%nat = false ->
  ((length (comps (tr_host (substrate invert G H))) <? length (comps (tr_pat l)))%nat = true \/ id_separatingb (tr_host (substrate invert G H)) (tr_pat l) = true) ->
  exists T0 : N, forall (T : N) (o : ropts), (T0 <= T)%N ->
    o_strategy o = SMember 1%N -> o_thr o = Some T -> o_pref o = false ->
    exists (ms : list C03_Model.mapping) (y : C03_Model.mapping) (T' : its),
      compute_mappings (api_engine enum) o (substrate invert G H) (rc, l, r) = Some ms /\ In y ms /\
      glue (substrate invert G H) (rc) y = Some T' /\ regen_exact T' (substrate invert G H) (h_to_implicit_host (if invert then G else H)) = true.
Proof. exact own_comp_default_final. Qed.
Print Assumptions C04_own_comp_default.

Theorem C04_own_bt_default : forall (enum : list N -> list N -> list C06_Model.mapping) (core invert : bool) (G H : hostg),
  pair_wfb G H = true -> mode_E G H = true ->
  default_okb (if invert then H else G) (if invert then G else H) (template core invert G H) = true ->
  (core = true -> centre_carries (its_construct G H) = true) ->
  forall (rc : its) (l r : molg), rule_of core invert G H = Some (rc, l, r) ->
  oracle_ok enum (tr_host (substrate invert G H)) (tr_pat l) ->
  ((0 <? length (comps (tr_pat l)))%nat && (length (comps (tr_pat l)) <? length (comps (tr_host (substrate invert G H))))%nat = true \/ (length (comps (tr_host (substrate invert G H))) <? length (comps (tr_pat l)))%nat = true \/ id_separatingb (tr_host (substrate invert G H)) (tr_pat l) = true) ->
  exists T0 : N, forall (T : N) (o : ropts), (T0 <= T)%N ->
    o_strategy o = SMember 2%N -> o_thr o = Some T -> o_pref o = false ->
    exists (ms : list C03_Model.mapping) (y : C03_Model.mapping) (T' : its),
      compute_mappings (api_engine enum) o (substrate invert G H) (rc, l, r) = Some ms /\ In y ms /\
      glue (substrate invert G H) (rc) y = Some T' /\ regen_exact T' (substrate invert G H) (h_to_implicit_host (if invert then G else H)) = true.
Proof. exact own_bt_default_final. Qed.
Print Assumptions C04_own_bt_default.

(** from its_list to smarts_list, for ANY reactor (engine, options, substrate, rule -- both hydrogen modes, every strategy): if
    the first read of its_list returns [gs], its [i]-th ITS is [T] and RDKit writes the two sides of [T] as non-empty strings
    [r], [p] without '>', then smarts_list contains 'r>>p', turned round ('p>>r') exactly when the reactor runs backwards --
    the filter of refused / empty serialisations and the single reversal of [smarts_list] do not lose or double-reverse it.
    With C04_in_results_engine_default_partial this gives the default mode what C04_in_results_engine_partial states for the
    implicit one. *)
Theorem C04_smarts_contains : forall (engine : sarg -> option N -> bool -> C06_Model.graph -> C06_Model.graph -> outcome)
    (rematch : nat -> hostg -> molg -> list C03_Model.mapping) (ser : nat -> its -> option bytes * option bytes)
    (o : ropts) (host : hostg) (rule : triple) (gs : list its) (T : its) (i : nat) (r p : bytes),
  fst (read_its engine rematch o host rule fresh) = Some gs ->
  nth_error gs i = Some T -> ser i T = (Some r, Some p) -> r ++ arrow ++ p <> [] -> no_gt r -> no_gt p ->
  exists ss : list bytes, fst (read_smarts engine rematch ser o host rule fresh) = Some ss /\
    In (if o_invert o then p ++ arrow ++ r else r ++ arrow ++ p) ss.
Proof. exact smarts_contains. Qed.
Print Assumptions C04_smarts_contains.

(** * when does _explicit_h NOT raise?

    A criterion on ANY ITS [T]: suppose the hydrogen change of every atom ([dl_of T n] = reactant-side minus product-side
    count) is the sum over a list [Hs] of "transfers" of a contribution [w h n], every atom a transfer touches carries one
    pair id of that transfer in its h_pairs, and a transfer gives away no more than it takes (its contributions over any
    duplicate-free set of atoms that contains all it touches sum to <= 0).  Then every connected component of the pairing graph
    of _explicit_h is balanced and _explicit_h returns (no StopIteration).  Proof: [components] (C03_Model) are duplicate-free,
    pairwise disjoint and every h_pairs group lies inside one of them; [pair_to_nodes] lists every atom under every id it
    carries (proof/C04_Total.v; C03 has the converse directions); then C03_explicitH_crash_iff. *)
Theorem C04_explicit_h_total_criterion : forall (T : its) (X : Type) (Hs : list X) (w : X -> N -> Z),
  (forall n : N, dl_of T n = sumX (fun h : X => w h n) Hs) ->
  (forall h : X, In h Hs ->
     exists pid : N, forall n : N, w h n <> 0 -> exists A : inode, In (n, A) (gnodes T) /\ In pid (hp_of A)) ->
  (forall (h : X) (c : list N), In h Hs -> NoDup c -> (forall n : N, w h n <> 0 -> In n c) -> sumF (w h) c <= 0) ->
  explicit_h T <> None.
Proof. exact explicit_h_total. Qed.
Print Assumptions C04_explicit_h_total_criterion.

(** ... and with it the default mode reaches the end of its_list with NO premise about _explicit_h: for the reaction's own
    templates the one premise of C04_identity_default_end is replaced by the static boolean [own_valence_okb] (evaluated by the
    correspondence on every case and recomputed by the harness): every hydrogen atom of the template has at most as many bonds
    to rule atoms on the reactant side as on the product side -- for a hydrogen with one bond before and one bond after, 1 <= 1.
    The transfers are the stripped hydrogens; that all atoms bonded to one of them share its pair id is C03's
    completeness of the pair ids (synrule_default_pairs_complete, read-only); the hydrogen counts of the prepared rule are
    bond counts (synrule_default_pointwise).  FULL for the identity match; the other kept mappings of the reactor
    (C04_in_results_engine_default_partial) keep the premise [crashed = false]. *)
Theorem C04_identity_default_end_total : forall (core invert : bool) (G H : hostg),
  pair_wfb G H = true -> mode_E G H = true ->
  default_okb (if invert then H else G) (if invert then G else H) (template core invert G H) = true ->
  (core = true -> centre_carries (its_construct G H) = true) ->
  own_valence_okb core invert G H = true ->
  exists T' : its, regenerate core invert G H = Some T' /\
    regen_folded T' (if invert then H else G) (if invert then G else H) = true.
Proof. exact default_identity_end_total. Qed.
Print Assumptions C04_identity_default_end_total.

(** * the default mode through the whole reactor with NO premise about _explicit_h *)

(** _explicit_h returns on the ITS glued from a default-mode rule along ANY valid match onto ANY substrate: for a template [tpl]
    that describes a pair (A, B) written the default-mode way, its prepared rule (rc, l, r), any substrate [host], any mapping [y]
    the reactor's predicates accept on the rule ([match_rcb]) and the ITS [T] glued along it -- if the template's hydrogens
    satisfy [valence_okb].  (_explicit_h only looks at the matched atoms: they carry the rule's hydrogen changes and pair ids
    whatever the substrate is.)  So a prepared own template never makes its_list raise StopIteration, on any molecule. *)
Theorem C04_any_match_explicit_h_total : forall (A B : hostg) (tpl rc : its) (l r : molg) (host : hostg)
    (y : C03_Model.mapping) (T : its),
  pair_wf A B -> describes A B tpl -> default_okb A B tpl = true ->
  synrule tpl true = Some (rc, l, r) -> wf_rcb rc = true ->
  match_rcb host rc y = true -> glue host rc y = Some T -> valence_okb tpl rc = true ->
  explicit_h T <> None.
Proof. exact any_match_total. Qed.
Print Assumptions C04_any_match_explicit_h_total.

(** what the search engine returns is a valid match of the RULE: a monomorphism of the translated pattern into the translated
    substrate (C06's specification [is_mono] on [tr_host] / [tr_pat]) passes the reactor's predicates on the rule's reactant side,
    when the pattern is the rule's reactant side in both directions ([left_of], [left_onto]: true for the default-mode
    preparation, [default_left_of] / [default_left_onto], and trivially in implicit mode), the rule's bonds join its own atoms and
    no hydrogen count is negative.  (The converse, a valid match is a monomorphism, is what C04_identity_among_raw uses.) *)
Theorem C04_engine_match_is_rule_match : forall (host : hostg) (rc : its) (l : molg) (y : C03_Model.mapping),
  wf_hostb host = true -> (forall n a, label host n = Some a -> 0 <= a_hc a) ->
  wf_rcb rc = true -> (forall u v x, In (u, v, x) (gedges rc) -> In u (node_ids rc) /\ In v (node_ids rc)) ->
  left_of rc l -> left_onto rc l -> (forall k la, label l k = Some la -> 0 <= m_hc la) ->
  is_mono (tr_host host) (tr_pat l) y ->
  match_rcb host rc y = true.
Proof. exact mono_is_match. Qed.
Print Assumptions C04_engine_match_is_rule_match.

(** PARTIAL only with respect to RDKit and the H2 / H+ re-match path: the default (explicit-hydrogen) mode through the whole
    reactor object for the exhaustive strategy.  Under the hypotheses of C04_identity_glue_default, the static boolean
    [own_valence_okb], C06's VF2 contract for the one enumeration and a threshold that is not exceeded (the pattern counts are
    bond counts, hence not negative: default_pattern_nonneg): a fresh reactor -- engine call, pruning by the rule's automorphisms, _glue_graph on EVERY kept mapping, _explicit_h
    over the whole list (which raises on none of them: every kept mapping is a monomorphism the engine returned, hence a valid
    match of the rule, and C04_any_match_explicit_h_total applies) -- returns an its_list that contains an ITS which
    decomposes to the reaction in implicit-hydrogen normal form.  Supersedes C04_in_results_engine_default_partial (whose
    premise [crashed = false] is now proved).  With C04_in_results_engine_partial: both branches of the precondition,
    strategy ALL, up to RDKit. *)
Theorem C04_in_results_engine_default : forall (enum : list N -> list N -> list C06_Model.mapping)
    (rematch : nat -> hostg -> molg -> list C03_Model.mapping) (core invert : bool) (G H : hostg) (thr : option N),
  pair_wfb G H = true -> mode_E G H = true ->
  default_okb (if invert then H else G) (if invert then G else H) (template core invert G H) = true ->
  (core = true -> centre_carries (its_construct G H) = true) ->
  own_valence_okb core invert G H = true ->
  forall (rc : its) (l r : molg),
  rule_of core invert G H = Some (rc, l, r) ->
  vf2_contract enum (tr_host (substrate invert G H)) (tr_pat l) (node_ids (tr_host (substrate invert G H))) (node_ids (tr_pat l)) ->
  (lenN (enum (node_ids (tr_host (substrate invert G H))) (node_ids (tr_pat l))) <= dflt DEFAULT_THRESHOLD thr)%N ->
  exists (gs : list its) (T' : its),
    fst (read_its (api_engine enum) rematch (own_opts invert true (SMember 0%N) thr false) (substrate invert G H) (rc, l, r) fresh) = Some gs /\
    In T' gs /\ regen_folded T' (if invert then H else G) (if invert then G else H) = true.
Proof. exact default_chain_final. Qed.
Print Assumptions C04_in_results_engine_default.

(** * with C06's VERIFIED enumerator in the place of VF2 no premise about the enumeration is left

    [monos_on H P] is the enumerator of lib/Mono.v that C06 proves sound, complete and duplicate-free
    (C06_enumerator_meets_contract); the structural side conditions of that theorem follow from the well-formedness of the
    reaction (proof/C04_Wf.v).  These are the instances the correspondence itself runs when it enumerates the raw matches (and
    compares them, as a set, with what the implementation's VF2 returned).  Only the threshold remains as a hypothesis
    (beyond it the engine returns nothing, by design). *)
Theorem C04_in_results_verified_implicit : forall (rematch : nat -> hostg -> molg -> list C03_Model.mapping)
    (ser : nat -> its -> option bytes * option bytes) (core invert : bool) (G H : hostg) (thr : option N),
  pair_wfb G H = true -> no_explicit_H G = true ->
  (core = true -> centre_carries (its_construct G H) = true) ->
  let tpl := template core invert G H in
  let l := dec_side iG C03_Model.eG tpl in
  let host := substrate invert G H in
  let enum := monos_on (tr_host host) (tr_pat (pattern_of l)) in
  forallb (fun p : N * mnode => 0 <=? m_hc (snd p)) (gnodes (pattern_of l)) = true ->
  (lenN (enum (node_ids (tr_host host)) (node_ids (tr_pat (pattern_of l)))) <= dflt DEFAULT_THRESHOLD thr)%N ->
  exists (gs : list its) (T : its),
    fst (read_its (api_engine enum) rematch (own_opts invert false (SMember 0%N) thr false) host
                  (tpl, l, dec_side iH C03_Model.eH tpl) fresh) = Some gs /\
    In T gs /\ regen_exact T (if invert then H else G) (if invert then G else H) = true.
Proof. exact chain_verified_implicit. Qed.
Print Assumptions C04_in_results_verified_implicit.

Theorem C04_in_results_verified_default : forall (rematch : nat -> hostg -> molg -> list C03_Model.mapping)
    (core invert : bool) (G H : hostg) (thr : option N),
  pair_wfb G H = true -> mode_E G H = true ->
  default_okb (if invert then H else G) (if invert then G else H) (template core invert G H) = true ->
  (core = true -> centre_carries (its_construct G H) = true) ->
  own_valence_okb core invert G H = true ->
  forall (rc : its) (l r : molg), rule_of core invert G H = Some (rc, l, r) ->
  let host := substrate invert G H in
  let enum := monos_on (tr_host host) (tr_pat l) in
  (lenN (enum (node_ids (tr_host host)) (node_ids (tr_pat l))) <= dflt DEFAULT_THRESHOLD thr)%N ->
  exists (gs : list its) (T' : its),
    fst (read_its (api_engine enum) rematch (own_opts invert true (SMember 0%N) thr false) host (rc, l, r) fresh) = Some gs /\
    In T' gs /\ regen_folded T' (if invert then H else G) (if invert then G else H) = true.
Proof. exact chain_verified_default. Qed.
Print Assumptions C04_in_results_verified_default.

(** * comp / bt for the own templates at the level of the reactor OBJECT (its_list of a fresh reactor), both hydrogen modes; in the
    default mode to the END of its_list: no kept mapping makes _explicit_h raise (they are monomorphisms by C06's comp_spec /
    bt_spec, hence rule matches, C04_engine_match_is_rule_match + C04_any_match_explicit_h_total), and the stage keeps the folded
    reaction (C04_explicit_h_keeps_reaction).  Same conditions as C04_own_{comp,bt}_{implicit,default}, but for ANY embed_threshold [thr] --
    None = the default 5000 included -- that is not below C06's explicit bound [comp_bound] (the largest intermediate list of the
    component-aware search; for bt also the number of exhaustive matches): no "from some T0 on" left (audit-A1, finding 2). *)
Theorem C04_own_comp_implicit_object : forall (enum : list N -> list N -> list C06_Model.mapping) (rematch : nat -> hostg -> molg -> list C03_Model.mapping)
    (core invert : bool) (G H : hostg) (thr : option N),
  pair_wfb G H = true -> no_explicit_H G = true ->
  (core = true -> centre_carries (its_construct G H) = true) ->
  forallb (fun p : N * mnode => 0 <=? m_hc (snd p)) (gnodes (dec_side iG C03_Model.eG (template core invert G H))) = true ->
  oracle_ok enum (tr_host (if invert then H else G)) (tr_pat (dec_side iG C03_Model.eG (template core invert G H))) ->
  (0 <? length (comps (tr_pat (dec_side iG C03_Model.eG (template core invert G H)))))%nat && (length (comps (tr_pat (dec_side iG C03_Model.eG (template core invert G H)))) <? length (comps (tr_host (if invert then H else G))))%nat = false ->
  ((length (comps (tr_host (if invert then H else G))) <? length (comps (tr_pat (dec_side iG C03_Model.eG (template core invert G H)))))%nat = true \/ id_separatingb (tr_host (if invert then H else G)) (tr_pat (dec_side iG C03_Model.eG (template core invert G H))) = true) ->
  (comp_bound enum true (tr_host (if invert then H else G)) (tr_pat (dec_side iG C03_Model.eG (template core invert G H))) <= dflt DEFAULT_THRESHOLD thr)%N ->
  exists (gs : list its) (Tt : its),
    fst (read_its (api_engine enum) rematch (own_opts invert false (SMember 1%N) thr false) (if invert then H else G)
                  (template core invert G H, dec_side iG C03_Model.eG (template core invert G H), dec_side iH C03_Model.eH (template core invert G H)) fresh) = Some gs /\
    In Tt gs /\ regen_exact Tt (if invert then H else G) (if invert then G else H) = true.
Proof. exact own_comp_implicit_at. Qed.
Print Assumptions C04_own_comp_implicit_object.

Theorem C04_own_bt_implicit_object : forall (enum : list N -> list N -> list C06_Model.mapping) (rematch : nat -> hostg -> molg -> list C03_Model.mapping)
    (core invert : bool) (G H : hostg) (thr : option N),
  pair_wfb G H = true -> no_explicit_H G = true ->
  (core = true -> centre_carries (its_construct G H) = true) ->
  forallb (fun p : N * mnode => 0 <=? m_hc (snd p)) (gnodes (dec_side iG C03_Model.eG (template core invert G H))) = true ->
  oracle_ok enum (tr_host (if invert then H else G)) (tr_pat (dec_side iG C03_Model.eG (template core invert G H))) ->
  ((0 <? length (comps (tr_pat (dec_side iG C03_Model.eG (template core invert G H)))))%nat && (length (comps (tr_pat (dec_side iG C03_Model.eG (template core invert G H)))) <? length (comps (tr_host (if invert then H else G))))%nat = true \/ (length (comps (tr_host (if invert then H else G))) <? length (comps (tr_pat (dec_side iG C03_Model.eG (template core invert G H)))))%nat = true \/ id_separatingb (tr_host (if invert then H else G)) (tr_pat (dec_side iG C03_Model.eG (template core invert G H))) = true) ->
  (N.max (comp_bound enum true (tr_host (if invert then H else G)) (tr_pat (dec_side iG C03_Model.eG (template core invert G H)))) (lenN (enum (node_ids (tr_host (if invert then H else G))) (node_ids (tr_pat (dec_side iG C03_Model.eG (template core invert G H)))))) <= dflt DEFAULT_THRESHOLD thr)%N ->
  exists (gs : list its) (Tt : its),
    fst (read_its (api_engine enum) rematch (own_opts invert false (SMember 2%N) thr false) (if invert then H else G)
                  (template core invert G H, dec_side iG C03_Model.eG (template core invert G H), dec_side iH C03_Model.eH (template core invert G H)) fresh) = Some gs /\
    In Tt gs /\ regen_exact Tt (if invert then H else G) (if invert then G else H) = true.
Proof. exact own_bt_implicit_at. Qed.
Print Assumptions C04_own_bt_implicit_object.

Theorem C04_own_comp_default_object : forall (enum : list N -> list N -> list C06_Model.mapping) (rematch : nat -> hostg -> molg -> list C03_Model.mapping)
    (core invert : bool) (G H : hostg) (thr : option N),
  pair_wfb G H = true -> mode_E G H = true ->
  default_okb (if invert then H else G) (if invert then G else H) (template core invert G H) = true ->
  (core = true -> centre_carries (its_construct G H) = true) ->
  own_valence_okb core invert G H = true ->
  forall (rc : its) (l r : molg), rule_of core invert G H = Some (rc, l, r) ->
  oracle_ok enum (tr_host (substrate invert G H)) (tr_pat l) ->
  (0 <? length (comps (tr_pat l)))%nat && (length (comps (tr_pat l)) <? length (comps (tr_host (substrate invert G H))))%nat = false ->
  ((length (comps (tr_host (substrate invert G H))) <? length (comps (tr_pat l)))%nat = true \/ id_separatingb (tr_host (substrate invert G H)) (tr_pat l) = true) ->
  (comp_bound enum true (tr_host (substrate invert G H)) (tr_pat l) <= dflt DEFAULT_THRESHOLD thr)%N ->
  exists (gs : list its) (T' : its),
    fst (read_its (api_engine enum) rematch (own_opts invert true (SMember 1%N) thr false) (substrate invert G H) (rc, l, r) fresh) = Some gs /\
    In T' gs /\ regen_folded T' (if invert then H else G) (if invert then G else H) = true.
Proof. exact own_comp_default_at. Qed.
Print Assumptions C04_own_comp_default_object.

Theorem C04_own_bt_default_object : forall (enum : list N -> list N -> list C06_Model.mapping) (rematch : nat -> hostg -> molg -> list C03_Model.mapping)
    (core invert : bool) (G H : hostg) (thr : option N),
  pair_wfb G H = true -> mode_E G H = true ->
  default_okb (if invert then H else G) (if invert then G else H) (template core invert G H) = true ->
  (core = true -> centre_carries (its_construct G H) = true) ->
  own_valence_okb core invert G H = true ->
  forall (rc : its) (l r : molg), rule_of core invert G H = Some (rc, l, r) ->
  oracle_ok enum (tr_host (substrate invert G H)) (tr_pat l) ->
  ((0 <? length (comps (tr_pat l)))%nat && (length (comps (tr_pat l)) <? length (comps (tr_host (substrate invert G H))))%nat = true \/ (length (comps (tr_host (substrate invert G H))) <? length (comps (tr_pat l)))%nat = true \/ id_separatingb (tr_host (substrate invert G H)) (tr_pat l) = true) ->
  (N.max (comp_bound enum true (tr_host (substrate invert G H)) (tr_pat l)) (lenN (enum (node_ids (tr_host (substrate invert G H))) (node_ids (tr_pat l)))) <= dflt DEFAULT_THRESHOLD thr)%N ->
  exists (gs : list its) (T' : its),
    fst (read_its (api_engine enum) rematch (own_opts invert true (SMember 2%N) thr false) (substrate invert G H) (rc, l, r) fresh) = Some gs /\
    In T' gs /\ regen_folded T' (if invert then H else G) (if invert then G else H) = true.
Proof. exact own_bt_default_at. Qed.
Print Assumptions C04_own_bt_default_object.

(** * strategy comp in the strict_cc_count guard region: REFUTED (known findings *:comp:guard)

    find_subgraph_mappings(strategy=comp) with strict_cc_count at its default returns NO match when the substrate has more
    connected components than the pattern (C06: the documented guard of that parameter).  With a centre template and a
    spectator molecule or ion this is the case for the reaction's own reactants: the identity is a valid match, the exhaustive
    strategy and bt (which falls back to it) regenerate the reaction, comp returns an empty its_list.  Witness: CH3Br + OH- ->
    CH3OH + Br- next to a spectator water, centre template, forwards; verified enumerator as VF2.  Not repaired (the behaviour is
    the documented parameter; the reactor does not expose strict_cc_count); the oracle emits the key *:comp:guard exactly when
    the strategy is comp, 0 < pcc < hcc and nothing was returned (5 keys: usp#51, hand:spectator-water centre both directions,
    hand:intra-spectator centre backwards). *)
Theorem C04_comp_guard_refuted : exists (G H : hostg) (rule : triple),
  pair_wfb G H = true /\ no_explicit_H G = true /\ consistent_H (its_construct G H) = true /\
  centre_carries (its_construct G H) = true /\ rule_of true false G H = Some rule /\
  let host := substrate false G H in
  let pat := pattern_of (snd (fst rule)) in
  let enum := monos_on (tr_host host) (tr_pat pat) in
  let its_under (s : sarg) := fst (read_its (api_engine enum) no_rematch (own_opts false false s None false) host rule fresh) in
  match_okb host pat (id_map (node_ids pat)) = true /\
  (length (comps (tr_pat pat)) < length (comps (tr_host host)))%nat /\
  its_under (SStr [99; 111; 109; 112]%N) = Some [] /\
  (exists T, its_under (SMember 0%N) = Some [T] /\ regen_exact T G H = true) /\
  (exists T, its_under (SStr [98; 116]%N) = Some [T] /\ regen_exact T G H = true).
Proof. exact comp_guard_refuted. Qed.
Print Assumptions C04_comp_guard_refuted.

(** * the _explicit_h stage in EVERY visiting order

    The code iterates over a Python set when it pairs donors with recipients inside a hydrogen-transfer group; the executable
    model [explicit_h] (and with it [regenerate], [explicit_all], [read_its]) visits them in sorted order.  C03's
    [explicit_h_ord ord] is the same function with ANY duplicate-free listing [ord] of a group.  The two facts the default-mode
    theorems of this file rest on hold for every such order: the stage keeps the folded reaction, and it does not raise (a
    balanced pairing graph is balanced in any order: C03_explicitH_ord_crash_iff).  WHICH hydrogen goes to which recipient may
    differ between orders (C03: ex_ord_changes_wiring); the decomposition in implicit-hydrogen normal form does not. *)
Theorem C04_explicit_h_any_order_keeps_reaction : forall (ord : list N -> list N) (T T' : its) (ms : list (N * N)) (A B : hostg),
  (forall l x, In x (ord l) <-> In x l) -> (forall l, NoDup l -> NoDup (ord l)) ->
  wf_hostb A = true -> wf_hostb B = true -> foldable A -> foldable B -> closed A -> closed B ->
  NoDup (node_ids T) ->
  regen_exact T (h_to_implicit_host A) (h_to_implicit_host B) = true ->
  explicit_h_ord ord T = Some (T', ms) ->
  regen_folded T' A B = true.
Proof. exact explicit_end_ord. Qed.
Print Assumptions C04_explicit_h_any_order_keeps_reaction.

Theorem C04_any_match_explicit_h_total_any_order : forall (A B : hostg) (tpl rc : its) (l r : molg) (host : hostg)
    (y : C03_Model.mapping) (T : its),
  pair_wf A B -> describes A B tpl -> default_okb A B tpl = true ->
  synrule tpl true = Some (rc, l, r) -> wf_rcb rc = true ->
  match_rcb host rc y = true -> glue host rc y = Some T -> valence_okb tpl rc = true ->
  forall ord : list N -> list N,
  (forall l0 x, In x (ord l0) <-> In x l0) -> (forall l0, NoDup l0 -> NoDup (ord l0)) ->
  explicit_h_ord ord T <> None.
Proof. exact any_match_total_ord. Qed.
Print Assumptions C04_any_match_explicit_h_total_any_order.

(** * comp / bt for any rule with an EXPLICIT threshold bound (closes the "from some T0 on" of C04_{comp,bt}_regenerates_partial): for
    any options [o] with that strategy and no pre-filter whose effective threshold [dflt DEFAULT_THRESHOLD (o_thr o)] is not below
    C06's [comp_bound] (for bt: nor below the number of exhaustive matches); also exported: every kept mapping is a monomorphism *)
Theorem C04_comp_regenerates_at : forall (enum : list N -> list N -> list C06_Model.mapping)
    (A B : hostg) (rc : its) (l r : molg),
  pair_wf A B -> describes A B rc -> left_of rc l -> has_XH l = false ->
  forallb (fun p : N * mnode => 0 <=? m_hc (snd p)) (gnodes l) = true ->
  gwf (tr_host A) -> gwf (tr_pat l) -> oracle_ok enum (tr_host A) (tr_pat l) ->
  forall o : ropts,
  (0 <? length (comps (tr_pat l)))%nat && (length (comps (tr_pat l)) <? length (comps (tr_host A)))%nat = false ->
  ((length (comps (tr_host A)) <? length (comps (tr_pat l)))%nat = true \/
   separating (tr_host A) (tr_pat l) (id_map (node_ids l))) ->
  o_strategy o = SMember 1%N -> o_pref o = false ->
  (comp_bound enum true (tr_host A) (tr_pat l) <= dflt DEFAULT_THRESHOLD (o_thr o))%N ->
  exists (ms : list C03_Model.mapping) (y : C03_Model.mapping) (T' : its),
    compute_mappings (api_engine enum) o A (rc, l, r) = Some ms /\
    (forall m, In m ms -> is_mono (tr_host A) (tr_pat l) m) /\ In y ms /\
    glue A rc y = Some T' /\ regen_exact T' A B = true.
Proof. exact comp_regenerates_at. Qed.
Print Assumptions C04_comp_regenerates_at.

Theorem C04_bt_regenerates_at : forall (enum : list N -> list N -> list C06_Model.mapping)
    (A B : hostg) (rc : its) (l r : molg),
  pair_wf A B -> describes A B rc -> left_of rc l -> has_XH l = false ->
  forallb (fun p : N * mnode => 0 <=? m_hc (snd p)) (gnodes l) = true ->
  gwf (tr_host A) -> gwf (tr_pat l) -> oracle_ok enum (tr_host A) (tr_pat l) ->
  forall o : ropts,
  ((0 <? length (comps (tr_pat l)))%nat && (length (comps (tr_pat l)) <? length (comps (tr_host A)))%nat = true \/
   (length (comps (tr_host A)) <? length (comps (tr_pat l)))%nat = true \/
   separating (tr_host A) (tr_pat l) (id_map (node_ids l))) ->
  o_strategy o = SMember 2%N -> o_pref o = false ->
  (N.max (comp_bound enum true (tr_host A) (tr_pat l)) (lenN (enum (node_ids (tr_host A)) (node_ids (tr_pat l)))) <= dflt DEFAULT_THRESHOLD (o_thr o))%N ->
  exists (ms : list C03_Model.mapping) (y : C03_Model.mapping) (T' : its),
    compute_mappings (api_engine enum) o A (rc, l, r) = Some ms /\
    (forall m, In m ms -> is_mono (tr_host A) (tr_pat l) m) /\ In y ms /\
    glue A rc y = Some T' /\ regen_exact T' A B = true.
Proof. exact bt_regenerates_at. Qed.
Print Assumptions C04_bt_regenerates_at.
