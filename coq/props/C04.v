(** C04 — applying a reaction's own template regenerates it, forwards and backwards.
    Statements only; every proof is [exact <lemma of proof/C04_*.v>]. *)
From Coq Require Import List NArith ZArith Bool.
From SK Require Import lib.Tok lib.LGraph model.C03_Model model.C04_Model proof.C04_Proof.
Import ListNotations.
Local Open Scope Z_scope.

Theorem C04_id_map_domain : forall ns : list N, map fst (id_map ns) = ns.
Proof. exact id_map_fst. Qed.
Print Assumptions C04_id_map_domain.
