(** C09 — reaction normal forms preserve the reaction; equivalence checks are exact.
    Statements only; every proof is [exact <lemma of proof/C09_*.v>].

    Vocabulary (model/C01_Model.v, model/C09_Model.v, proof/C09_Canon.v, proof/C09_Valid.v, proof/C09_Main.v):
      [parsed G]            = wf G (distinct ids, simple edges between present atoms) /\ amap_id G (atom_map = node id)
                              /\ pos_ids G (ids <> 0): what rsmi_to_graph(expand_aam(r)) returns (RDKit: monitored)
      [enumerates order G]  = NoDup order /\ forall n, In n order <-> In n (node_ids G): the canonical order of the
                              back-end lists every reactant atom once (C08: proved for wl with ANY colour ranking and
                              for the nauty search)
      [sigma_of order]      = old id -> 1-based position in [order] (GraphCanonicaliser's mapping)
      [relabelled_by s G X] = Permutation (gnodes X) (gnodes (relabel s G)) /\ gedges X = gedges (relabel s G)
                              (X is G with ids renamed by s, all attributes kept, nodes possibly inserted in another order)
      [canonicalise_with Gc H] = CanonRSMI.canonicalise after the canonical reactant graph Gc is known:
                              get_aam_pairwise_indices, partner-less product atoms numbered after the reactant atoms
                              (repair 8092e28), remap_graph (nx.relabel_nodes), sync_atom_map_with_index ([set_amap])
      [its_emb g1 g2 f]     = f maps the atoms of g2 injectively to atoms of g1 with equal typesGH (both halves:
                              element, aromatic, hcount, charge, neighbors), bonds to bonds with equal order pair,
                              non-bonds to non-bonds
      [its_isomorphic g1 g2]= equally many atoms and bonds /\ exists f, its_emb g1 g2 f
      [smiles_check_its / smiles_check_rc] = AAMValidator.smiles_check (ITS / RC) on the parsed graph pairs.
      [same_upto_order X Y] = Permutation (gnodes X) (gnodes Y) /\ gedges X = gedges Y (the same graph, nodes possibly
                              inserted in another order). *)
From Coq Require Import List NArith ZArith Bool Permutation.
From SK Require Import lib.LGraph model.C01_Model model.C02_Model model.C09_Model
  proof.C09_Canon proof.C09_Valid proof.C09_Balance proof.C09_Main proof.C09_Indep proof.C09_Indep2 proof.C09_ValidRC proof.C09_WL proof.C09_NautyRigid proof.C09_Nauty.
From SK Require Import lib.StrJoin model.C09_Strings model.C09_State proof.C09_Str proof.C09_Expand proof.C09_Graph proof.C09_Backends proof.C09_State proof.C09_StrFit.
From SK Require Import model.C09_Helpers proof.C09_Helpers model.C09_Records proof.C09_Records proof.C09_Top proof.C09_Opt.
From SK Require Import model.C01_String model.C01_HBal model.C09_Normalize proof.C09_Normalize proof.C09_NormBalance proof.C09_WLRefuted proof.C09_WLFix proof.C09_NautyFix2.
From SK Require model.C08_Model proof.C08_Spec model.C01_Opts.
Import ListNotations.

(** 1. Canonicalising = relabelling both sides by ONE injective map f (canonical position on the reactant atoms, fresh
       numbers after them on product atoms without partner): the canonical reactant graph is G renamed by f, the
       canonical product graph is H renamed by f, mapping_pairs are exactly the shared atoms, the ITS of the canonical
       reaction is isomorphic to the ITS of the input (atom-map-equivalent) and the validator accepts the pair.
       For every canonical order that enumerates the reactant atoms; balanced or not. *)
Theorem C09_canon_is_relabelling : forall (G H Gc : mgraph) (order : list N),
  parsed G -> parsed H -> enumerates order G -> relabelled_by (sigma_of order) G Gc ->
  (exists s, In s (node_ids G) /\ In s (node_ids H)) ->
  exists (f : N -> N) (pairs : list (N * N)) (Hc : mgraph),
    (forall a b, f a = f b -> a = b) /\
    (forall n, In n (node_ids G) -> f n = sigma_of order n) /\
    canonicalise_with Gc H = Some (set_amap Gc, pairs, set_amap Hc) /\
    relabelled_by f G Gc /\ Hc = relabel f H /\
    (forall a b, In (a, b) pairs <-> In b (node_ids G) /\ In b (node_ids H) /\ a = f b) /\
    its_isomorphic (its_construct (set_amap Gc) (set_amap Hc)) (its_construct G H) /\
    smiles_check_its (set_amap Gc) (set_amap Hc) G H = true.
Proof. exact canon_is_relabelling. Qed.
Print Assumptions C09_canon_is_relabelling.

(** the two back-ends the correspondence runs ([run_canon_wl] / [run_canon_nauty]).  wl: whatever colour ranking the
    WL oracle returns; canonical reactant ids are exactly 1..N. *)
Theorem C09_canon_wl_is_relabelling : forall (ranks : list (N * Z)) (G H : mgraph),
  parsed G -> parsed H -> (exists s, In s (node_ids G) /\ In s (node_ids H)) ->
  exists (f : N -> N) (Gc Hc : mgraph) (pairs : list (N * N)),
    (forall a b, f a = f b -> a = b) /\
    canonicalise_wl ranks G H = Some (set_amap Gc, pairs, set_amap Hc) /\
    relabelled_by f G Gc /\ Hc = relabel f H /\
    Permutation (node_ids Gc) (map N.of_nat (seq 1 (length (gnodes G)))) /\
    its_isomorphic (its_construct (set_amap Gc) (set_amap Hc)) (its_construct G H).
Proof. exact canon_wl_is_relabelling. Qed.
Print Assumptions C09_canon_wl_is_relabelling.

Theorem C09_canon_nauty_is_relabelling : forall G H : mgraph,
  parsed G -> parsed H -> (exists s, In s (node_ids G) /\ In s (node_ids H)) ->
  exists (f : N -> N) (Hc : mgraph) (pairs : list (N * N)),
    (forall a b, f a = f b -> a = b) /\
    canonicalise_nauty G H = Some (set_amap (relabel f G), pairs, set_amap Hc) /\ Hc = relabel f H /\
    its_isomorphic (its_construct (set_amap (relabel f G)) (set_amap Hc)) (its_construct G H).
Proof. exact canon_nauty_is_relabelling. Qed.
Print Assumptions C09_canon_nauty_is_relabelling.

Theorem C09_canon_generic_is_relabelling : forall G H : mgraph,
  parsed G -> parsed H -> (exists s, In s (node_ids G) /\ In s (node_ids H)) ->
  exists (f : N -> N) (Gc Hc : mgraph) (pairs : list (N * N)),
    (forall a b, f a = f b -> a = b) /\
    canonicalise_generic G H = Some (set_amap Gc, pairs, set_amap Hc) /\
    relabelled_by f G Gc /\ Hc = relabel f H /\
    its_isomorphic (its_construct (set_amap Gc) (set_amap Hc)) (its_construct G H).
Proof. exact canon_generic_is_relabelling. Qed.
Print Assumptions C09_canon_generic_is_relabelling.

(** 1'. The step added by repair 8092e28 is necessary: remap_graph with the shared pairs only (the code before the
       repair) can send two product atoms to the same id (witness: the regress case collision#wl). *)
Theorem C09_unbalanced_collision_refuted :
  exists (Gc H : mgraph), NoDup (node_ids H) /\ amap_id H /\
    match remap_graph H (aam_pairs Gc H) with
    | Some Hc => (length (gnodes Hc) < length (gnodes H))%nat
    | None => False
    end.
Proof. exact unbalanced_collision_refuted. Qed.
Print Assumptions C09_unbalanced_collision_refuted.

(** 2. Numbering / atom-order independence and fixed point, graph level, GENERIC over the canonical order of the back-end.
       (Rounds 2-4 called these two statements _partial: they left open (i) the RDKit writer / parser contract, (ii) the
       invariance premise, (iii) presentations that list the bonds in another order.  Round 5 closes (i) as explicit premises
       and (iii) in full; (ii) is discharged for nauty on rigid reactant graphs and for wl on pairwise distinct colours -
       section 8, which also says what remains open (wl with tied colours: refuted; fixed point on symmetric reactants:
       oracle only).  The statements below are the generic lemmas "given the invariance of the graph canonicaliser".)
       Both presentations (G, H) and (p.G, p.H) (node ids renamed by an injective p, atoms listed in any order, atom_map
       attributes rewritten, bonds listed in corresponding order) get THE SAME canonical reactant and product graphs up to node
       insertion order, PROVIDED (premise, last line) the graph canonicaliser gives corresponding atoms the same canonical id,
       and p keeps the relative order of the product atoms WITHOUT reactant partner (they are numbered in the order of their
       input numbers; vacuous when every product atom has a partner; necessary: C09_numbering_partnerless_refuted). *)
Theorem C09_numbering_independent_given_invariance :
  forall (G H G2' H2' Gc1 Gc2 : mgraph) (order1 order2 : list N) (p : N -> N),
  parsed G -> parsed H -> (exists s, In s (node_ids G) /\ In s (node_ids H)) ->
  (forall a b, p a = p b -> a = b) -> (forall n, In n (node_ids G) \/ In n (node_ids H) -> p n <> 0%N) ->
  (forall m n, In m (node_ids H) -> ~ In m (node_ids G) -> In n (node_ids H) -> ~ In n (node_ids G) -> (m <= n)%N -> (p m <= p n)%N) ->
  relabelled_by p G G2' -> relabelled_by p H H2' ->
  enumerates order1 G -> relabelled_by (sigma_of order1) G Gc1 ->
  enumerates order2 (set_amap G2') -> relabelled_by (sigma_of order2) (set_amap G2') Gc2 ->
  (forall n, In n (node_ids G) -> sigma_of order2 (p n) = sigma_of order1 n) ->
  exists (pairs1 pairs2 : list (N * N)) (Hc1 Hc2 : mgraph),
    canonicalise_with Gc1 H = Some (set_amap Gc1, pairs1, set_amap Hc1) /\
    canonicalise_with Gc2 (set_amap H2') = Some (set_amap Gc2, pairs2, set_amap Hc2) /\
    same_upto_order (set_amap Gc2) (set_amap Gc1) /\ same_upto_order (set_amap Hc2) (set_amap Hc1).
Proof. exact presentation_independent_mono. Qed.
Print Assumptions C09_numbering_independent_given_invariance.

(** fixed point (balanced or not, partner-less product atoms included): canonicalising the canonical graphs returns
    them (up to node insertion order) provided the graph canonicaliser maps every canonical reactant id to itself
    (premise; discharged for wl and nauty in section 8, where the string level is treated too). *)
Theorem C09_fixed_point_given_invariance : forall (G H Gc1 : mgraph) (order1 : list N),
  parsed G -> parsed H -> (exists s, In s (node_ids G) /\ In s (node_ids H)) ->
  enumerates order1 G -> relabelled_by (sigma_of order1) G Gc1 ->
  exists (pairs1 : list (N * N)) (Gc1' Hc1' : mgraph),
    canonicalise_with Gc1 H = Some (Gc1', pairs1, Hc1') /\
    forall (order2 : list N) (Gc2 : mgraph),
      enumerates order2 Gc1' -> relabelled_by (sigma_of order2) Gc1' Gc2 ->
      (forall m, In m (node_ids Gc1') -> sigma_of order2 m = m) ->
      exists (pairs2 : list (N * N)) (Hc2' : mgraph),
        canonicalise_with Gc2 Hc1' = Some (set_amap Gc2, pairs2, Hc2') /\
        same_upto_order (set_amap Gc2) Gc1' /\ same_upto_order Hc2' Hc1'.
Proof. exact fixed_point_gen. Qed.
Print Assumptions C09_fixed_point_given_invariance.

(** the order premise of C09_numbering_independent_given_invariance is necessary: with two product atoms without reactant partner
    ([Na+:8] and [K+:9] added to CH3Br + OH- >> CH3OH + Br-), exchanging their numbers - a renumbering that fixes every
    reactant atom - exchanges their canonical numbers: canonical product atom 4 is Na in one presentation and K in the
    other although all reactant atoms are distinguishable.  Known finding (key partnerless-product-atoms-order). *)
Theorem C09_numbering_partnerless_refuted :
  exists (G H : mgraph) (order : list N) (p : N -> N),
    parsed G /\ enumerates order G /\ (forall a b, p a = p b -> a = b) /\ (forall n, In n (node_ids G) -> p n = n) /\
    exists Gc1 pr1 Hc1 Gc2 pr2 Hc2,
      canonicalise_with (canon_rebuild order G) H = Some (Gc1, pr1, Hc1) /\
      canonicalise_with (canon_rebuild order G) (set_amap (relabel p H)) = Some (Gc2, pr2, Hc2) /\
      option_map g_el (label Hc1 4%N) <> option_map g_el (label Hc2 4%N).
Proof. exact partnerless_order_refuted. Qed.
Print Assumptions C09_numbering_partnerless_refuted.

(** 2'. Back-end wl, invariance premise DISCHARGED: if the WL colours (oracle input [ranks]; networkx's contract: colours
       are invariant under renaming - premise) of corresponding atoms correspond and all reactant atoms have different
       colours ([ranks_distinct]), the two presentations get the same canonical graphs from [canonicalise_wl] (the
       function [run_canon_wl] evaluates), and a second run on the canonical graphs returns them.  These two statements are
       for presentations that list the bonds in corresponding order (conclusion: the SAME bond list); the general case
       (any atom order, bond order, bond orientation) and the string level are section 8 below. *)
Theorem C09_numbering_independent_wl_same_bond_order :
  forall (ranks1 ranks2 : list (N * Z)) (G H G2' H2' : mgraph) (p : N -> N),
  parsed G -> parsed H -> (exists s, In s (node_ids G) /\ In s (node_ids H)) ->
  (forall a b, p a = p b -> a = b) -> (forall n, In n (node_ids G) \/ In n (node_ids H) -> p n <> 0%N) ->
  (forall m n, In m (node_ids H) -> ~ In m (node_ids G) -> In n (node_ids H) -> ~ In n (node_ids G) -> (m <= n)%N -> (p m <= p n)%N) ->
  relabelled_by p G G2' -> relabelled_by p H H2' ->
  (forall n, In n (node_ids G) -> C08_Model.rank_of ranks2 (p n) = C08_Model.rank_of ranks1 n) -> ranks_distinct ranks1 G ->
  exists (pairs1 pairs2 : list (N * N)) (Gc1 Gc2 Hc1 Hc2 : mgraph),
    canonicalise_wl ranks1 G H = Some (Gc1, pairs1, Hc1) /\
    canonicalise_wl ranks2 (set_amap G2') (set_amap H2') = Some (Gc2, pairs2, Hc2) /\
    same_upto_order Gc2 Gc1 /\ same_upto_order Hc2 Hc1.
Proof. exact numbering_independent_wl. Qed.
Print Assumptions C09_numbering_independent_wl_same_bond_order.

Theorem C09_fixed_point_wl_same_bond_order : forall (ranks1 ranks2 : list (N * Z)) (G H : mgraph),
  parsed G -> parsed H -> (exists s, In s (node_ids G) /\ In s (node_ids H)) ->
  ranks_distinct ranks1 G ->
  (forall n, In n (node_ids G) -> C08_Model.rank_of ranks2 (sigma_of (wl_order ranks1 G) n) = C08_Model.rank_of ranks1 n) ->
  exists (pairs1 : list (N * N)) (Gc1 Hc1 : mgraph),
    canonicalise_wl ranks1 G H = Some (Gc1, pairs1, Hc1) /\
    exists (pairs2 : list (N * N)) (Gc2 Hc2 : mgraph),
      canonicalise_wl ranks2 Gc1 Hc1 = Some (Gc2, pairs2, Hc2) /\ same_upto_order Gc2 Gc1 /\ same_upto_order Hc2 Hc1.
Proof. exact fixed_point_wl. Qed.
Print Assumptions C09_fixed_point_wl_same_bond_order.

(** 2''. Back-end nauty, invariance premise DISCHARGED from the C08 facts about the search (the best leaf of a renamed
       graph is the image of a leaf with the same label; leaves with the same label correspond by an automorphism):
       when all reactant atoms are distinguishable ([rigid (to_c08 G)]: the only position-wise correspondence between two
       enumerations of the atoms that keeps element, charge, aromaticity, hydrogen count and the bonds is the identity)
       and the element symbols are alphanumeric ([els_ok]), the two presentations get the same canonical graphs from
       [canonicalise_nauty] (the function [run_canon_nauty] evaluates), and a second run returns the canonical graphs.
       Same remark: bonds listed in corresponding order here; general case and string level in section 8. *)
Theorem C09_numbering_independent_nauty_same_bond_order : forall (G H G2' H2' : mgraph) (p : N -> N),
  parsed G -> parsed H -> (exists s, In s (node_ids G) /\ In s (node_ids H)) ->
  (forall a b, p a = p b -> a = b) -> (forall n, In n (node_ids G) \/ In n (node_ids H) -> p n <> 0%N) ->
  (forall m n, In m (node_ids H) -> ~ In m (node_ids G) -> In n (node_ids H) -> ~ In n (node_ids G) -> (m <= n)%N -> (p m <= p n)%N) ->
  relabelled_by p G G2' -> relabelled_by p H H2' ->
  C08_Spec.els_ok (to_c08 G) -> rigid (to_c08 G) ->
  exists (pairs1 pairs2 : list (N * N)) (Gc1 Gc2 Hc1 Hc2 : mgraph),
    canonicalise_nauty G H = Some (Gc1, pairs1, Hc1) /\
    canonicalise_nauty (set_amap G2') (set_amap H2') = Some (Gc2, pairs2, Hc2) /\
    same_upto_order Gc2 Gc1 /\ same_upto_order Hc2 Hc1.
Proof. exact numbering_independent_nauty. Qed.
Print Assumptions C09_numbering_independent_nauty_same_bond_order.

Theorem C09_fixed_point_nauty_same_bond_order : forall G H : mgraph,
  parsed G -> parsed H -> (exists s, In s (node_ids G) /\ In s (node_ids H)) ->
  C08_Spec.els_ok (to_c08 G) -> rigid (to_c08 G) ->
  exists (pairs1 : list (N * N)) (Gc1 Hc1 : mgraph),
    canonicalise_nauty G H = Some (Gc1, pairs1, Hc1) /\
    exists (pairs2 : list (N * N)) (Gc2 Hc2 : mgraph),
      canonicalise_nauty Gc1 Hc1 = Some (Gc2, pairs2, Hc2) /\ same_upto_order Gc2 Gc1 /\ same_upto_order Hc2 Hc1.
Proof. exact fixed_point_nauty. Qed.
Print Assumptions C09_fixed_point_nauty_same_bond_order.

(** 3. The validator is exact: the matcher the correspondence runs answers true iff the two ITS graphs (resp. the two
       reaction centres) are isomorphic on typesGH + order. *)
Theorem C09_validator_exact : forall G1 H1 G2 H2 : mgraph, wf G2 -> wf H2 ->
  (smiles_check_its G1 H1 G2 H2 = true <-> its_isomorphic (its_construct G1 H1) (its_construct G2 H2)) /\
  (smiles_check_rc G1 H1 G2 H2 = true <->
     its_isomorphic (get_rc (its_construct G1 H1)) (get_rc (its_construct G2 H2))).
Proof. exact validator_exact. Qed.
Print Assumptions C09_validator_exact.

(** options (round 3): with ignore_aromaticity = ia the validator is exact on the ITS / centre built with that option
    ([its_construct_o], C01_Opts: standard_order zeroed when the orders differ by less than 1); ia = false is the function
    above.  The model functions are pure: a verdict never depends on the calls made before (the implementation is
    compared step by step in history cases). *)
Theorem C09_validator_exact_options : forall (ia : bool) (G1 H1 G2 H2 : mgraph), wf G2 -> wf H2 ->
  (smiles_check_its_o ia G1 H1 G2 H2 = true <->
     its_isomorphic (C01_Opts.its_construct_o (vopts ia) G1 H1) (C01_Opts.its_construct_o (vopts ia) G2 H2)) /\
  (smiles_check_rc_o ia G1 H1 G2 H2 = true <->
     its_isomorphic (get_rc (C01_Opts.its_construct_o (vopts ia) G1 H1)) (get_rc (C01_Opts.its_construct_o (vopts ia) G2 H2))).
Proof. exact validator_exact_o. Qed.
Print Assumptions C09_validator_exact_options.

Theorem C09_validator_default_option : forall G1 H1 G2 H2 : mgraph,
  smiles_check_its_o false G1 H1 G2 H2 = smiles_check_its G1 H1 G2 H2 /\
  smiles_check_rc_o false G1 H1 G2 H2 = smiles_check_rc G1 H1 G2 H2.
Proof. exact smiles_check_o_default. Qed.
Print Assumptions C09_validator_default_option.

(** every renumbering of a mapping is accepted, by both methods, also with re-ordered atoms and rewritten atom_map
    attributes, as the parser of the renumbered string delivers them ([relabelled_by f G G'], [set_amap]) *)
Theorem C09_validator_renumbering : forall (f : N -> N) (G H : mgraph),
  (forall a b, f a = f b -> a = b) -> wf G -> wf H ->
  smiles_check_its (relabel f G) (relabel f H) G H = true /\
  smiles_check_rc (relabel f G) (relabel f H) G H = true /\
  (forall G' H', relabelled_by f G G' -> relabelled_by f H H' -> smiles_check_its (set_amap G') (set_amap H') G H = true).
Proof. exact validator_renumbering. Qed.
Print Assumptions C09_validator_renumbering.

Theorem C09_validator_renumbering_rc : forall (f : N -> N) (G H G' H' : mgraph),
  (forall a b, f a = f b -> a = b) -> wf G -> wf H ->
  relabelled_by f G G' -> relabelled_by f H H' -> smiles_check_rc (set_amap G') (set_amap H') G H = true.
Proof. exact validator_renumbering_rc. Qed.
Print Assumptions C09_validator_renumbering_rc.

(** a mapping in which the product-side numbers of two atoms x, y are transposed is rejected whenever it is not
    equivalent to the reference, i.e. whenever x and y are not interchangeable: no isomorphism between the swapped
    and the reference ITS (resp. centre).  (By C09_validator_exact this is an equivalence: the swap is accepted iff
    the transposition factors through automorphisms of the two sides.) *)
Theorem C09_validator_rejects_swap : forall (x y : N) (G H : mgraph), wf G -> wf H ->
  (~ its_isomorphic (its_construct G (relabel (transp x y) H)) (its_construct G H) ->
   smiles_check_its G (relabel (transp x y) H) G H = false) /\
  (~ its_isomorphic (get_rc (its_construct G (relabel (transp x y) H))) (get_rc (its_construct G H)) ->
   smiles_check_rc G (relabel (transp x y) H) G H = false).
Proof. exact validator_rejects_swap. Qed.
Print Assumptions C09_validator_rejects_swap.

(** 4. Balance, graph level: true exactly when every element count (implicit hydrogens counted as H atoms) and the
       total charge agree.  (BalanceReactionCheck compares RDKit's CalcMolFormula strings: oracle, monitored.) *)
Theorem C09_balance_iff : forall G H : mgraph,
  balancedb G H = true <-> (forall e, el_count e G = el_count e H) /\ total_charge G = total_charge H.
Proof. exact balance_iff. Qed.
Print Assumptions C09_balance_iff.

(** dicts_balance_check (round 3): the records are split into (balanced, unbalanced) without loss or duplication, and a
    record is in the balanced list exactly when its element counts (with H) and total charge agree *)
Theorem C09_balance_partition : forall (X : Type) (rs : list (X * (mgraph * mgraph))),
  Permutation (fst (balance_partition rs) ++ snd (balance_partition rs)) (map fst rs) /\
  (forall x, In x (fst (balance_partition rs)) <->
     exists G H, In (x, (G, H)) rs /\ (forall e, el_count e G = el_count e H) /\ total_charge G = total_charge H) /\
  (forall x, In x (snd (balance_partition rs)) <->
     exists G H, In (x, (G, H)) rs /\ ~ ((forall e, el_count e G = el_count e H) /\ total_charge G = total_charge H)).
Proof. exact @balance_partition_spec. Qed.
Print Assumptions C09_balance_partition.

(** remap_graph in its list form (round 4): for a duplicate-free list of all nodes it relabels every node to its 1-based
    position in the list, i.e. it is [relabel (sigma_of l)] - the same relabelling the canonicaliser applies to the reactants *)
Theorem C09_remap_graph_list : forall (H : mgraph) (l : list N),
  wf H -> NoDup l -> (forall n, In n l <-> In n (node_ids H)) -> l <> [] ->
  remap_graph_list H l = Some (relabel (sigma_of l) H).
Proof. exact remap_graph_list_spec. Qed.
Print Assumptions C09_remap_graph_list.

(** 5. STRING LEVEL (round 5, model/C09_Strings.v): the logic of Standardize around the RDKit calls.  RDKit enters as oracle
       functions: [canon f] = the canonical SMILES filter_valid_molecules + MolToSmiles give for ONE fragment string (None =
       filtered out), [clean side] = remove_atom_mapping's clean_smiles.  The model functions are what the correspondence
       evaluates on every `std` case ([run_std]: all six ways of calling the standardiser, the filtered fragment lists,
       remove_atom_mapping, categorize_reactions), with the oracle tables computed by calling RDKit directly.
       Vocabulary: [rsmi_of rs ps] = ".".join(rs) + ">>" + ".".join(ps); [frags_ok l] = l non-empty, no '.' and no '>' inside
       a fragment (what str.split produces from a reaction string). *)

(** the standard form depends ONLY on the multiset of canonical fragment strings of each side - for every oracle.  Instances:
    fragment order (any permutation of the fragments of both sides), atom order / re-rooting (fragments with the same
    canonical string), both at once. *)
Theorem C09_standardize_multiset : forall (canon : str -> option str) (rs ps rs' ps' : list str),
  frags_ok rs -> frags_ok ps -> frags_ok rs' -> frags_ok ps' ->
  Permutation (map canon rs) (map canon rs') -> Permutation (map canon ps) (map canon ps') ->
  standardize_rsmi canon (rsmi_of rs ps) = standardize_rsmi canon (rsmi_of rs' ps').
Proof. exact standardize_multiset. Qed.
Print Assumptions C09_standardize_multiset.

Theorem C09_standardize_fragment_order : forall (canon : str -> option str) (rs ps rs' ps' : list str),
  frags_ok rs -> frags_ok ps -> Permutation rs rs' -> Permutation ps ps' ->
  standardize_rsmi canon (rsmi_of rs ps) = standardize_rsmi canon (rsmi_of rs' ps').
Proof. exact standardize_fragment_order. Qed.
Print Assumptions C09_standardize_fragment_order.

Theorem C09_standardize_rewriting : forall (canon : str -> option str) (rs ps rs' ps' : list str),
  frags_ok rs -> frags_ok ps -> frags_ok rs' -> frags_ok ps' ->
  Forall2 (fun f f' => canon f = canon f') rs rs' -> Forall2 (fun f f' => canon f = canon f') ps ps' ->
  standardize_rsmi canon (rsmi_of rs ps) = standardize_rsmi canon (rsmi_of rs' ps').
Proof. exact standardize_rewriting. Qed.
Print Assumptions C09_standardize_rewriting.

(** idempotence for EVERY input string, relative to the writer contract (explicit premise about RDKit, monitored by the
    oracle clause standardize-idempotent on every run): a written fragment is read back and written as itself, and
    contains neither '.' nor '>' *)
Theorem C09_standardize_idempotent : forall (canon : str -> option str) (s t : str),
  (forall f c, canon f = Some c -> canon c = Some c /\ nosep DOT c /\ nosep GT c) ->
  standardize_rsmi canon s = SSome t -> standardize_rsmi canon t = SSome t.
Proof. exact standardize_idempotent. Qed.
Print Assumptions C09_standardize_idempotent.

(** shape of the result: exactly two parts, on each side the surviving fragments, sorted, joined; None iff a side has no
    surviving fragment *)
Theorem C09_standardize_shape : forall (canon : str -> option str) (s t : str), standardize_rsmi canon s = SSome t ->
  exists a b, split_gg s = [a; b] /\
    t = join DOT (sort_strs (valid_frags canon a)) ++ GG ++ join DOT (sort_strs (valid_frags canon b)) /\
    valid_frags canon a <> [] /\ valid_frags canon b <> [].
Proof. exact standardize_shape. Qed.
Print Assumptions C09_standardize_shape.

(** Standardize.fit: with remove_aam=False (any ignore_stereo; [canon st] = writer with isomericSmiles = st) the invariances
    of standardize_rsmi carry over; with remove_aam=True (default) the result is a function of the two cleaned sides, so fit
    distinguishes nothing that RDKit's canonical writer of the un-numbered side does not distinguish (atom order, fragment
    order, map numbers: RDKit contract, monitored by the clause standardize-invariant) *)
Theorem C09_std_fit_multiset : forall (clean : str -> option str) (canon : bool -> str -> option str) (ist : bool) (rs ps rs' ps' : list str),
  frags_ok rs -> frags_ok ps -> frags_ok rs' -> frags_ok ps' ->
  Permutation (map (canon (negb ist)) rs) (map (canon (negb ist)) rs') ->
  Permutation (map (canon (negb ist)) ps) (map (canon (negb ist)) ps') ->
  std_fit clean canon false ist (rsmi_of rs ps) = std_fit clean canon false ist (rsmi_of rs' ps').
Proof. exact std_fit_multiset. Qed.
Print Assumptions C09_std_fit_multiset.

Theorem C09_std_fit_default_invariant : forall (clean : str -> option str) (canon : bool -> str -> option str) (ist : bool) (a b a' b' : str),
  nosep GT a -> nosep GT b -> nosep GT a' -> nosep GT b' -> clean a = clean a' -> clean b = clean b' ->
  std_fit clean canon true ist (a ++ GG ++ b) = std_fit clean canon true ist (a' ++ GG ++ b').
Proof. exact std_fit_default_invariant. Qed.
Print Assumptions C09_std_fit_default_invariant.

Theorem C09_std_fit_shape : forall (clean : str -> option str) (canon : bool -> str -> option str) (ra ist : bool) (s u : str),
  std_fit clean canon ra ist s = SSome u ->
  exists s1 t, (if ra then remove_atom_mapping clean s else Some s) = Some s1 /\
               standardize_rsmi (canon (negb ist)) s1 = SSome t /\ u = replace_HH t.
Proof. exact std_fit_shape. Qed.
Print Assumptions C09_std_fit_shape.

(** Standardize.fit is idempotent for EVERY input string and every option combination, relative to two explicit RDKit
    contracts (monitored by the clause standardize-idempotent on every run): the writer contract of one fragment, and
    [side_contract]: a side of a standard form - sorted canonical fragments joined by '.', "[HH]" written "[H][H]" - is read
    back ([reader]: with remove_aam=True through remove_atom_mapping's cleaned side string, which contains no '>') as the same
    fragments.  The model part: replace_HH commutes with the '.' / '>>' structure (proof/C09_StrFit.v), split / join /
    sorted / filter as above. *)
Theorem C09_std_fit_idempotent : forall (clean : str -> option str) (canon : bool -> str -> option str) (ra ist : bool) (s u : str),
  (forall f c, canon (negb ist) f = Some c -> canon (negb ist) c = Some c /\ nosep DOT c /\ nosep GT c) ->
  (forall A : list str, A <> [] -> (forall f, In f A -> exists g, canon (negb ist) g = Some f) ->
     exists B, reader clean (canon (negb ist)) ra (replace_HH (join DOT A)) = Some B /\ Permutation B A) ->
  std_fit clean canon ra ist s = SSome u -> std_fit clean canon ra ist u = SSome u.
Proof. exact std_fit_idempotent. Qed.
Print Assumptions C09_std_fit_idempotent.

(** categorize_reactions: loss-free split; a reaction matches exactly when it IS the standard form of the target *)
Theorem C09_categorize_spec : forall (canon : bool -> str -> option str) (rs : list str) (target : str) (m n : list str),
  categorize canon rs target = Some (m, n) ->
  Permutation (m ++ n) rs /\ (forall r, In r m <-> In r rs /\ standardize_rsmi (canon false) target = SSome r).
Proof. exact categorize_spec. Qed.
Print Assumptions C09_categorize_spec.

(** rsmi_balance_check at string level: on "a>>b" with readable sides the verdict is the equality of the two formula strings
    (CalcMolFormula: oracle; its agreement with element counts + charge is compared on every balance case through
    [run_balance] / C09_balance_iff) *)
Theorem C09_rsmi_balance_check_spec : forall (formula : str -> option str) (a b : str), nosep GT a -> nosep GT b ->
  forall fa fb, formula a = Some fa -> formula b = Some fb ->
  (rsmi_balance_check formula (a ++ GG ++ b) = Some true <-> fa = fb).
Proof. exact rsmi_balance_check_spec. Qed.
Print Assumptions C09_rsmi_balance_check_spec.

(** 6. expand_aam's numbering ([maps] = the map numbers of all atoms, reactant molecules first, 0 = unmapped; compared with the
       atoms of the molecules expand_aam really numbered on every `expand` case): mapped atoms keep their number, the
       k-th unmapped atom gets next_id + k which is larger than every number of the input, strictly increasing. *)
Theorem C09_expand_numbers_spec : forall maps : list Z,
  let out := expand_numbers maps in
  length out = length maps /\
  (forall i, (i < length maps)%nat -> nth i maps 0%Z <> 0%Z -> nth i out 0%Z = nth i maps 0%Z) /\
  (forall i, (i < length maps)%nat -> nth i maps 0%Z = 0%Z ->
     nth i out 0%Z = (next_id maps + zeros (firstn i maps))%Z /\ forall m, In m maps -> (m < nth i out 0%Z)%Z) /\
  (forall i j, (i < j < length maps)%nat -> nth i maps 0%Z = 0%Z -> nth j maps 0%Z = 0%Z -> (nth i out 0%Z < nth j out 0%Z)%Z) /\
  (forall x, In x out -> (forall m, In m maps -> (0 <= m)%Z) -> (0 < x)%Z).
Proof. exact expand_numbers_spec. Qed.
Print Assumptions C09_expand_numbers_spec.

(** per side (this is what makes the premise [parsed] of the canonicaliser theorems true after rsmi_to_graph, which uses the
    map number as node id): every atom has its own positive number when the mapped atoms of the side had pairwise different
    numbers; the sides share exactly the numbers they shared before (an unmapped atom never gets a partner); mapped numbers
    are kept. *)
Theorem C09_expand_sides_spec : forall (rmaps pmaps R P : list Z),
  (forall m, In m (rmaps ++ pmaps) -> (0 <= m)%Z) ->
  expand_sides (length rmaps) (rmaps ++ pmaps) = (R, P) ->
  length R = length rmaps /\ length P = length pmaps /\
  (NoDup (filter nz rmaps) -> NoDup R) /\ (NoDup (filter nz pmaps) -> NoDup P) /\
  (forall x, In x R \/ In x P -> (0 < x)%Z) /\
  (forall x, In x R -> In x P -> In x rmaps /\ In x pmaps /\ x <> 0%Z) /\
  (forall x, x <> 0%Z -> In x rmaps -> In x R) /\ (forall x, x <> 0%Z -> In x pmaps -> In x P).
Proof. exact expand_sides_spec. Qed.
Print Assumptions C09_expand_sides_spec.

(** 7. check_equivariant_graph: the pairs are exactly the index pairs i < j of isomorphic graphs (by C09_validator_exact:
       of graphs isomorphic on typesGH + order), the count is their number, and smiles_check's "count == 1" on two graphs is
       the test of the validator theorems. *)
Theorem C09_check_equivariant_graph_spec : forall gs : list its,
  (forall a b, In (a, b) (fst (check_equivariant_graph gs)) <->
     (a < b < length gs)%nat /\ is_isomorphic (nth a gs its0) (nth b gs its0) = true) /\
  snd (check_equivariant_graph gs) = length (fst (check_equivariant_graph gs)).
Proof. exact check_equivariant_graph_spec. Qed.
Print Assumptions C09_check_equivariant_graph_spec.

Theorem C09_smiles_check_count : forall G1 H1 G2 H2 : mgraph,
  smiles_check_rc G1 H1 G2 H2 = smiles_check_count (get_rc (its_construct G1 H1)) (get_rc (its_construct G2 H2)) /\
  smiles_check_its G1 H1 G2 H2 = smiles_check_count (its_construct G1 H1) (its_construct G2 H2).
Proof. exact smiles_check_rc_count. Qed.
Print Assumptions C09_smiles_check_count.

(** option handling of smiles_check (round 5; the function the validator histories evaluate): RC exactly when the
    upper-cased method string is "RC", the full ITS for every other string; an unreadable string gives False *)
Theorem C09_smiles_check_options : forall (m : str) (ia : bool) (G1 H1 G2 H2 : mgraph),
  smiles_check_full m ia (Some (G1, H1)) (Some (G2, H2)) =
  (if is_rc m then smiles_check_rc_o ia G1 H1 G2 H2 else smiles_check_its_o ia G1 H1 G2 H2) /\
  (forall r, smiles_check_full m ia None r = false /\ smiles_check_full m ia r None = false).
Proof. exact smiles_check_full_spec. Qed.
Print Assumptions C09_smiles_check_options.

(** validate_smiles (compared on every `validate` case): per mapper column one verdict per record, in record order, each the
    verdict of smiles_check on (the record's mapped string, the record's ground truth) in THIS argument order with the given
    method / ignore_aromaticity; the count is the number of accepted records *)
Theorem C09_validate_smiles_spec : forall (m : str) (ia : bool) (ncols : nat) (rows : list orow),
  length (validate_smiles m ia ncols rows) = ncols /\
  forall k, (k < ncols)%nat ->
    let c := nth k (validate_smiles m ia ncols rows) ([], 0%nat, 0%nat) in
    length (fst (fst c)) = length rows /\ snd c = length rows /\
    (forall i, (i < length rows)%nat ->
       nth i (fst (fst c)) false = smiles_check_full m ia (nth k (snd (nth i rows (None, []))) None) (fst (nth i rows (None, [])))) /\
    snd (fst c) = length (filter (fun b : bool => b) (fst (fst c))) /\ (snd (fst c) <= snd c)%nat.
Proof. exact validate_smiles_spec. Qed.
Print Assumptions C09_validate_smiles_spec.

(** check_pair with BOTH flags (compared on the `validate` cases flags#n for every combination of the flags): with
    ignore_tautomers=True it is smiles_check on (mapped, truth); otherwise it answers True exactly when the mapping is accepted
    against SOME enumerated tautomer of the truth (the enumeration is RDKit's: oracle input), None when the enumeration failed;
    validate_smiles applies it record by record and column by column with the same method and the same two flags *)
Theorem C09_check_pair_spec : forall (m : str) (ia : bool) (r1 r2 : ograph) (tauts : option (list ograph)),
  check_pair m ia true r1 r2 tauts = Some (smiles_check_full m ia r1 r2) /\
  (forall l, tauts = Some l ->
     exists b, check_pair m ia false r1 r2 tauts = Some b /\
       (b = true <-> exists t, In t l /\ smiles_check_full m ia r1 t = true)) /\
  (tauts = None -> check_pair m ia false r1 r2 tauts = None).
Proof. exact check_pair_spec. Qed.
Print Assumptions C09_check_pair_spec.

Theorem C09_validate_smiles_flags_spec : forall (m : str) (ia it : bool) (ncols : nat) (rows : list orowT),
  length (validate_smiles_t m ia it ncols rows) = ncols /\
  forall k i, (k < ncols)%nat -> (i < length rows)%nat ->
    nth i (nth k (validate_smiles_t m ia it ncols rows) []) None =
    check_pair m ia it (nth k (snd (nth i rows (None, None, []))) None) (fst (fst (nth i rows (None, None, [])))) (snd (fst (nth i rows (None, None, [])))).
Proof. exact validate_smiles_t_spec. Qed.
Print Assumptions C09_validate_smiles_flags_spec.

(** smiles_check with its options is exact at the level of the API call: on two readable strings it answers True exactly when
    the graphs the method string selects, built with the given ignore_aromaticity, are isomorphic on typesGH + order pairs *)
Theorem C09_smiles_check_exact : forall (m : str) (ia : bool) (G1 H1 G2 H2 : mgraph), wf G2 -> wf H2 ->
  (smiles_check_full m ia (Some (G1, H1)) (Some (G2, H2)) = true <->
   if is_rc m
   then its_isomorphic (get_rc (C01_Opts.its_construct_o (vopts ia) G1 H1)) (get_rc (C01_Opts.its_construct_o (vopts ia) G2 H2))
   else its_isomorphic (C01_Opts.its_construct_o (vopts ia) G1 H1) (C01_Opts.its_construct_o (vopts ia) G2 H2)).
Proof. exact smiles_check_exact. Qed.
Print Assumptions C09_smiles_check_exact.

(** ignore_aromaticity does not influence the ITS verdict (the option only changes standard_order, which the matcher never
    compares).  (The RC verdict does depend on it: get_rc selects the centre by standard_order - the aromatic histories show
    both verdicts.)  Every renumbering is accepted by BOTH methods under BOTH values of the option. *)
Theorem C09_its_verdict_ignores_option : forall (ia : bool) (G1 H1 G2 H2 : mgraph), wf G2 -> wf H2 ->
  smiles_check_its_o ia G1 H1 G2 H2 = smiles_check_its G1 H1 G2 H2.
Proof. exact its_verdict_ignores_ia. Qed.
Print Assumptions C09_its_verdict_ignores_option.

Theorem C09_validator_renumbering_options : forall (ia : bool) (f : N -> N) (G H : mgraph),
  (forall a b, f a = f b -> a = b) -> wf G -> wf H ->
  smiles_check_rc_o ia (relabel f G) (relabel f H) G H = true /\ smiles_check_its_o ia (relabel f G) (relabel f H) G H = true.
Proof. exact validator_renumbering_options. Qed.
Print Assumptions C09_validator_renumbering_options.

Theorem C09_renumbering_accepted_its_options : forall (ia : bool) (f : N -> N) (G H : mgraph),
  (forall a b, f a = f b -> a = b) -> wf G -> wf H ->
  smiles_check_its_o ia (relabel f G) (relabel f H) G H = true.
Proof. exact renumbering_accepted_its_o. Qed.
Print Assumptions C09_renumbering_accepted_its_options.

(** FixAAM.fix_aam_rsmi (every map number + 1; [fix_aam_graph], compared with the re-parsed output on every `fixaam` case) is a
    renumbering the validator accepts by both methods *)
Theorem C09_fix_aam_accepted : forall G H : mgraph, wf G -> wf H ->
  smiles_check_its (fix_aam_graph G) (fix_aam_graph H) G H = true /\
  smiles_check_rc (fix_aam_graph G) (fix_aam_graph H) G H = true.
Proof. exact fix_aam_accepted. Qed.
Print Assumptions C09_fix_aam_accepted.

(** CanonRSMI.remap_graph called directly (compared on every `remap` case, both argument forms): ValueError exactly for the
    empty map, KeyError exactly when the mapping names a node that is not in the graph, otherwise the [remap_graph] of the
    canonicaliser theorems (partial and colliding maps allowed) *)
Theorem C09_remap_graph_full_spec : forall (H : mgraph) (pairs : list (N * N)),
  (remap_graph_full H pairs = RValueError <-> pairs = []) /\
  (remap_graph_full H pairs = RKeyError <-> pairs <> [] /\ exists old, In old (map fst (remap_mapping pairs)) /\ ~ In old (node_ids H)) /\
  (forall g, remap_graph_full H pairs = ROk g <->
     remap_graph H pairs = Some g /\ forall old, In old (map fst (remap_mapping pairs)) -> In old (node_ids H)).
Proof. exact remap_graph_full_spec. Qed.
Print Assumptions C09_remap_graph_full_spec.

(** NormalizeAAM.fit, graph-level core (model/C09_Normalize.v; the graphs and the hydrogen list are captured INSIDE the call on
    every `normcore` case; implicit_hydrogen is the model of property C01): both sides are treated with the same list - the
    atom maps of the hydrogens of the reaction centre; those hydrogens stay explicit atoms, any other hydrogen disappears
    exactly when it has a non-hydrogen neighbour, and every other atom keeps its element, aromaticity, charge, neighbours,
    atom_map and its TOTAL number of hydrogens (hcount + explicit hydrogen neighbours) *)
Theorem C09_normalize_core_spec : forall G H : mgraph, wf G -> wf H ->
  fst (normalize_core G H) = implicit_hydrogen G (list_hydrogen G H) /\
  snd (normalize_core G H) = implicit_hydrogen H (list_hydrogen G H) /\
  (forall z, In z (list_hydrogen G H) <->
     exists n a, In (n, a) (gnodes (get_rc (its_construct G H))) /\ i_el a = EL_H /\ z = i_amap a).
Proof. exact normalize_core_spec. Qed.
Print Assumptions C09_normalize_core_spec.

Theorem C09_normalize_side_spec : forall (X : mgraph) (lh : list Z), wf X ->
  (forall h a, label X h = Some a -> is_H a = true -> memZ (g_amap a) lh = true -> label (implicit_hydrogen X lh) h = Some a) /\
  (forall h a, label X h = Some a -> is_H a = true -> memZ (g_amap a) lh = false ->
     label (implicit_hydrogen X lh) h = if has_heavy X h then None else Some a) /\
  (forall n a, label X n = Some a -> is_H a = false ->
     exists a', label (implicit_hydrogen X lh) n = Some a' /\
       (g_hc a' + count_h (implicit_hydrogen X lh) n = g_hc a + count_h X n)%Z /\
       g_el a' = g_el a /\ g_arom a' = g_arom a /\ g_ch a' = g_ch a /\ g_nb a' = g_nb a /\ g_amap a' = g_amap a).
Proof. exact normalize_side_spec. Qed.
Print Assumptions C09_normalize_side_spec.

(** ... and NormalizeAAM.fit does not change whether the reaction is balanced: every element count (hydrogens included) and the
    total charge of both sides are kept - for well-formed sides without bridging hydrogens ([one_parent], C01) whose bonded
    hydrogens are neutral and carry no hydrogens of their own ([h_plain]: always so for RDKit readings).  Uses C01's
    hydrogen_balance (read-only). *)
Theorem C09_normalize_keeps_balance : forall G H : mgraph,
  wf G -> wf H -> one_parent G -> one_parent H -> h_plain G -> h_plain H ->
  balancedb (fst (normalize_core G H)) (snd (normalize_core G H)) = balancedb G H.
Proof. exact normalize_keeps_balance. Qed.
Print Assumptions C09_normalize_keeps_balance.

(** NormalizeAAM helpers (compared on every `subgraph` case) *)
Theorem C09_reset_indices_spec : forall G : mgraph, wf G ->
  node_ids (reset_indices G) = map N.of_nat (seq 1 (length (gnodes G))) /\ amap_id (reset_indices G) /\
  exists f, (forall a b, f a = f b -> a = b) /\ reset_indices G = set_amap (relabel f G).
Proof. exact reset_indices_spec. Qed.
Print Assumptions C09_reset_indices_spec.

Theorem C09_reset_indices_by_spec : forall (order : list N) (G : mgraph), wf G -> NoDup order -> (forall n, In n order <-> In n (node_ids G)) ->
  Permutation (node_ids (reset_indices_by order G)) (map N.of_nat (seq 1 (length (gnodes G)))) /\
  amap_id (reset_indices_by order G) /\
  exists f, (forall a b, f a = f b -> a = b) /\ (forall n, In n order -> f n = sigma_of order n) /\
            reset_indices_by order G = set_amap (relabel f G).
Proof. exact reset_indices_by_spec. Qed.
Print Assumptions C09_reset_indices_by_spec.

Theorem C09_extract_subgraph_spec : forall (G : mgraph) (keep : list N), wf G ->
  wf (extract_subgraph G keep) /\
  (forall n, label (extract_subgraph G keep) n = if mem n keep then label G n else None) /\
  (forall a b x, In (a, b, x) (gedges (extract_subgraph G keep)) <-> In (a, b, x) (gedges G) /\ In a keep /\ In b keep).
Proof. exact extract_subgraph_spec. Qed.
Print Assumptions C09_extract_subgraph_spec.

(** BalanceReactionCheck on records (model/C09_Records.v; compared on every `records` case, key ORDER included):
    dict_balance_check stores under "balanced" the verdict of THIS record's reaction - also when the input already carried a
    "balanced" key (repair 7b06bf6) -, keeps every other key, its value and the key order; dicts_balance_check gives one result
    per parsed record, in input order, split loss-free by the verdict; parse_input wraps strings and keeps exactly the dicts
    that have the column *)
Theorem C09_dict_balance_check_spec : forall (formula : str -> option str) (r : record) (col : str) (r' : record),
  dict_balance_check formula r col = Some r' ->
  exists s b, rget col r = Some (VS s) /\ rsmi_balance_check formula s = Some b /\
    rget BALANCED r' = Some (VB b) /\ (forall k, k <> BALANCED -> rget k r' = rget k r) /\
    (map fst r' = map fst r \/ (rget BALANCED r = None /\ map fst r' = map fst r ++ [BALANCED])).
Proof. exact dict_balance_check_spec. Qed.
Print Assumptions C09_dict_balance_check_spec.

Theorem C09_dicts_balance_check_spec : forall (formula : str -> option str) (inp : input) (col : str) (A B : list record),
  dicts_balance_check formula inp col = Some (A, B) ->
  exists rs res, parse_input inp col = Some rs /\
    Forall2 (fun r r' => dict_balance_check formula r col = Some r') rs res /\
    A = filter is_balanced res /\ B = filter (fun r => negb (is_balanced r)) res /\ Permutation (A ++ B) res /\
    (forall r r', In r' res -> dict_balance_check formula r col = Some r' ->
       exists s, rget col r = Some (VS s) /\ rsmi_balance_check formula s = Some (is_balanced r')).
Proof. exact dicts_balance_check_spec. Qed.
Print Assumptions C09_dicts_balance_check_spec.

Theorem C09_parse_input_spec : forall col : str,
  (forall s, parse_input (InStr s) col = Some [[(col, VS s)]]) /\ parse_input InOther col = None /\
  (forall l, exists rs, parse_input (InList l) col = Some rs /\
     forall r, In r rs <-> exists it, In it l /\ ((exists s, it = IStr s /\ r = [(col, VS s)]) \/ (it = IDict r /\ rget col r <> None))).
Proof. exact parse_input_spec. Qed.
Print Assumptions C09_parse_input_spec.

(** string-level balance verdict = graph-level formula, relative to the CalcMolFormula contract for the two sides (explicit
    premise; the agreement is compared on every balance case) *)
Theorem C09_rsmi_balance_check_graph : forall (formula : str -> option str) (a b fa fb : str) (G H : mgraph),
  nosep GT a -> nosep GT b -> formula a = Some fa -> formula b = Some fb ->
  (fa = fb <-> (forall e, el_count e G = el_count e H) /\ total_charge G = total_charge H) ->
  rsmi_balance_check formula (a ++ GG ++ b) = Some (balancedb G H).
Proof. exact rsmi_balance_check_graph. Qed.
Print Assumptions C09_rsmi_balance_check_graph.

(** the instance state of a CanonRSMI object (model/C09_State.v; compared field by field after every `canon` / `props` step of
    the canonicaliser histories, also after failing calls): a call never sees the state left by earlier calls or by the
    caller editing returned objects; after a successful call the properties are exactly the result of canonicalise_with;
    after a failing call (no shared atom map) there is no canonical product graph and mapping_pairs = [] *)
Theorem C09_cstep_fresh : forall (canonG : mgraph -> mgraph) (parsed : option (mgraph * mgraph)) (hist : list (cstate -> cstate)) (st : cstate),
  cstep canonG parsed (fold_left (fun s f => f s) hist st) = cstep canonG parsed cs_init.
Proof. exact cstep_after_anything. Qed.
Print Assumptions C09_cstep_fresh.

Theorem C09_cstep_done : forall (canonG : mgraph -> mgraph) (G H : mgraph) (st : cstate),
  cs_done (cstep canonG (Some (G, H)) st) = true <->
  exists Gc' prs Hc', canonicalise_with (canonG G) H = Some (Gc', prs, Hc') /\
    cstep canonG (Some (G, H)) st = CS (Some G) (Some H) (Some Gc') (Some prs) (Some Hc') true.
Proof. exact cstep_done. Qed.
Print Assumptions C09_cstep_done.

Theorem C09_cstep_failed : forall (canonG : mgraph -> mgraph) (G H : mgraph) (st : cstate),
  canonicalise_with (canonG G) H = None ->
  cstep canonG (Some (G, H)) st = CS (Some G) (Some H) (Some (canonG G)) (Some []) None false.
Proof. exact cstep_failed. Qed.
Print Assumptions C09_cstep_failed.

(** exactly when CanonRSMI.canonicalise raises ValueError("node_map must be non-empty"): when the two sides share no atom map -
    in particular for a reaction without map numbers (expand_aam numbers all atoms differently, C09_expand_sides_spec) *)
Theorem C09_canonicalise_fails_iff : forall (G H Gc : mgraph) (order : list N),
  parsed G -> parsed H -> enumerates order G -> relabelled_by (sigma_of order) G Gc ->
  (canonicalise_with Gc H = None <-> ~ exists s, In s (node_ids G) /\ In s (node_ids H)).
Proof. exact canonicalise_fails_iff. Qed.
Print Assumptions C09_canonicalise_fails_iff.

(** 8. Numbering / atom-order independence and fixed point of the two back-ends (round 5).
       STATUS w.r.t. the property text (audit of 14:05 UTC):
       * independence, back-end nauty: FULL under the text's hypothesis (all reactant atoms distinguishable = [rigid]);
       * independence, back-end wl: proved under the STRONGER hypothesis "pairwise distinct WL colours" (theorems named
         _distinct_colours) and REFUTED under the text's hypothesis: C09_numbering_independent_wl_refuted (known finding
         wl-tied-colours-distinguishable: distinguishable atoms that share their WL colour are ordered by the input numbering);
       * fixed point: the text puts NO condition on it.  wl: proved without any condition on the colours (tied colours
         included) for every parsed presentation of the canonical graphs and at string level (C09_fixed_point_wl,
         C09_canonical_rsmi_fixed_point_wl).  nauty: proved for EVERY reactant graph in section 9 (round 6:
         C09_fixed_point_nauty, C09_canonical_rsmi_fixed_point_nauty); the theorems named _rigid are special cases.
       Vocabulary (proof/C09_Graph.v, proof/C09_Backends.v):
         [same_graph X Y]   = Permutation (gnodes X) (gnodes Y) /\ Permutation (map nflip (gedges X)) (map nflip (gedges Y)),
                              nflip (u, v, o) = (min u v, max u v, o): the same labelled graph, whatever the order of the atom
                              list, of the bond list and the direction in which each bond is written
         [presents p G G']  = same_graph G' (set_amap (relabel p G)): the parsed graph G' is G with ids renamed by p (atom_map =
                              new id) - what the parser returns for ANY other way of writing the same mapped reaction
         [writer_ok W]      = forall X Y, same_graph X Y -> W X = W Y: contract of graph_to_smi (GraphToMol + RDKit canonical
                              writer): the string is a function of the graph, not of the listing order (explicit premise)
         [reads_back W P X Y] = the parser P (rsmi_to_graph o expand_aam) returns, on the string written for (X, Y), parsed
                              graphs that are (X, Y) up to listing order (explicit premise about RDKit; monitored by the oracle
                              clauses canon-fixed-point / canon-equivalent on every run)
         [canonical_rsmi W r] = W(canonical reactant graph) ++ ">>" ++ W(canonical product graph)  (model/C09_Strings.v).
       The hypothesis on the product atoms WITHOUT reactant partner (p keeps their relative order) cannot be dropped:
       C09_numbering_partnerless_refuted. *)
Theorem C09_numbering_independent_nauty : forall (G H G' H' : mgraph) (p : N -> N),
  parsed G -> parsed H -> (exists s, In s (node_ids G) /\ In s (node_ids H)) ->
  (forall a b, p a = p b -> a = b) ->
  (forall m n, In m (node_ids H) -> ~ In m (node_ids G) -> In n (node_ids H) -> ~ In n (node_ids G) -> (m <= n)%N -> (p m <= p n)%N) ->
  parsed G' -> parsed H' -> presents p G G' -> presents p H H' ->
  C08_Spec.els_ok (to_c08 G) -> rigid (to_c08 G) ->
  exists (pairs1 pairs2 : list (N * N)) (Gc1 Gc2 Hc1 Hc2 : mgraph),
    canonicalise_nauty G H = Some (Gc1, pairs1, Hc1) /\
    canonicalise_nauty G' H' = Some (Gc2, pairs2, Hc2) /\
    same_graph Gc2 Gc1 /\ same_graph Hc2 Hc1.
Proof. exact numbering_independent_nauty_sg. Qed.
Print Assumptions C09_numbering_independent_nauty.

Theorem C09_numbering_independent_wl_distinct_colours : forall (ranks1 ranks2 : list (N * Z)) (G H G' H' : mgraph) (p : N -> N),
  parsed G -> parsed H -> (exists s, In s (node_ids G) /\ In s (node_ids H)) ->
  (forall a b, p a = p b -> a = b) ->
  (forall m n, In m (node_ids H) -> ~ In m (node_ids G) -> In n (node_ids H) -> ~ In n (node_ids G) -> (m <= n)%N -> (p m <= p n)%N) ->
  parsed G' -> parsed H' -> presents p G G' -> presents p H H' ->
  (forall n, In n (node_ids G) -> C08_Model.rank_of ranks2 (p n) = C08_Model.rank_of ranks1 n) -> ranks_distinct ranks1 G ->
  exists (pairs1 pairs2 : list (N * N)) (Gc1 Gc2 Hc1 Hc2 : mgraph),
    canonicalise_wl ranks1 G H = Some (Gc1, pairs1, Hc1) /\
    canonicalise_wl ranks2 G' H' = Some (Gc2, pairs2, Hc2) /\
    same_graph Gc2 Gc1 /\ same_graph Hc2 Hc1.
Proof. exact numbering_independent_wl_sg. Qed.
Print Assumptions C09_numbering_independent_wl_distinct_colours.

(** fixed point: EVERY parsed presentation (G', H') of the canonical graphs - in particular what the parser returns for the
    canonical string - is canonicalised to the canonical graphs again *)
Theorem C09_fixed_point_nauty_rigid : forall G H : mgraph,
  parsed G -> parsed H -> (exists s, In s (node_ids G) /\ In s (node_ids H)) ->
  C08_Spec.els_ok (to_c08 G) -> rigid (to_c08 G) ->
  exists (pairs1 : list (N * N)) (Gc1 Hc1 : mgraph),
    canonicalise_nauty G H = Some (Gc1, pairs1, Hc1) /\
    forall (G' H' : mgraph), parsed G' -> parsed H' -> same_graph G' Gc1 -> same_graph H' Hc1 ->
      exists (pairs2 : list (N * N)) (Gc2 Hc2 : mgraph),
        canonicalise_nauty G' H' = Some (Gc2, pairs2, Hc2) /\ same_graph Gc2 Gc1 /\ same_graph Hc2 Hc1.
Proof. exact fixed_point_nauty_sg. Qed.
Print Assumptions C09_fixed_point_nauty_rigid.

Theorem C09_fixed_point_wl_distinct_colours : forall (ranks1 : list (N * Z)) (G H : mgraph),
  parsed G -> parsed H -> (exists s, In s (node_ids G) /\ In s (node_ids H)) -> ranks_distinct ranks1 G ->
  exists (pairs1 : list (N * N)) (Gc1 Hc1 : mgraph),
    canonicalise_wl ranks1 G H = Some (Gc1, pairs1, Hc1) /\
    forall (ranks2 : list (N * Z)) (G' H' : mgraph), parsed G' -> parsed H' -> same_graph G' Gc1 -> same_graph H' Hc1 ->
      (forall n, In n (node_ids G) -> C08_Model.rank_of ranks2 (sigma_of (wl_order ranks1 G) n) = C08_Model.rank_of ranks1 n) ->
      exists (pairs2 : list (N * N)) (Gc2 Hc2 : mgraph),
        canonicalise_wl ranks2 G' H' = Some (Gc2, pairs2, Hc2) /\ same_graph Gc2 Gc1 /\ same_graph Hc2 Hc1.
Proof. exact fixed_point_wl_sg. Qed.
Print Assumptions C09_fixed_point_wl_distinct_colours.

(** STRING level: CanonRSMI.canonical_rsmi.  "does not depend on the input's numbering or atom order" and "is a fixed point
    of the canonicaliser", relative to the two RDKit contracts (explicit premises [writer_ok], [reads_back]) - and, for wl,
    to networkx's contract that WL colours correspond under renaming (the [rank_of] premises; colours are oracle inputs). *)
Theorem C09_canonical_rsmi_independent_nauty : forall (W : mgraph -> str) (G H G' H' : mgraph) (p : N -> N),
  writer_ok W ->
  parsed G -> parsed H -> (exists s, In s (node_ids G) /\ In s (node_ids H)) ->
  (forall a b, p a = p b -> a = b) ->
  (forall m n, In m (node_ids H) -> ~ In m (node_ids G) -> In n (node_ids H) -> ~ In n (node_ids G) -> (m <= n)%N -> (p m <= p n)%N) ->
  parsed G' -> parsed H' -> presents p G G' -> presents p H H' ->
  C08_Spec.els_ok (to_c08 G) -> rigid (to_c08 G) ->
  exists s, canonical_rsmi W (canonicalise_nauty G H) = Some s /\ canonical_rsmi W (canonicalise_nauty G' H') = Some s.
Proof. exact canonical_rsmi_independent_nauty. Qed.
Print Assumptions C09_canonical_rsmi_independent_nauty.

Theorem C09_canonical_rsmi_independent_wl_distinct_colours : forall (W : mgraph -> str) (ranks1 ranks2 : list (N * Z)) (G H G' H' : mgraph) (p : N -> N),
  writer_ok W ->
  parsed G -> parsed H -> (exists s, In s (node_ids G) /\ In s (node_ids H)) ->
  (forall a b, p a = p b -> a = b) ->
  (forall m n, In m (node_ids H) -> ~ In m (node_ids G) -> In n (node_ids H) -> ~ In n (node_ids G) -> (m <= n)%N -> (p m <= p n)%N) ->
  parsed G' -> parsed H' -> presents p G G' -> presents p H H' ->
  (forall n, In n (node_ids G) -> C08_Model.rank_of ranks2 (p n) = C08_Model.rank_of ranks1 n) -> ranks_distinct ranks1 G ->
  exists s, canonical_rsmi W (canonicalise_wl ranks1 G H) = Some s /\ canonical_rsmi W (canonicalise_wl ranks2 G' H') = Some s.
Proof. exact canonical_rsmi_independent_wl. Qed.
Print Assumptions C09_canonical_rsmi_independent_wl_distinct_colours.

Theorem C09_canonical_rsmi_fixed_point_nauty_rigid : forall (W : mgraph -> str) (P : str -> option (mgraph * mgraph)) (G H : mgraph),
  writer_ok W ->
  parsed G -> parsed H -> (exists s, In s (node_ids G) /\ In s (node_ids H)) ->
  C08_Spec.els_ok (to_c08 G) -> rigid (to_c08 G) ->
  (forall Gc1 pairs1 Hc1, canonicalise_nauty G H = Some (Gc1, pairs1, Hc1) -> reads_back W P Gc1 Hc1) ->
  exists s G' H', canonical_rsmi W (canonicalise_nauty G H) = Some s /\ P s = Some (G', H') /\
                  canonical_rsmi W (canonicalise_nauty G' H') = Some s.
Proof. exact canonical_rsmi_fixed_point_nauty. Qed.
Print Assumptions C09_canonical_rsmi_fixed_point_nauty_rigid.

Theorem C09_canonical_rsmi_fixed_point_wl_distinct_colours : forall (W : mgraph -> str) (P : str -> option (mgraph * mgraph)) (ranks1 : list (N * Z)) (G H : mgraph),
  writer_ok W ->
  parsed G -> parsed H -> (exists s, In s (node_ids G) /\ In s (node_ids H)) -> ranks_distinct ranks1 G ->
  (forall Gc1 pairs1 Hc1, canonicalise_wl ranks1 G H = Some (Gc1, pairs1, Hc1) -> reads_back W P Gc1 Hc1) ->
  exists s G' H', canonical_rsmi W (canonicalise_wl ranks1 G H) = Some s /\ P s = Some (G', H') /\
    forall ranks2 : list (N * Z),
      (forall n, In n (node_ids G) -> C08_Model.rank_of ranks2 (sigma_of (wl_order ranks1 G) n) = C08_Model.rank_of ranks1 n) ->
      canonical_rsmi W (canonicalise_wl ranks2 G' H') = Some s.
Proof. exact canonical_rsmi_fixed_point_wl. Qed.
Print Assumptions C09_canonical_rsmi_fixed_point_wl_distinct_colours.

(** back-end wl is NOT numbering independent under the text's hypothesis (audit finding; known finding
    wl-tied-colours-distinguishable; regress corpus wl_tied_colours.json replays it on the implementation): 1-bromononane +
    hydroxide, all reactant atoms distinguishable (the nauty search ends with exactly ONE minimal leaf: no non-trivial
    automorphism, C08_Auts.nauty_auts_complete), every product atom has a reactant partner, the WL colours of the two
    presentations correspond - but the mid-chain atoms 5 and 6 share their colour after the default 3 rounds, so exchanging
    their numbers exchanges their canonical ids: the canonical reactant graphs differ, while back-end nauty returns the same
    graphs for both presentations. *)
Theorem C09_numbering_independent_wl_refuted :
  exists (ranks1 ranks2 : list (N * Z)) (G H G' H' : mgraph) (p : N -> N),
    parsed G /\ parsed H /\ parsed G' /\ parsed H' /\ (exists s, In s (node_ids G) /\ In s (node_ids H)) /\
    (forall a b, p a = p b -> a = b) /\ presents p G G' /\ presents p H H' /\
    (forall n, In n (node_ids G) -> C08_Model.rank_of ranks2 (p n) = C08_Model.rank_of ranks1 n) /\
    length (snd (C08_Model.nauty_acc (to_c08 G))) = 1%nat /\
    (forall n, In n (node_ids H) -> In n (node_ids G)) /\
    exists Gc1 pr1 Hc1 Gc2 pr2 Hc2 Nc1 qr1 Mc1 Nc2 qr2 Mc2,
      canonicalise_wl ranks1 G H = Some (Gc1, pr1, Hc1) /\ canonicalise_wl ranks2 G' H' = Some (Gc2, pr2, Hc2) /\
      ~ same_graph Gc2 Gc1 /\
      canonicalise_nauty G H = Some (Nc1, qr1, Mc1) /\ canonicalise_nauty G' H' = Some (Nc2, qr2, Mc2) /\
      same_graph Nc2 Nc1 /\ same_graph Mc2 Mc1.
Proof. exact numbering_independent_wl_refuted. Qed.
Print Assumptions C09_numbering_independent_wl_refuted.

(** fixed point for back-end wl WITHOUT the hypothesis of distinct colours (audit finding 2): after the first run the node ids
    of the canonical reactant graph ARE the positions in the (colour, degree, id) order, so - when the colours of the second
    run correspond (networkx contract: premise) - the second stable sort is the identity also with TIED colours (a sorted list
    is a fixed point of the sort), and since the sort key (colour, degree, id) is total on distinct ids the order does not
    depend on how the atoms / bonds of the re-parsed graph are listed: the statement holds for EVERY parsed presentation of
    the canonical graphs.  This is the text's unconditional fixed-point clause for wl (the theorems _distinct_colours above are
    special cases).  For nauty on graphs with automorphisms the clause stays oracle-only. *)
Theorem C09_fixed_point_wl : forall (ranks1 : list (N * Z)) (G H : mgraph),
  parsed G -> parsed H -> (exists s, In s (node_ids G) /\ In s (node_ids H)) ->
  exists (pairs1 : list (N * N)) (Gc1 Hc1 : mgraph),
    canonicalise_wl ranks1 G H = Some (Gc1, pairs1, Hc1) /\
    forall (ranks2 : list (N * Z)) (G' H' : mgraph), parsed G' -> parsed H' -> same_graph G' Gc1 -> same_graph H' Hc1 ->
      (forall n, In n (node_ids G) -> C08_Model.rank_of ranks2 (sigma_of (wl_order ranks1 G) n) = C08_Model.rank_of ranks1 n) ->
      exists (pairs2 : list (N * N)) (Gc2 Hc2 : mgraph),
        canonicalise_wl ranks2 G' H' = Some (Gc2, pairs2, Hc2) /\ same_graph Gc2 Gc1 /\ same_graph Hc2 Hc1.
Proof. exact fixed_point_wl_ties_sg. Qed.
Print Assumptions C09_fixed_point_wl.

(** ... and at string level: CanonRSMI(backend="wl").canonical_rsmi is a fixed point - tied colours included - relative to the
    two RDKit contracts and the correspondence of the colours of the second run (networkx) *)
Theorem C09_canonical_rsmi_fixed_point_wl : forall (W : mgraph -> str) (P : str -> option (mgraph * mgraph)) (ranks1 : list (N * Z)) (G H : mgraph),
  writer_ok W ->
  parsed G -> parsed H -> (exists s, In s (node_ids G) /\ In s (node_ids H)) ->
  (forall Gc1 pairs1 Hc1, canonicalise_wl ranks1 G H = Some (Gc1, pairs1, Hc1) -> reads_back W P Gc1 Hc1) ->
  exists s G' H', canonical_rsmi W (canonicalise_wl ranks1 G H) = Some s /\ P s = Some (G', H') /\
    forall ranks2 : list (N * Z),
      (forall n, In n (node_ids G) -> C08_Model.rank_of ranks2 (sigma_of (wl_order ranks1 G) n) = C08_Model.rank_of ranks1 n) ->
      canonical_rsmi W (canonicalise_wl ranks2 G' H') = Some s.
Proof. exact canonical_rsmi_fixed_point_wl_ties. Qed.
Print Assumptions C09_canonical_rsmi_fixed_point_wl.

(** the canonical graphs are parsed graphs themselves (distinct positive ids, atom_map = id), for every canonical order *)
Theorem C09_canonical_graphs_parsed : forall (G H Gc1 : mgraph) (order1 : list N),
  parsed G -> parsed H -> (exists s, In s (node_ids G) /\ In s (node_ids H)) ->
  enumerates order1 G -> relabelled_by (sigma_of order1) G Gc1 ->
  exists pairs1 Gc1' Hc1', canonicalise_with Gc1 H = Some (Gc1', pairs1, Hc1') /\ parsed Gc1' /\ parsed Hc1'.
Proof. exact canonical_graphs_parsed. Qed.
Print Assumptions C09_canonical_graphs_parsed.

(** 9. ROUND 6: the nauty fixed point for EVERY reactant graph (no hypothesis on its automorphisms; proof/C09_NautyFix.v,
       proof/C09_NautyFix2.v).  Why the code's tie-breaking makes the second run the identity: the canonical reactant graph is
       numbered by the best leaf of the first search; its search tree is the image of the first tree; on the path to the
       identity order the target cell at depth j contains no individualised atom - only ids > j - and it contains j + 1, so
       (children are visited in increasing atom_map = id) the identity order 1..N is the FIRST leaf of the depth-first
       enumeration; its label is the minimal one and [visit] replaces the best leaf only by a strictly smaller label.  Hence
       the second run renames nothing: not merely "equal up to an automorphism of the canonical reactant graph" but EQUAL -
       which matters, because an automorphism of the reactant graph need not be one of the product graph. *)
Theorem C09_nauty_second_order : forall (G G' : mgraph) (f1 : N -> N),
  wf G -> (forall a b, f1 a = f1 b -> a = b) ->
  (forall n, In n (node_ids G) -> f1 n = sigma_of (nauty_order G) n) ->
  parsed G' -> presents f1 G G' ->
  nauty_order G' = map f1 (nauty_order G).
Proof. exact nauty_order_after. Qed.
Print Assumptions C09_nauty_second_order.

(** fixed point, graph level: every parsed presentation (G', H') of the canonical graphs - in particular what the parser
    returns for the canonical string - gets the canonical order 1..N and is canonicalised to the canonical graphs again.
    Supersedes C09_fixed_point_nauty_rigid (no [rigid], no [els_ok]). *)
Theorem C09_fixed_point_nauty : forall G H : mgraph,
  parsed G -> parsed H -> (exists s, In s (node_ids G) /\ In s (node_ids H)) ->
  exists (pairs1 : list (N * N)) (Gc1 Hc1 : mgraph),
    canonicalise_nauty G H = Some (Gc1, pairs1, Hc1) /\
    forall (G' H' : mgraph), parsed G' -> parsed H' -> same_graph G' Gc1 -> same_graph H' Hc1 ->
      nauty_order G' = map N.of_nat (seq 1 (length (gnodes G))) /\
      exists (pairs2 : list (N * N)) (Gc2 Hc2 : mgraph),
        canonicalise_nauty G' H' = Some (Gc2, pairs2, Hc2) /\ same_graph Gc2 Gc1 /\ same_graph Hc2 Hc1.
Proof. exact fixed_point_nauty_all. Qed.
Print Assumptions C09_fixed_point_nauty.

(** ... and at string level: CanonRSMI(backend="nauty").canonical_rsmi is a fixed point of the canonicaliser for every
    reaction, relative to the two RDKit contracts [writer_ok] / [reads_back] only.  With C09_canonical_rsmi_fixed_point_wl
    this is the text's unconditional fixed-point clause for both back-ends of the quantifier. *)
Theorem C09_canonical_rsmi_fixed_point_nauty : forall (W : mgraph -> str) (P : str -> option (mgraph * mgraph)) (G H : mgraph),
  writer_ok W ->
  parsed G -> parsed H -> (exists s, In s (node_ids G) /\ In s (node_ids H)) ->
  (forall Gc1 pairs1 Hc1, canonicalise_nauty G H = Some (Gc1, pairs1, Hc1) -> reads_back W P Gc1 Hc1) ->
  exists s G' H', canonical_rsmi W (canonicalise_nauty G H) = Some s /\ P s = Some (G', H') /\
                  canonical_rsmi W (canonicalise_nauty G' H') = Some s.
Proof. exact canonical_rsmi_fixed_point_nauty_all. Qed.
Print Assumptions C09_canonical_rsmi_fixed_point_nauty.
