(** C09 — reaction normal forms preserve the reaction; equivalence checks are exact.
    Statements only; every proof is [exact <lemma of proof/C09_*.v>].  (under construction) *)
From Coq Require Import List NArith ZArith Bool.
From SK Require Import lib.LGraph model.C01_Model model.C09_Model.
Import ListNotations.

Theorem C09_balance_self : forall G : mgraph, balancedb G G = true.
Proof.
  intros G. unfold balancedb. apply andb_true_intro. split.
  - apply forallb_forall. intros e _. apply Z.eqb_refl.
  - apply Z.eqb_refl.
Qed.
Print Assumptions C09_balance_self.
