(** C09 — reaction normal forms preserve the reaction; equivalence checks are exact.
    Statements only; every proof is [exact <lemma of proof/C09_*.v>].

    Vocabulary (model/C01_Model.v, model/C09_Model.v, proof/C09_Canon.v, proof/C09_Valid.v, proof/C09_Main.v):
      [parsed G]            = wf G (distinct ids, simple edges between present atoms) /\ amap_id G (atom_map = node id)
                              /\ pos_ids G (ids <> 0): what rsmi_to_graph(expand_aam(r)) returns (RDKit: monitored)
      [enumerates order G]  = NoDup order /\ forall n, In n order <-> In n (node_ids G): the canonical order of the
                              back-end lists every reactant atom once (C08: proved for wl with ANY colour ranking and
                              for the nauty search)
      [sigma_of order]      = old id -> 1-based position in [order] (GraphCanonicaliser's mapping)
      [relabelled_by s G X] = Permutation (gnodes X) (gnodes (relabel s G)) /\ gedges X = gedges (relabel s G)
                              (X is G with ids renamed by s, all attributes kept, nodes possibly inserted in another order)
      [canonicalise_with Gc H] = CanonRSMI.canonicalise after the canonical reactant graph Gc is known:
                              get_aam_pairwise_indices, partner-less product atoms numbered after the reactant atoms
                              (repair 8092e28), remap_graph (nx.relabel_nodes), sync_atom_map_with_index ([set_amap])
      [its_emb g1 g2 f]     = f maps the atoms of g2 injectively to atoms of g1 with equal typesGH (both halves:
                              element, aromatic, hcount, charge, neighbors), bonds to bonds with equal order pair,
                              non-bonds to non-bonds
      [its_isomorphic g1 g2]= equally many atoms and bonds /\ exists f, its_emb g1 g2 f
      [smiles_check_its / smiles_check_rc] = AAMValidator.smiles_check (ITS / RC) on the parsed graph pairs.
      [same_upto_order X Y] = Permutation (gnodes X) (gnodes Y) /\ gedges X = gedges Y (the same graph, nodes possibly
                              inserted in another order). *)
From Coq Require Import List NArith ZArith Bool Permutation.
From SK Require Import lib.LGraph model.C01_Model model.C02_Model model.C09_Model
  proof.C09_Canon proof.C09_Valid proof.C09_Balance proof.C09_Main proof.C09_Indep proof.C09_Indep2 proof.C09_ValidRC proof.C09_WL proof.C09_NautyRigid proof.C09_Nauty.
From SK Require model.C08_Model proof.C08_Spec model.C01_Opts.
Import ListNotations.

(** 1. Canonicalising = relabelling both sides by ONE injective map f (canonical position on the reactant atoms, fresh
       numbers after them on product atoms without partner): the canonical reactant graph is G renamed by f, the
       canonical product graph is H renamed by f, mapping_pairs are exactly the shared atoms, the ITS of the canonical
       reaction is isomorphic to the ITS of the input (atom-map-equivalent) and the validator accepts the pair.
       For every canonical order that enumerates the reactant atoms; balanced or not. *)
Theorem C09_canon_is_relabelling : forall (G H Gc : mgraph) (order : list N),
  parsed G -> parsed H -> enumerates order G -> relabelled_by (sigma_of order) G Gc ->
  (exists s, In s (node_ids G) /\ In s (node_ids H)) ->
  exists (f : N -> N) (pairs : list (N * N)) (Hc : mgraph),
    (forall a b, f a = f b -> a = b) /\
    (forall n, In n (node_ids G) -> f n = sigma_of order n) /\
    canonicalise_with Gc H = Some (set_amap Gc, pairs, set_amap Hc) /\
    relabelled_by f G Gc /\ Hc = relabel f H /\
    (forall a b, In (a, b) pairs <-> In b (node_ids G) /\ In b (node_ids H) /\ a = f b) /\
    its_isomorphic (its_construct (set_amap Gc) (set_amap Hc)) (its_construct G H) /\
    smiles_check_its (set_amap Gc) (set_amap Hc) G H = true.
Proof. exact canon_is_relabelling. Qed.
Print Assumptions C09_canon_is_relabelling.

(** the two back-ends the correspondence runs ([run_canon_wl] / [run_canon_nauty]).  wl: whatever colour ranking the
    WL oracle returns; canonical reactant ids are exactly 1..N. *)
Theorem C09_canon_wl_is_relabelling : forall (ranks : list (N * Z)) (G H : mgraph),
  parsed G -> parsed H -> (exists s, In s (node_ids G) /\ In s (node_ids H)) ->
  exists (f : N -> N) (Gc Hc : mgraph) (pairs : list (N * N)),
    (forall a b, f a = f b -> a = b) /\
    canonicalise_wl ranks G H = Some (set_amap Gc, pairs, set_amap Hc) /\
    relabelled_by f G Gc /\ Hc = relabel f H /\
    Permutation (node_ids Gc) (map N.of_nat (seq 1 (length (gnodes G)))) /\
    its_isomorphic (its_construct (set_amap Gc) (set_amap Hc)) (its_construct G H).
Proof. exact canon_wl_is_relabelling. Qed.
Print Assumptions C09_canon_wl_is_relabelling.

Theorem C09_canon_nauty_is_relabelling : forall G H : mgraph,
  parsed G -> parsed H -> (exists s, In s (node_ids G) /\ In s (node_ids H)) ->
  exists (f : N -> N) (Hc : mgraph) (pairs : list (N * N)),
    (forall a b, f a = f b -> a = b) /\
    canonicalise_nauty G H = Some (set_amap (relabel f G), pairs, set_amap Hc) /\ Hc = relabel f H /\
    its_isomorphic (its_construct (set_amap (relabel f G)) (set_amap Hc)) (its_construct G H).
Proof. exact canon_nauty_is_relabelling. Qed.
Print Assumptions C09_canon_nauty_is_relabelling.

Theorem C09_canon_generic_is_relabelling : forall G H : mgraph,
  parsed G -> parsed H -> (exists s, In s (node_ids G) /\ In s (node_ids H)) ->
  exists (f : N -> N) (Gc Hc : mgraph) (pairs : list (N * N)),
    (forall a b, f a = f b -> a = b) /\
    canonicalise_generic G H = Some (set_amap Gc, pairs, set_amap Hc) /\
    relabelled_by f G Gc /\ Hc = relabel f H /\
    its_isomorphic (its_construct (set_amap Gc) (set_amap Hc)) (its_construct G H).
Proof. exact canon_generic_is_relabelling. Qed.
Print Assumptions C09_canon_generic_is_relabelling.

(** 1'. The step added by repair 8092e28 is necessary: remap_graph with the shared pairs only (the code before the
       repair) can send two product atoms to the same id (witness: the regress case collision#wl). *)
Theorem C09_unbalanced_collision_refuted :
  exists (Gc H : mgraph), NoDup (node_ids H) /\ amap_id H /\
    match remap_graph H (aam_pairs Gc H) with
    | Some Hc => (length (gnodes Hc) < length (gnodes H))%nat
    | None => False
    end.
Proof. exact unbalanced_collision_refuted. Qed.
Print Assumptions C09_unbalanced_collision_refuted.

(** 2. Numbering / atom-order independence and fixed point, graph level, PARTIAL.
       FULL CLAIM of the property text (not proved): CanonRSMI.canonical_rsmi (a string) is the same for every renumbering /
       re-rooting / fragment shuffle of the input whose reactant atoms are all distinguishable, and canonicalising the
       canonical string returns it.  What is proved: both presentations (G, H) and (p.G, p.H) (node ids renamed by an
       injective p, atoms listed in any order, atom_map attributes rewritten) get THE SAME canonical reactant and product
       graphs up to node insertion order, PROVIDED (premise, last line) the graph canonicaliser is invariant, i.e. gives
       corresponding atoms the same canonical id (C08: nauty invariance holds when all atoms are distinguishable, wl only
       when all WL colours differ; monitored by the oracle on every run), and p keeps the relative order of the product
       atoms WITHOUT reactant partner (they are numbered in the order of their input numbers; vacuous when every product
       atom has a partner).
       Missing: (i) RDKit's writer is a function of the graph up to node order and its re-parse returns the graph
       (oracle S2, monitored), (ii) the invariance premise is not discharged from C08 here, (iii) with two or more
       partner-less product atoms an order-changing renumbering can change the result (monitored: clause
       canon-numbering-independent; none in the corpora). *)
Theorem C09_numbering_independent_partial :
  forall (G H G2' H2' Gc1 Gc2 : mgraph) (order1 order2 : list N) (p : N -> N),
  parsed G -> parsed H -> (exists s, In s (node_ids G) /\ In s (node_ids H)) ->
  (forall a b, p a = p b -> a = b) -> (forall n, In n (node_ids G) \/ In n (node_ids H) -> p n <> 0%N) ->
  (forall m n, In m (node_ids H) -> ~ In m (node_ids G) -> In n (node_ids H) -> ~ In n (node_ids G) -> (m <= n)%N -> (p m <= p n)%N) ->
  relabelled_by p G G2' -> relabelled_by p H H2' ->
  enumerates order1 G -> relabelled_by (sigma_of order1) G Gc1 ->
  enumerates order2 (set_amap G2') -> relabelled_by (sigma_of order2) (set_amap G2') Gc2 ->
  (forall n, In n (node_ids G) -> sigma_of order2 (p n) = sigma_of order1 n) ->
  exists (pairs1 pairs2 : list (N * N)) (Hc1 Hc2 : mgraph),
    canonicalise_with Gc1 H = Some (set_amap Gc1, pairs1, set_amap Hc1) /\
    canonicalise_with Gc2 (set_amap H2') = Some (set_amap Gc2, pairs2, set_amap Hc2) /\
    same_upto_order (set_amap Gc2) (set_amap Gc1) /\ same_upto_order (set_amap Hc2) (set_amap Hc1).
Proof. exact presentation_independent_mono. Qed.
Print Assumptions C09_numbering_independent_partial.

(** fixed point (balanced or not, partner-less product atoms included): canonicalising the canonical graphs returns
    them (up to node insertion order) provided the graph canonicaliser maps every canonical reactant id to itself
    (premise; C08 + monitored).  Missing for the string-level claim: the RDKit writer / parser contract S2. *)
Theorem C09_fixed_point_partial : forall (G H Gc1 : mgraph) (order1 : list N),
  parsed G -> parsed H -> (exists s, In s (node_ids G) /\ In s (node_ids H)) ->
  enumerates order1 G -> relabelled_by (sigma_of order1) G Gc1 ->
  exists (pairs1 : list (N * N)) (Gc1' Hc1' : mgraph),
    canonicalise_with Gc1 H = Some (Gc1', pairs1, Hc1') /\
    forall (order2 : list N) (Gc2 : mgraph),
      enumerates order2 Gc1' -> relabelled_by (sigma_of order2) Gc1' Gc2 ->
      (forall m, In m (node_ids Gc1') -> sigma_of order2 m = m) ->
      exists (pairs2 : list (N * N)) (Hc2' : mgraph),
        canonicalise_with Gc2 Hc1' = Some (set_amap Gc2, pairs2, Hc2') /\
        same_upto_order (set_amap Gc2) Gc1' /\ same_upto_order Hc2' Hc1'.
Proof. exact fixed_point_gen. Qed.
Print Assumptions C09_fixed_point_partial.

(** the order premise of C09_numbering_independent_partial is necessary: with two product atoms without reactant partner
    ([Na+:8] and [K+:9] added to CH3Br + OH- >> CH3OH + Br-), exchanging their numbers - a renumbering that fixes every
    reactant atom - exchanges their canonical numbers: canonical product atom 4 is Na in one presentation and K in the
    other although all reactant atoms are distinguishable.  Known finding (key partnerless-product-atoms-order). *)
Theorem C09_numbering_partnerless_refuted :
  exists (G H : mgraph) (order : list N) (p : N -> N),
    parsed G /\ enumerates order G /\ (forall a b, p a = p b -> a = b) /\ (forall n, In n (node_ids G) -> p n = n) /\
    exists Gc1 pr1 Hc1 Gc2 pr2 Hc2,
      canonicalise_with (canon_rebuild order G) H = Some (Gc1, pr1, Hc1) /\
      canonicalise_with (canon_rebuild order G) (set_amap (relabel p H)) = Some (Gc2, pr2, Hc2) /\
      option_map g_el (label Hc1 4%N) <> option_map g_el (label Hc2 4%N).
Proof. exact partnerless_order_refuted. Qed.
Print Assumptions C09_numbering_partnerless_refuted.

(** 2'. Back-end wl, invariance premise DISCHARGED: if the WL colours (oracle input [ranks]; networkx's contract: colours
       are invariant under renaming - premise) of corresponding atoms correspond and all reactant atoms have different
       colours ([ranks_distinct]), the two presentations get the same canonical graphs from [canonicalise_wl] (the
       function [run_canon_wl] evaluates), and a second run on the canonical graphs returns them.  Still partial w.r.t.
       the property text only through the RDKit writer / parser contract S2 (string level). *)
Theorem C09_numbering_independent_wl_partial :
  forall (ranks1 ranks2 : list (N * Z)) (G H G2' H2' : mgraph) (p : N -> N),
  parsed G -> parsed H -> (exists s, In s (node_ids G) /\ In s (node_ids H)) ->
  (forall a b, p a = p b -> a = b) -> (forall n, In n (node_ids G) \/ In n (node_ids H) -> p n <> 0%N) ->
  (forall m n, In m (node_ids H) -> ~ In m (node_ids G) -> In n (node_ids H) -> ~ In n (node_ids G) -> (m <= n)%N -> (p m <= p n)%N) ->
  relabelled_by p G G2' -> relabelled_by p H H2' ->
  (forall n, In n (node_ids G) -> C08_Model.rank_of ranks2 (p n) = C08_Model.rank_of ranks1 n) -> ranks_distinct ranks1 G ->
  exists (pairs1 pairs2 : list (N * N)) (Gc1 Gc2 Hc1 Hc2 : mgraph),
    canonicalise_wl ranks1 G H = Some (Gc1, pairs1, Hc1) /\
    canonicalise_wl ranks2 (set_amap G2') (set_amap H2') = Some (Gc2, pairs2, Hc2) /\
    same_upto_order Gc2 Gc1 /\ same_upto_order Hc2 Hc1.
Proof. exact numbering_independent_wl. Qed.
Print Assumptions C09_numbering_independent_wl_partial.

Theorem C09_fixed_point_wl_partial : forall (ranks1 ranks2 : list (N * Z)) (G H : mgraph),
  parsed G -> parsed H -> (exists s, In s (node_ids G) /\ In s (node_ids H)) ->
  ranks_distinct ranks1 G ->
  (forall n, In n (node_ids G) -> C08_Model.rank_of ranks2 (sigma_of (wl_order ranks1 G) n) = C08_Model.rank_of ranks1 n) ->
  exists (pairs1 : list (N * N)) (Gc1 Hc1 : mgraph),
    canonicalise_wl ranks1 G H = Some (Gc1, pairs1, Hc1) /\
    exists (pairs2 : list (N * N)) (Gc2 Hc2 : mgraph),
      canonicalise_wl ranks2 Gc1 Hc1 = Some (Gc2, pairs2, Hc2) /\ same_upto_order Gc2 Gc1 /\ same_upto_order Hc2 Hc1.
Proof. exact fixed_point_wl. Qed.
Print Assumptions C09_fixed_point_wl_partial.

(** 2''. Back-end nauty, invariance premise DISCHARGED from the C08 facts about the search (the best leaf of a renamed
       graph is the image of a leaf with the same label; leaves with the same label correspond by an automorphism):
       when all reactant atoms are distinguishable ([rigid (to_c08 G)]: the only position-wise correspondence between two
       enumerations of the atoms that keeps element, charge, aromaticity, hydrogen count and the bonds is the identity)
       and the element symbols are alphanumeric ([els_ok]), the two presentations get the same canonical graphs from
       [canonicalise_nauty] (the function [run_canon_nauty] evaluates), and a second run returns the canonical graphs.
       Partial w.r.t. the property text only through the RDKit writer / parser contract S2 (string level). *)
Theorem C09_numbering_independent_nauty_partial : forall (G H G2' H2' : mgraph) (p : N -> N),
  parsed G -> parsed H -> (exists s, In s (node_ids G) /\ In s (node_ids H)) ->
  (forall a b, p a = p b -> a = b) -> (forall n, In n (node_ids G) \/ In n (node_ids H) -> p n <> 0%N) ->
  (forall m n, In m (node_ids H) -> ~ In m (node_ids G) -> In n (node_ids H) -> ~ In n (node_ids G) -> (m <= n)%N -> (p m <= p n)%N) ->
  relabelled_by p G G2' -> relabelled_by p H H2' ->
  C08_Spec.els_ok (to_c08 G) -> rigid (to_c08 G) ->
  exists (pairs1 pairs2 : list (N * N)) (Gc1 Gc2 Hc1 Hc2 : mgraph),
    canonicalise_nauty G H = Some (Gc1, pairs1, Hc1) /\
    canonicalise_nauty (set_amap G2') (set_amap H2') = Some (Gc2, pairs2, Hc2) /\
    same_upto_order Gc2 Gc1 /\ same_upto_order Hc2 Hc1.
Proof. exact numbering_independent_nauty. Qed.
Print Assumptions C09_numbering_independent_nauty_partial.

Theorem C09_fixed_point_nauty_partial : forall G H : mgraph,
  parsed G -> parsed H -> (exists s, In s (node_ids G) /\ In s (node_ids H)) ->
  C08_Spec.els_ok (to_c08 G) -> rigid (to_c08 G) ->
  exists (pairs1 : list (N * N)) (Gc1 Hc1 : mgraph),
    canonicalise_nauty G H = Some (Gc1, pairs1, Hc1) /\
    exists (pairs2 : list (N * N)) (Gc2 Hc2 : mgraph),
      canonicalise_nauty Gc1 Hc1 = Some (Gc2, pairs2, Hc2) /\ same_upto_order Gc2 Gc1 /\ same_upto_order Hc2 Hc1.
Proof. exact fixed_point_nauty. Qed.
Print Assumptions C09_fixed_point_nauty_partial.

(** 3. The validator is exact: the matcher the correspondence runs answers true iff the two ITS graphs (resp. the two
       reaction centres) are isomorphic on typesGH + order. *)
Theorem C09_validator_exact : forall G1 H1 G2 H2 : mgraph, wf G2 -> wf H2 ->
  (smiles_check_its G1 H1 G2 H2 = true <-> its_isomorphic (its_construct G1 H1) (its_construct G2 H2)) /\
  (smiles_check_rc G1 H1 G2 H2 = true <->
     its_isomorphic (get_rc (its_construct G1 H1)) (get_rc (its_construct G2 H2))).
Proof. exact validator_exact. Qed.
Print Assumptions C09_validator_exact.

(** options (round 3): with ignore_aromaticity = ia the validator is exact on the ITS / centre built with that option
    ([its_construct_o], C01_Opts: standard_order zeroed when the orders differ by less than 1); ia = false is the function
    above.  The model functions are pure: a verdict never depends on the calls made before (the implementation is
    compared step by step in history cases). *)
Theorem C09_validator_exact_options : forall (ia : bool) (G1 H1 G2 H2 : mgraph), wf G2 -> wf H2 ->
  (smiles_check_its_o ia G1 H1 G2 H2 = true <->
     its_isomorphic (C01_Opts.its_construct_o (vopts ia) G1 H1) (C01_Opts.its_construct_o (vopts ia) G2 H2)) /\
  (smiles_check_rc_o ia G1 H1 G2 H2 = true <->
     its_isomorphic (get_rc (C01_Opts.its_construct_o (vopts ia) G1 H1)) (get_rc (C01_Opts.its_construct_o (vopts ia) G2 H2))).
Proof. exact validator_exact_o. Qed.
Print Assumptions C09_validator_exact_options.

Theorem C09_validator_default_option : forall G1 H1 G2 H2 : mgraph,
  smiles_check_its_o false G1 H1 G2 H2 = smiles_check_its G1 H1 G2 H2 /\
  smiles_check_rc_o false G1 H1 G2 H2 = smiles_check_rc G1 H1 G2 H2.
Proof. exact smiles_check_o_default. Qed.
Print Assumptions C09_validator_default_option.

(** every renumbering of a mapping is accepted, by both methods, also with re-ordered atoms and rewritten atom_map
    attributes, as the parser of the renumbered string delivers them ([relabelled_by f G G'], [set_amap]) *)
Theorem C09_validator_renumbering : forall (f : N -> N) (G H : mgraph),
  (forall a b, f a = f b -> a = b) -> wf G -> wf H ->
  smiles_check_its (relabel f G) (relabel f H) G H = true /\
  smiles_check_rc (relabel f G) (relabel f H) G H = true /\
  (forall G' H', relabelled_by f G G' -> relabelled_by f H H' -> smiles_check_its (set_amap G') (set_amap H') G H = true).
Proof. exact validator_renumbering. Qed.
Print Assumptions C09_validator_renumbering.

Theorem C09_validator_renumbering_rc : forall (f : N -> N) (G H G' H' : mgraph),
  (forall a b, f a = f b -> a = b) -> wf G -> wf H ->
  relabelled_by f G G' -> relabelled_by f H H' -> smiles_check_rc (set_amap G') (set_amap H') G H = true.
Proof. exact validator_renumbering_rc. Qed.
Print Assumptions C09_validator_renumbering_rc.

(** a mapping in which the product-side numbers of two atoms x, y are transposed is rejected whenever it is not
    equivalent to the reference, i.e. whenever x and y are not interchangeable: no isomorphism between the swapped
    and the reference ITS (resp. centre).  (By C09_validator_exact this is an equivalence: the swap is accepted iff
    the transposition factors through automorphisms of the two sides.) *)
Theorem C09_validator_rejects_swap : forall (x y : N) (G H : mgraph), wf G -> wf H ->
  (~ its_isomorphic (its_construct G (relabel (transp x y) H)) (its_construct G H) ->
   smiles_check_its G (relabel (transp x y) H) G H = false) /\
  (~ its_isomorphic (get_rc (its_construct G (relabel (transp x y) H))) (get_rc (its_construct G H)) ->
   smiles_check_rc G (relabel (transp x y) H) G H = false).
Proof. exact validator_rejects_swap. Qed.
Print Assumptions C09_validator_rejects_swap.

(** 4. Balance, graph level: true exactly when every element count (implicit hydrogens counted as H atoms) and the
       total charge agree.  (BalanceReactionCheck compares RDKit's CalcMolFormula strings: oracle, monitored.) *)
Theorem C09_balance_iff : forall G H : mgraph,
  balancedb G H = true <-> (forall e, el_count e G = el_count e H) /\ total_charge G = total_charge H.
Proof. exact balance_iff. Qed.
Print Assumptions C09_balance_iff.

(** dicts_balance_check (round 3): the records are split into (balanced, unbalanced) without loss or duplication, and a
    record is in the balanced list exactly when its element counts (with H) and total charge agree *)
Theorem C09_balance_partition : forall (X : Type) (rs : list (X * (mgraph * mgraph))),
  Permutation (fst (balance_partition rs) ++ snd (balance_partition rs)) (map fst rs) /\
  (forall x, In x (fst (balance_partition rs)) <->
     exists G H, In (x, (G, H)) rs /\ (forall e, el_count e G = el_count e H) /\ total_charge G = total_charge H) /\
  (forall x, In x (snd (balance_partition rs)) <->
     exists G H, In (x, (G, H)) rs /\ ~ ((forall e, el_count e G = el_count e H) /\ total_charge G = total_charge H)).
Proof. exact @balance_partition_spec. Qed.
Print Assumptions C09_balance_partition.

(** remap_graph in its list form (round 4): for a duplicate-free list of all nodes it relabels every node to its 1-based
    position in the list, i.e. it is [relabel (sigma_of l)] - the same relabelling the canonicaliser applies to the reactants *)
Theorem C09_remap_graph_list : forall (H : mgraph) (l : list N),
  wf H -> NoDup l -> (forall n, In n l <-> In n (node_ids H)) -> l <> [] ->
  remap_graph_list H l = Some (relabel (sigma_of l) H).
Proof. exact remap_graph_list_spec. Qed.
Print Assumptions C09_remap_graph_list.
