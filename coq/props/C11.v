From Coq Require Import List NArith Arith Permutation Sorted.
From SK Require Import lib.LGraph lib.Mono model.C11_Model proof.C11_Aut proof.C11_WL proof.C11_Dedup proof.C11_Main proof.C11_Comp proof.C11_VF2 proof.C11_Vocab proof.C11_Sig proof.C11_Anchor model.C11_State proof.C11_StateProof model.C11_Partial proof.C11_PartialProof proof.C11_PruneClass proof.C11_WLPart proof.C11_Idem model.C11_Keys model.C11_Attr proof.C11_AttrProof model.C11_Orbit proof.C11_OrbitProof proof.C11_Extend model.C11_Order proof.C11_OrderProof model.C11_Views proof.C11_ViewsProof proof.C11_Singleton proof.C11_Count proof.C11_WLMono model.C11_AttrFull proof.C11_Subset model.C11_State2 proof.C11_State2Proof model.C11_Attr3 proof.C11_Attr3Proof model.C11_Image proof.C11_ImageProof proof.C11_Lone.
Import ListNotations.

(** Vocabulary (definitions in proof/C11_Aut.v, written out here for the reader):
      simple_graph g            := NoDup (node_ids g) /\ no edge joins a node to itself        (implied by LGraph.wf)
      is_automorphism fn fe g s := s maps node_ids g into node_ids g, injectively, preserves the node label
                                   [lab_of fn g] and the adjacency with its edge label [adj_of fe g] (absent stays absent)
      aut_pairs g s             := rev (map (fun u => (u, s u)) (node_ids g))
      same_orbit fn fe g u v    := exists m, In m (auts fn fe g) /\ In (u, v) m
    [auts fn fe g] is the model of networkx VF2 [GraphMatcher(g, g).isomorphisms_iter()]: the verified enumerator
    lib/Mono.v [monos] (induced, g into g).  The code uses only the number of enumerated maps and the set of
    their (node, image) pairs; the correspondence compares both on every case, which monitors the premise
    "VF2 lists every label-preserving self-isomorphism exactly once". *)

(** The specification vocabulary of this file, unfolded: every equivalence below holds by definition (conversion). *)
Theorem C11_vocabulary :
  forall (fn : nlab -> N) (fe : elab -> N) (g : graph) (s : N -> N) (u v : N) (m m' : mapping)
         (O : list (list N)) (c : list N) (cs : list (list N)) (E : list mapping),
  (simple_graph g <-> NoDup (node_ids g) /\ forall a b x, In (a, b, x) (gedges g) -> a <> b) /\
  (is_automorphism fn fe g s <->
     (forall u, In u (node_ids g) -> In (s u) (node_ids g)) /\
     (forall u v, In u (node_ids g) -> In v (node_ids g) -> s u = s v -> u = v) /\
     (forall u, In u (node_ids g) -> option_map fn (label g (s u)) = option_map fn (label g u)) /\
     (forall u v, In u (node_ids g) -> In v (node_ids g) ->
        option_map fe (LGraph.adj g (s u) (s v)) = option_map fe (LGraph.adj g u v))) /\
  aut_pairs g s = rev (map (fun u => (u, s u)) (node_ids g)) /\
  (same_orbit fn fe g u v <-> exists m, In m (auts fn fe g) /\ In (u, v) m) /\
  (same_items m m' <-> forall ph, In ph m <-> In ph m') /\
  (exact_orbits fn fe g O <->
     (forall u, In u (node_ids g) -> exists o, In o O /\ In u o) /\
     (forall o u, In o O -> In u o -> In u (node_ids g)) /\
     (forall o1 o2 u, In o1 O -> In o2 O -> In u o1 -> In u o2 -> o1 = o2) /\
     NoDup O /\
     (forall o u v, In o O -> In u o -> (In v o <-> same_orbit fn fe g u v))) /\
  (pairwise_disjoint (c :: cs) <-> (forall d, In d cs -> forall x, In x c -> ~ In x d) /\ pairwise_disjoint cs) /\
  (nodupR same_items (m :: E) <-> (forall y, In y E -> ~ same_items m y) /\ nodupR same_items E) /\
  app_map m u = match assoc u m with Some q => q | None => u end /\
  act m m' = map (fun ph => (app_map m (fst ph), snd ph)) m'.
Proof. exact vocabulary. Qed.
Print Assumptions C11_vocabulary.

(** Clause 1 (count).  The enumeration is a duplicate-free list of exactly the label-preserving automorphisms, and
    the reported number is its length — for a graph with at most one component; otherwise the product of the
    per-component numbers (component swaps are not counted, as documented in the code). *)
Theorem C11_aut_count :
  forall (fn : nlab -> N) (fe : elab -> N) (g : graph), simple_graph g ->
    NoDup (auts fn fe g) /\
    (forall m, In m (auts fn fe g) <-> exists s, is_automorphism fn fe g s /\ m = aut_pairs g s) /\
    a_count (analyze fn fe g) =
      (if (length (components g) <=? 1)%nat then N.of_nat (length (auts fn fe g))
       else fold_left N.mul (map (fun c => N.of_nat (length (auts fn fe (induced_sub g c)))) (components g)) 1%N) /\
    (forall c, simple_graph (induced_sub g c)).
Proof. exact aut_count_all. Qed.
Print Assumptions C11_aut_count.

(** The listed maps form a group: identity, composition, inverse (this is what makes "exchangeable" an
    equivalence relation). *)
Theorem C11_aut_group :
  forall (fn : nlab -> N) (fe : elab -> N) (g : graph), simple_graph g ->
    is_automorphism fn fe g (fun u => u) /\
    (forall s t, is_automorphism fn fe g s -> is_automorphism fn fe g t -> is_automorphism fn fe g (fun u => s (t u))) /\
    (forall s, is_automorphism fn fe g s ->
       exists t, is_automorphism fn fe g t /\ forall u, In u (node_ids g) -> t (s u) = u /\ s (t u) = u).
Proof. exact aut_group. Qed.
Print Assumptions C11_aut_group.

(** VF2 as an explicit premise.  [analyze_component_with ns E] is Automorphism._analyze_component with the enumeration
    [gm.isomorphisms_iter()] abstracted to an arbitrary list E; the model's [analyze_component fn fe g] is this function
    at [auts fn fe g].  Contract of VF2: E lists every label-preserving automorphism exactly once.  Under the contract
    the analysis (count and orbit list) is the one the theorems above and below talk about. *)
Theorem C11_vf2_contract :
  forall (fn : nlab -> N) (fe : elab -> N) (g : graph) (E : list mapping), simple_graph g ->
    NoDup E ->
    (forall m, In m E <-> exists s, is_automorphism fn fe g s /\ m = aut_pairs g s) ->
    analyze_component_with (node_ids g) E = analyze_component fn fe g /\
    length E = length (auts fn fe g).
Proof. exact vf2_contract_suffices. Qed.
Print Assumptions C11_vf2_contract.

(** The same with the maps as networkx delivers them — dictionaries, item order unspecified.  [same_items m m'] :=
    forall ph, In ph m <-> In ph m';  [nodupR same_items E] := no two members of E have the same items.  Contract:
    E contains only automorphisms, every automorphism, none twice (all up to item order). *)
Theorem C11_vf2_contract_items :
  forall (fn : nlab -> N) (fe : elab -> N) (g : graph) (E : list mapping), simple_graph g ->
    (forall m, In m E -> exists s, is_automorphism fn fe g s /\ same_items m (aut_pairs g s)) ->
    (forall s, is_automorphism fn fe g s -> exists m, In m E /\ same_items m (aut_pairs g s)) ->
    nodupR same_items E ->
    analyze_component_with (node_ids g) E = analyze_component fn fe g /\
    length E = length (auts fn fe g).
Proof. exact vf2_contract_items. Qed.
Print Assumptions C11_vf2_contract_items.

(** Clause 2 (orbits).  [exact_orbits fn fe g O] (proof/C11_Aut.v) says: every node lies in some member of O; members
    contain only nodes; two members sharing a node are equal; O has no repeated member; and for u in a member o,
    v is in o IFF some listed automorphism maps u to v.  Written out for the connected case; for a disconnected
    graph the reported list consists of the members of the per-component analyses, each of which is exact for its
    component (induced subgraph). *)
Theorem C11_orbits_exact :
  forall (fn : nlab -> N) (fe : elab -> N) (g : graph), simple_graph g ->
    ((length (components g) <= 1)%nat ->
       let O := a_orbits (analyze fn fe g) in
       (forall u, In u (node_ids g) -> exists o, In o O /\ In u o) /\
       (forall o u, In o O -> In u o -> In u (node_ids g)) /\
       (forall o1 o2 u, In o1 O -> In o2 O -> In u o1 -> In u o2 -> o1 = o2) /\
       NoDup O /\
       (forall o u v, In o O -> In u o -> (In v o <-> same_orbit fn fe g u v))) /\
    ((1 < length (components g))%nat ->
       forall o, In o (a_orbits (analyze fn fe g)) <->
                 exists c, In c (components g) /\ In o (fst (analyze_component fn fe (induced_sub g c)))) /\
    (forall c, exact_orbits fn fe (induced_sub g c) (fst (analyze_component fn fe (induced_sub g c)))) /\
    NoDup (a_orbits (analyze fn fe g)) /\
    (forall u, In u (node_ids g) -> exists o, In o (a_orbits (analyze fn fe g)) /\ In u o).
Proof. exact orbits_exact_all. Qed.
Print Assumptions C11_orbits_exact.

(** Clause 2 for every graph, connected or not: the reported orbits partition the node set; for a disconnected graph
    two nodes share an orbit IFF they lie in one component and an automorphism of that component (induced subgraph)
    maps one to the other — component swaps excluded, as the code documents.  Needs [wf] (the components are the
    classes of the connectivity relation of lib/Reach.v, pairwise disjoint: C11_components below). *)
Theorem C11_orbits_partition :
  forall (fn : nlab -> N) (fe : elab -> N) (g : graph), wf g ->
    let O := a_orbits (analyze fn fe g) in
    (forall u, In u (node_ids g) -> exists o, In o O /\ In u o) /\
    (forall o u, In o O -> In u o -> In u (node_ids g)) /\
    (forall o1 o2 u, In o1 O -> In o2 O -> In u o1 -> In u o2 -> o1 = o2) /\
    NoDup O /\
    ((1 < length (components g))%nat ->
       forall o u v, In o O -> In u o ->
         (In v o <-> exists c, In c (components g) /\ In u c /\ same_orbit fn fe (induced_sub g c) u v)).
Proof. exact orbits_partition_all. Qed.
Print Assumptions C11_orbits_partition.

(** [components g] (nx.connected_components): every member is the set of nodes connected to one of the nodes
    (Reach.conn over the neighbour lists), members are pairwise disjoint and cover the nodes. *)
Theorem C11_components :
  forall g : graph, wf g ->
    (forall c, In c (components g) ->
       exists u, In u (node_ids g) /\ forall x, In x c <-> Reach.conn (nbrs g) [u] x) /\
    pairwise_disjoint (components g) /\
    (forall u, In u (node_ids g) -> exists c, In c (components g) /\ In u c).
Proof. exact components_spec. Qed.
Print Assumptions C11_components.

(** The anchor components handed to the de-duplicators (round 3).  Automorphism.anchor_component (disconnected graphs only)
    is a reported component of maximal size; AutoEst.anchor_component is a reported component that no other component
    precedes in the order "larger first, then smaller minimal node id" ([not_before c A] := |c| < |A| \/ (|c| = |A| /\
    minN A <= minN c)). *)
Theorem C11_anchors :
  forall (fn : nlab -> N) (fe : elab -> N) (g : graph),
    (forall A, a_anchor (analyze fn fe g) = Some A ->
       In A (components g) /\ forall c, In c (components g) -> (length c <= length A)%nat) /\
    (components g <> [] ->
       In (wl_anchor g) (components g) /\ forall c, In c (components g) -> not_before c (wl_anchor g)).
Proof. exact anchors_all. Qed.
Print Assumptions C11_anchors.

(** Reused objects (round 3; model/C11_State.v: an Automorphism instance holds a reference to the caller's graph and caches
    its analysis at the first read; AutoEst.fit() recomputes).  For a history "edit the graph in place, read" on ONE
    Automorphism object every answer is the analysis of the value the graph had at the FIRST read (no invalidation);
    an object not read before the edit answers for the edited value; reading twice changes nothing; an estimator
    fitted again after every edit always answers for the current value; reading an unfitted estimator is an error. *)
Theorem C11_object_state :
  forall (fn : nlab -> N) (fe : elab -> N) (k : nat) (g0 : graph) (gs : list graph),
    reads fn fe (a_new g0) gs = map (fun _ => analyze fn fe (hd g0 gs)) gs /\
    (forall g g', fst (a_read fn fe (a_edit g' (a_new g))) = analyze fn fe g') /\
    (forall o, let '(a, o') := a_read fn fe o in a_read fn fe o' = (a, o')) /\
    refits fn fe k (e_new g0) gs = map (fun g => Some (wl fn fe g k)) gs /\
    e_colors (e_new g0) = None.
Proof. exact objects_all. Qed.
Print Assumptions C11_object_state.

(** Clause 2, second sentence (the fast estimate).  After any number [k] of WL-1 sweeps (AutoEst max_iter), every
    automorphism that preserves the labels the estimate was given keeps the colour of every node — component swaps
    included —, so a colour class (estimated orbit) never contains one node of a true orbit without the other. *)
Theorem C11_wl_never_splits :
  forall (fn : nlab -> N) (fe : elab -> N) (g : graph) (k : nat), wf g ->
    (forall s, is_automorphism fn fe g s ->
       forall u, In u (node_ids g) -> col (wl fn fe g k) (s u) = col (wl fn fe g k) u) /\
    (forall m u v, In m (auts fn fe g) -> In (u, v) m -> col (wl fn fe g k) v = col (wl fn fe g k) u) /\
    (forall o u v, In o (wl_orbits (wl fn fe g k)) -> In u o -> same_orbit fn fe g u v -> In v o).
Proof. exact wl_never_splits_all. Qed.
Print Assumptions C11_wl_never_splits.

(** The estimated orbits themselves (round 3): the colour classes partition the node set, and a class is exactly the set
    of nodes with one colour. *)
Theorem C11_wl_partition :
  forall (fn : nlab -> N) (fe : elab -> N) (g : graph) (k : nat),
    NoDup (node_ids g) ->
    let O := wl_orbits (wl fn fe g k) in
    (forall u, In u (node_ids g) -> exists o, In o O /\ In u o) /\
    (forall o u, In o O -> In u o -> In u (node_ids g)) /\
    (forall o1 o2 u, In o1 O -> In o2 O -> In u o1 -> In u o2 -> o1 = o2) /\
    (forall o u v, In o O -> In u o -> (In v o <-> In v (node_ids g) /\ col (wl fn fe g k) v = col (wl fn fe g k) u)).
Proof. exact wl_orbits_partition. Qed.
Print Assumptions C11_wl_partition.

(** The premise [wf g] is decided by the model function [wfb], which the correspondence evaluates on every graph. *)
Theorem C11_wfb_sound : forall g : graph, wfb g = true -> wf g.
Proof. exact wfb_wf. Qed.
Print Assumptions C11_wfb_sound.

(** Clause 3: de-duplication returns a sub-list of its input in the original order —
    deduplicate_matches_with_anchor (every orbit / anchor / host-orbit configuration; [None] = ValueError),
    deduplicate_matches_by_automorphisms, and the pruning step of SynReactor.mappings(). *)
Theorem C11_dedup_sublist :
  forall (X : Type) (key : X -> mapping) (xs : list X),
    (forall porbs anchor horbs out, dedup_anchor key xs porbs anchor horbs = Some out -> subseq out xs) /\
    (forall A, subseq (dedup_aut key A xs) xs) /\
    (forall rc, subseq (prune key rc xs) xs).
Proof. exact dedup_sublist_all. Qed.
Print Assumptions C11_dedup_sublist.

(** Clause 3, sharpened (round 3): deduplicate_matches_with_anchor keeps exactly the FIRST match of every signature class.
    [anchor_signature porbs anchor horbs] (proof/C11_Sig.v) is the signature the function computes for one match from its
    orbit arguments; [dedup_anchor_h] takes the host anchor as a further argument, which does not influence the result
    (the code accepts and ignores it).  For a duplicate-free input: the output is a subsequence; the same output is
    obtained without host anchor; without any orbit argument the input is returned; otherwise every match has a signature
    (else ValueError = None) and x is kept IFF no earlier match has the signature of x. *)
Theorem C11_dedup_first_of_class :
  forall (X : Type) (key : X -> mapping) (xs : list X) porbs anchor horbs hanchor out,
    NoDup xs ->
    dedup_anchor_h key xs porbs anchor horbs hanchor = Some out ->
    subseq out xs /\
    dedup_anchor_h key xs porbs anchor horbs None = Some out /\
    ((porbs = None /\ horbs = None /\ out = xs) \/
     ((porbs <> None \/ horbs <> None) /\
      (forall x, In x xs -> anchor_signature porbs anchor horbs (key x) <> None) /\
      forall x, In x out <->
        (In x xs /\ forall l1 l2, xs = l1 ++ x :: l2 -> forall z, In z l1 ->
                      anchor_signature porbs anchor horbs (key z) <> anchor_signature porbs anchor horbs (key x)))).
Proof. exact dedup_anchor_first_all. Qed.
Print Assumptions C11_dedup_first_of_class.

(** PartialMatcher._prune_automorphic_mappings: the empty list is returned as it is, otherwise the function above on the
    WL-1 orbits of the host (after [k] = wl_max_iter sweeps) with the host anchor; the result is a subsequence. *)
Theorem C11_partial_prune :
  forall (X : Type) (key : X -> mapping) (fn : nlab -> N) (h : graph) (k : nat) (xs : list X),
    partial_prune key fn h k xs =
      match xs with
      | [] => Some []
      | _ => dedup_anchor key xs None [] (Some (wl_orbits (wl fn e_order h k)))
      end /\
    forall out, partial_prune key fn h k xs = Some out -> subseq out xs.
Proof. exact partial_prune_all. Qed.
Print Assumptions C11_partial_prune.

(** ... and over the list of hosts the class stores: pruning happens only for exactly one host; otherwise the (non-empty)
    list is returned unchanged; always a subsequence. *)
Theorem C11_partial_prune_hosts :
  forall (X : Type) (key : X -> mapping) (fn : nlab -> N) (k : nat) (xs : list X),
    (forall h, partial_prune_hosts key fn [h] k xs = partial_prune key fn h k xs) /\
    (forall hosts, length hosts <> 1%nat -> xs <> [] -> partial_prune_hosts key fn hosts k xs = Some xs) /\
    (forall hosts out, partial_prune_hosts key fn hosts k xs = Some out -> subseq out xs).
Proof. exact partial_prune_hosts_all. Qed.
Print Assumptions C11_partial_prune_hosts.

(** Clause 4 (pruning), first half: every raw match is represented by a kept match — the same list element, the
    same set of (pattern node, host node) items, or its items are those of the kept match with the pattern node
    moved by an automorphism [s] of the rule centre ([app_map s p] = s[p]); i.e. m = m' o s^-1. *)
Theorem C11_prune_complete :
  forall (X : Type) (key : X -> mapping) (rc : graph) (raw : list X) (x : X),
    In x raw ->
    exists y, In y (prune key rc raw) /\
      (y = x \/ (forall ph, In ph (key x) <-> In ph (key y)) \/
       exists s, In s (rule_auts rc) /\
         forall p h, In (p, h) (key x) <-> exists p', In (p', h) (key y) /\ p = app_map s p').
Proof. exact prune_complete_all. Qed.
Print Assumptions C11_prune_complete.

(** [rep_ok rc raw] is the computed form of this statement (key = identity); the correspondence evaluates it on the
    implementation's own lists (with every symmetry checked to be an automorphism) and on the model. *)
Theorem C11_rep_ok : forall (rc : graph) (raw : list mapping), rep_ok rc raw = true.
Proof. exact rep_ok_true. Qed.
Print Assumptions C11_rep_ok.

(** The same at the level of functions: when the matches are defined on nodes of the rule centre (as the search
    engine guarantees; Python's sigma[p] would raise otherwise), every raw match m is m' o sigma^-1 for a kept match m'
    and a label-preserving automorphism sigma of the rule centre (all node attributes except atom_map, all edge
    attributes). *)
Theorem C11_prune_complete_aut :
  forall (X : Type) (key : X -> mapping) (rc : graph) (raw : list X),
    simple_graph rc ->
    (forall x p h, In x raw -> In (p, h) (key x) -> In p (node_ids rc)) ->
    forall x, In x raw ->
    exists y, In y (prune key rc raw) /\
      exists s, is_automorphism n_full e_full rc s /\
        forall p h, In (p, h) (key x) <-> exists p', In (p', h) (key y) /\ p = s p'.
Proof. exact prune_complete_fun. Qed.
Print Assumptions C11_prune_complete_aut.

(** Clause 4, exactness (round 3): for a duplicate-free list of matches that live on nodes of the rule centre, a match is
    kept IFF no EARLIER raw match differs from it by an automorphism of the rule centre.  With C11_prune_complete_aut:
    the output consists of exactly one representative - the earliest - of every class, in input order. *)
Theorem C11_prune_first_of_class :
  forall (X : Type) (key : X -> mapping) (rc : graph) (raw : list X),
    simple_graph rc -> NoDup raw ->
    (forall x, In x raw -> forall p h, In (p, h) (key x) -> In p (node_ids rc)) ->
    forall x, In x (prune key rc raw) <->
      (In x raw /\
       forall l1 l2, raw = l1 ++ x :: l2 -> forall z, In z l1 ->
         ~ exists s, is_automorphism n_full e_full rc s /\
                     forall p h, In (p, h) (key x) <-> exists p', In (p', h) (key z) /\ p = s p').
Proof. exact prune_first_of_class. Qed.
Print Assumptions C11_prune_first_of_class.

(** Both de-duplicators are idempotent (round 3): pruning an already pruned list returns it unchanged - for
    deduplicate_matches_with_anchor with the same orbit arguments, and for the pruning step of the reactor. *)
Theorem C11_dedup_idempotent :
  forall (X : Type) (key : X -> mapping),
    (forall (xs : list X) porbs anchor horbs hanchor out, NoDup xs ->
       dedup_anchor_h key xs porbs anchor horbs hanchor = Some out ->
       dedup_anchor_h key out porbs anchor horbs hanchor = Some out) /\
    (forall (rc : graph) (raw : list X), simple_graph rc -> NoDup raw ->
       (forall x, In x raw -> forall p h, In (p, h) (key x) -> In p (node_ids rc)) ->
       prune key rc (prune key rc raw) = prune key rc raw).
Proof. exact idempotent_all. Qed.
Print Assumptions C11_dedup_idempotent.

(** Clause 4, second half: hence every result function [res] (gluing the rule at a match, up to the identification
    used for "distinct") that depends only on the item set of a match and is invariant under the rule automorphisms
    takes exactly the same set of values on the kept matches as on all raw matches.  The invariance of gluing is
    the named premise (it is C05's gluing equivariance; here it is exercised end-to-end by the oracle on every
    prune case: set of standardised reactions and of ITS hashes with pruning on = with every raw match glued). *)
Theorem C11_prune_same_results :
  forall (X R : Type) (key : X -> mapping) (rc : graph) (raw : list X) (res : mapping -> R),
    (forall m m', (forall ph, In ph m <-> In ph m') -> res m = res m') ->
    (forall s x, In s (rule_auts rc) -> In x raw -> res (act s (key x)) = res (key x)) ->
    forall r, In r (map (fun x => res (key x)) raw) <-> In r (map (fun x => res (key x)) (prune key rc raw)).
Proof. exact prune_same_results. Qed.
Print Assumptions C11_prune_same_results.

(** Attribute dictionaries and key options (round 5; model/C11_Attr.v).  The model receives the attribute dictionaries of
    the networkx graph ([agraph]: key code -> value code per node / edge) and the key options as the caller gave them;
    [pick dflt keys d] is the tuple [d.get(k, dflt k) for k in keys] (default 0 for "charge", "*" for any other node
    key, 1.0 for an edge key), [to_graph nk ek ag] the graph the analysis runs on (tuples numbered by first occurrence).
    [attr_automorphism nk ek ag s] (proof/C11_AttrProof.v) := s maps nodes to nodes injectively, keeps the tuple of
    configured node attribute values and maps every pair of nodes to a pair with the same tuple of configured edge
    attribute values (non-edges to non-edges).  Then: the label-preserving automorphisms of the analysed graph - the
    maps all theorems above talk about - are exactly these; the estimate never separates nodes exchanged by one; two
    attribute graphs with the same configured tuples are analysed alike; an absent attribute IS its default value and an
    attribute outside the configured keys is not looked at. *)
Theorem C11_configured_labels_only :
  forall (nk ek : list N) (ag : agraph),
    node_ids (to_graph nk ek ag) = node_ids ag /\
    (wf ag -> wf (to_graph nk ek ag)) /\
    (forall s, is_automorphism n_exact e_order (to_graph nk ek ag) s <->
       (forall u, In u (node_ids ag) -> In (s u) (node_ids ag)) /\
       (forall u v, In u (node_ids ag) -> In v (node_ids ag) -> s u = s v -> u = v) /\
       (forall u, In u (node_ids ag) ->
          option_map (pick node_default nk) (label ag (s u)) = option_map (pick node_default nk) (label ag u)) /\
       (forall u v, In u (node_ids ag) -> In v (node_ids ag) ->
          option_map (pick edge_default ek) (LGraph.adj ag (s u) (s v)) =
          option_map (pick edge_default ek) (LGraph.adj ag u v))) /\
    (forall s, is_automorphism n_wl e_order (to_graph nk ek ag) s <-> attr_automorphism nk ek ag s) /\
    (wf ag -> forall s k u, attr_automorphism nk ek ag s -> In u (node_ids ag) ->
       col (wl n_exact e_order (to_graph nk ek ag) k) (s u) = col (wl n_exact e_order (to_graph nk ek ag) k) u) /\
    (forall ag', picked nk ek ag' = picked nk ek ag -> to_graph nk ek ag' = to_graph nk ek ag) /\
    (forall k u d r l2, gnodes ag = r ++ (u, d) :: l2 -> assoc k d = None ->
       picked nk ek (LG (r ++ (u, (k, node_default k) :: d) :: l2) (gedges ag)) = picked nk ek ag) /\
    (forall k v u d r l2, gnodes ag = r ++ (u, d) :: l2 -> ~ In k nk ->
       picked nk ek (LG (r ++ (u, (k, v) :: d) :: l2) (gedges ag)) = picked nk ek ag).
Proof. exact configured_labels_only. Qed.
Print Assumptions C11_configured_labels_only.

(** The option rules themselves: Automorphism takes the defaults for a FALSY key argument (None or empty), AutoEst only
    for None (an empty list = no label: every tuple is empty). *)
Theorem C11_key_options :
  (forall d : list N, exact_keys d None = d) /\ (forall d : list N, exact_keys d (Some []) = d) /\
  (forall (d : list N) k r, exact_keys d (Some (k :: r)) = k :: r) /\
  (forall d : list N, wl_keys d None = d) /\ (forall (d l : list N), wl_keys d (Some l) = l) /\
  (forall (dflt : N -> N) (d : attrs), pick dflt [] d = []).
Proof. exact key_options. Qed.
Print Assumptions C11_key_options.

(** The labels of a RULE symmetry (round 5; graph_automorphisms(graph, ignore_node_attrs), default ("atom_map",)): the
    model receives the attribute dictionaries of rule.rc.raw; [to_rule_graph skip ag] is the graph whose automorphisms
    [rule_auts] enumerates for the pruning step ([run_prune_attr], evaluated on every rule application).  Its
    automorphisms - the sigma of C11_prune_complete_aut / C11_prune_first_of_class - are exactly the node permutations
    under which every node keeps its attribute dictionary up to the ignored keys ([assoc k d = assoc k d'] for every key
    k that is not ignored: same keys present, same values) and every pair of nodes keeps its edge attribute dictionary
    (all keys; non-edges go to non-edges). *)
Theorem C11_rule_labels :
  forall (skip : list N) (ag : agraph),
    node_ids (to_rule_graph skip ag) = node_ids ag /\
    (wf ag -> wf (to_rule_graph skip ag)) /\
    (forall s, is_automorphism n_full e_full (to_rule_graph skip ag) s <->
       (forall u, In u (node_ids ag) -> In (s u) (node_ids ag)) /\
       (forall u v, In u (node_ids ag) -> In v (node_ids ag) -> s u = s v -> u = v) /\
       (forall u, In u (node_ids ag) ->
          match label ag (s u), label ag u with
          | Some d, Some d' => forall k, ~ In k skip -> assoc k d = assoc k d'
          | None, None => True
          | _, _ => False
          end) /\
       (forall u v, In u (node_ids ag) -> In v (node_ids ag) ->
          match LGraph.adj ag (s u) (s v), LGraph.adj ag u v with
          | Some d, Some d' => forall k, ~ In k [] -> assoc k d = assoc k d'
          | None, None => True
          | _, _ => False
          end)) /\
    (wf ag -> forall m, In m (rule_auts_attr skip ag) <->
       exists s, rule_automorphism skip ag s /\ m = aut_pairs (to_rule_graph skip ag) s).
Proof. exact rule_labels. Qed.
Print Assumptions C11_rule_labels.

(** orbit.py (round 5; model/C11_Orbit.v): OrbitAccuracy(approx, exact) applied to the WL-1 estimate and the exact
    analysis of one connected graph.  [oa_valid] = the class accepts the two lists (same node set, else ValueError);
    [inter_size a e] = len(a & e), an entry of the confusion map; [same_in P u v] = the two nodes have the same member
    index in P (the test of the pairwise accuracy; index = LAST member containing the node); [oa_pairwise] =
    (agreeing pairs, pairs).  Because the estimate never separates a true orbit: the lists are accepted; an exact orbit
    lies wholly inside an estimated class or is disjoint from it; nodes the truth puts together are together in the
    estimate (every pairwise error is a merge); and if the estimate merges nothing the truth separates, the pairwise
    accuracy is 1. *)
Theorem C11_orbit_accuracy :
  forall (fn : nlab -> N) (fe : elab -> N) (g : graph) (k : nat),
    wf g -> (length (components g) <= 1)%nat ->
    let A := wl_orbits (wl fn fe g k) in
    let E := a_orbits (analyze fn fe g) in
    oa_valid A E = true /\
    (forall a e, In a A -> In e E -> inter_size a e = 0%N \/ inter_size a e = N.of_nat (length (canonN e))) /\
    (forall u v, In u (node_ids g) -> same_in E u v = true -> same_in A u v = true) /\
    ((forall u v, In u (node_ids g) -> In v (node_ids g) -> same_in A u v = true -> same_in E u v = true) ->
     fst (oa_pairwise A E) = snd (oa_pairwise A E)).
Proof. exact orbit_accuracy_wl. Qed.
Print Assumptions C11_orbit_accuracy.

(** The observable of an [aut] case evaluates the analysis once; it is the composition of the functions the theorems
    talk about. *)
Theorem C11_aut_observable :
  forall g : graph,
    run_aut_all g = Tok.L [ run_aut g; Tok.tbool (wfb g); Tok.tlist t_maps (aut_lists g); run_aut_oa g ] /\
    run_aut_full g = Tok.L [ run_aut g; Tok.tbool (wfb g); Tok.tlist t_maps (aut_lists g); run_aut_oa g; run_order g ].
Proof. exact (fun g => conj (run_aut_all_eq g) (run_aut_full_eq g)). Qed.
Print Assumptions C11_aut_observable.

(** ... and the one evaluated on every [aut] case since the attribute dictionaries are handed to the model: the same
    composition on [to_graph DEF_NODE DEF_EDGE ag] (the graph of C11_configured_labels_only with the default keys), the
    reactor's 4-attribute estimate on [to_graph WL4 DEF_EDGE ag]. *)
Theorem C11_aut_observable_attr :
  forall ag : agraph,
    let g4 := to_graph WL4 DEF_EDGE ag in
    let gx := to_graph DEF_NODE DEF_EDGE ag in
    let a := analyze n_exact e_order gx in
    run_aut_full_attr ag =
    Tok.L [ Tok.L [ Tok.tN (a_count a); t_sets (a_orbits a); Tok.tlist (Tok.tset Tok.tN) (a_comps a);
                    Tok.topt (Tok.tset Tok.tN) (a_anchor a); wl_obs n_wl g4; wl_obs n_exact gx ];
            Tok.tbool (wfb gx); Tok.tlist t_maps (aut_lists gx); run_aut_oa gx; run_order gx ].
Proof. exact run_aut_full_attr_eq. Qed.
Print Assumptions C11_aut_observable_attr.

(** Clause 2, second sentence, for the orbits the exact analysis REPORTS - every graph, connected or not (round 5).  For a
    disconnected graph the reported orbits are those of the components (component swaps excluded).  An automorphism of a
    component extends by the identity to an automorphism of the whole graph, so a reported orbit lies inside an orbit of
    the full group; hence the estimate, after any number of sweeps, gives two nodes of one reported orbit the same
    colour, and every reported orbit lies inside one estimated class. *)
Theorem C11_wl_never_splits_reported :
  forall (fn : nlab -> N) (fe : elab -> N) (g : graph) (k : nat), wf g ->
    (forall c s, In c (components g) -> is_automorphism fn fe (induced_sub g c) s ->
       is_automorphism fn fe g (fun u => if LGraph.mem u c then s u else u)) /\
    (forall o u v, In o (a_orbits (analyze fn fe g)) -> In u o -> In v o ->
       col (wl fn fe g k) v = col (wl fn fe g k) u) /\
    (forall o u, In o (a_orbits (analyze fn fe g)) -> In u o ->
       exists a, In a (wl_orbits (wl fn fe g k)) /\ forall v, In v o -> In v a).
Proof. exact wl_never_splits_reported. Qed.
Print Assumptions C11_wl_never_splits_reported.

(** ... and therefore C11_orbit_accuracy without the connectedness premise. *)
Theorem C11_orbit_accuracy_all :
  forall (fn : nlab -> N) (fe : elab -> N) (g : graph) (k : nat),
    wf g ->
    let A := wl_orbits (wl fn fe g k) in
    let E := a_orbits (analyze fn fe g) in
    oa_valid A E = true /\
    (forall a e, In a A -> In e E -> inter_size a e = 0%N \/ inter_size a e = N.of_nat (length (canonN e))) /\
    (forall u v, In u (node_ids g) -> same_in E u v = true -> same_in A u v = true) /\
    ((forall u v, In u (node_ids g) -> In v (node_ids g) -> same_in A u v = true -> same_in E u v = true) ->
     fst (oa_pairwise A E) = snd (oa_pairwise A E)).
Proof. exact orbit_accuracy_all. Qed.
Print Assumptions C11_orbit_accuracy_all.

(** The ORDER of the reported lists (round 5; model/C11_Order.v).  Automorphism.orbits is the orbit set sorted by the key
    [okey o] = (size, the numerals of the members sorted as strings and joined with "|") ([orbit_leb] compares two keys
    as Python compares (int, str) tuples): a permutation of the set - so every statement above about membership holds
    for the list -, sorted, and independent of the order in which the set was enumerated as long as no two members
    have the same key.  AutoEst.groups is a sorted permutation of the member lists; AutoEst.orbit_index sends a node
    to the position of a member that contains it and is defined for every covered node. *)
Theorem C11_orbit_order :
  forall (O : list (list N)) (cs : colouring),
    Permutation (sorted_orbits O) O /\
    (forall o, In o (sorted_orbits O) <-> In o O) /\
    Sorted (fun a b => orbit_leb a b = true) (sorted_orbits O) /\
    (forall O', Permutation O O' -> NoDup (map okey O) -> sorted_orbits O' = sorted_orbits O) /\
    Permutation (wl_groups cs) (map sortN (wl_orbits cs)) /\
    Sorted (fun a b => group_leb a b = true) (wl_groups cs) /\
    (forall u j, wl_orbit_index cs u = Some j ->
       In (nth (N.to_nat j) (wl_orbits cs) []) (wl_orbits cs) /\ In u (nth (N.to_nat j) (wl_orbits cs) [])) /\
    (forall u, (exists o, In o (wl_orbits cs) /\ In u o) -> exists j, wl_orbit_index cs u = Some j).
Proof. exact orbit_order. Qed.
Print Assumptions C11_orbit_order.

(** The remaining public views (round 5; model/C11_Views.v).  Automorphism(anchor_largest_component=False) changes nothing
    but the anchor (None); a graph for which is_connected holds has no anchor; AutoEst.components(nodes) raises exactly
    when a given node is unknown, without [nodes] returns the components of the graph sorted by (size, smallest id), and
    for a subset returns - in that order - exactly the components of the induced subgraph, which is well-formed again
    (so C11_components describes each member), covering every kept node. *)
Theorem C11_views :
  forall (fn : nlab -> N) (fe : elab -> N) (g : graph),
    analyze_flag true fn fe g = analyze fn fe g /\
    (let a := analyze_flag false fn fe g in
     a_count a = a_count (analyze fn fe g) /\ a_orbits a = a_orbits (analyze fn fe g) /\
     a_comps a = a_comps (analyze fn fe g) /\ a_anchor a = None) /\
    (a_is_connected g = true -> a_anchor (analyze fn fe g) = None) /\
    (forall ns, est_components g (Some ns) = None <-> exists n, In n ns /\ ~ In n (node_ids g)) /\
    (wf g -> est_components g None = Some (sort_comps (components g))) /\
    (wf g -> forall nodes out, est_components g nodes = Some out ->
       exists keep, keep_nodes g nodes = Some keep /\ wf (induced_sub g keep) /\
         length out = length (components (induced_sub g keep)) /\
         (forall c, In c out <-> In c (components (induced_sub g keep))) /\
         (forall u, In u (node_ids g) -> In u keep -> exists c, In c out /\ In u c)).
Proof. exact views_all. Qed.
Print Assumptions C11_views.

(** The safe region of deduplicate_matches_with_anchor (round 5; planned in DESIGN section 5 as
    "C11_prune_sound_exact_orbits_singletons").  [prepare (Some porbs) anchor] is the output of _prepare_pattern_orbits (the
    correspondence compares it): the orbits disjoint from the anchor, and the sorted anchor nodes.  If every such free
    orbit has at most one member, the free orbits are pairwise distinct, and every match is a dictionary (distinct keys)
    on covered pattern nodes, then - without host orbits - every input match has the same items as a kept match: the
    function drops duplicates only. *)
Theorem C11_dedup_singletons_sound :
  forall (X : Type) (key : X -> mapping) (xs : list X) (porbs : list (list N)) (anchor : list N) (out : list X),
    let free := fst (prepare (Some porbs) anchor) in
    let anchored := snd (prepare (Some porbs) anchor) in
    (forall o, In o free -> (length o <= 1)%nat) ->
    NoDup (concat free) ->
    (forall x, In x xs -> NoDup (map fst (key x)) /\
                          forall p h, In (p, h) (key x) -> In p (concat free) \/ In p anchored) ->
    dedup_anchor key xs (Some porbs) anchor None = Some out ->
    forall x, In x xs -> exists y, In y out /\ forall ph, In ph (key x) <-> In ph (key y).
Proof. exact dedup_singletons_sound. Qed.
Print Assumptions C11_dedup_singletons_sound.

(** ... and outside it the function merges matches that NO symmetry of the pattern relates (path a-b-c-d with its exact
    orbits {b,c}, {a,d}: m and m' differ by exchanging a and d only; replayed on the implementation by
    corpus/regress/C11/dedup_merge_unrelated.json).  This is not a violation of the property (clause 3 asks for a sub-list,
    clause 4 is about the reactor, which prunes by rule automorphisms since fix aa7fe3c); it delimits what the function's
    remaining caller, PartialMatcher(prune_auto=True), may expect. *)
Theorem C11_dedup_orbit_sets_merge_unrelated :
  let O := a_orbits (analyze n_exact e_order ex_p4) in
  wfb ex_p4 = true /\ O = [[2; 3]; [1; 4]]%N /\
  dedup_anchor (fun m : mapping => m) [ex_m1; ex_m2] (Some O) [] None = Some [ex_m1] /\
  length (auts n_exact e_order ex_p4) = 2%nat /\
  (forall s, In s (auts n_exact e_order ex_p4) -> set_eqb ex_m2 (act s ex_m1) = false) /\
  set_eqb ex_m2 ex_m1 = false.
Proof. exact dedup_orbit_sets_merge_unrelated. Qed.
Print Assumptions C11_dedup_orbit_sets_merge_unrelated.

(** Clauses 1 and 2 for a disconnected graph, SEMANTICALLY (round 5): "per component, with component swaps deliberately
    excluded" means: with respect to the label-preserving automorphisms of the WHOLE graph that map every component into
    itself ([keeps_components g s] := forall c x, In c (components g) -> In x c -> In (s x) c).  The reported orbits are
    exactly the orbits of that subgroup, and the reported number - the product of the per-component numbers - is the
    number of listed automorphisms of the whole graph that keep the components ([kept_auts] = filter of [auts] by the
    computed test [keepsb]; restriction to the components and combination by cases are inverse bijections with the
    tuples of component automorphisms).  Holds for every [wf] graph, connected or not. *)
Theorem C11_orbits_no_swaps :
  forall (fn : nlab -> N) (fe : elab -> N) (g : graph), wf g ->
    forall o u v, In o (a_orbits (analyze fn fe g)) -> In u o ->
      (In v o <-> exists s, is_automorphism fn fe g s /\ keeps_components g s /\ s u = v).
Proof. exact orbits_no_swaps. Qed.
Print Assumptions C11_orbits_no_swaps.

Theorem C11_count_no_swaps :
  forall (fn : nlab -> N) (fe : elab -> N) (g : graph), wf g ->
    a_count (analyze fn fe g) = N.of_nat (length (filter (keepsb g) (auts fn fe g))) /\
    (forall m, In m (filter (keepsb g) (auts fn fe g)) <->
       exists s, is_automorphism fn fe g s /\
                 (forall c x, In c (components g) -> In x c -> In (s x) c) /\ m = aut_pairs g s).
Proof. exact count_no_swaps. Qed.
Print Assumptions C11_count_no_swaps.

(** The numerals and the canonical order (round 5).  [repr_N n] is Python's repr of a non-negative int: decimal digits
    ('0' = 48), most significant first, value n, non-empty, no leading zero, no '|'.  Hence the sort key determines the
    orbit as a set, the keys of the reported orbits are pairwise distinct, and the premise of C11_orbit_order is
    discharged: Automorphism.orbits as a list does not depend on the order in which Python enumerates the orbit set. *)
Theorem C11_repr_numeral :
  forall n : N,
    fold_left (fun a d => (10 * a + (d - 48))%N) (repr_N n) 0%N = n /\
    Forall (fun d => (48 <= d <= 57)%N) (repr_N n) /\ repr_N n <> [] /\
    (n <> 0%N -> hd 0%N (repr_N n) <> 48%N) /\ ~ In 124%N (repr_N n).
Proof. exact repr_N_spec. Qed.
Print Assumptions C11_repr_numeral.

Theorem C11_reported_order_canonical :
  forall (fn : nlab -> N) (fe : elab -> N) (g : graph), wf g ->
    (forall o o', okey o = okey o' -> forall x, In x o <-> In x o') /\
    NoDup (map okey (a_orbits (analyze fn fe g))) /\
    (forall O', Permutation (a_orbits (analyze fn fe g)) O' ->
       sorted_orbits O' = sorted_orbits (a_orbits (analyze fn fe g))).
Proof. exact (fun fn fe g H => conj okey_inj (reported_order_canonical fn fe g H)). Qed.
Print Assumptions C11_reported_order_canonical.

(** Clause 4, proved half, in terms of what the reactor really holds (round 5): [rc] is the attribute-dictionary graph of
    rule.rc.raw, [skip] the ignored node attributes (the reactor: atom_map), [prune key (to_rule_graph skip rc) raw] the
    pruning step as the correspondence evaluates it ([run_prune_attr]).  Every raw match is m' o sigma^-1 for a kept match
    m' and a symmetry sigma of the RULE - a node permutation keeping every node attribute except the ignored ones and
    every edge attribute -, and (duplicate-free raw list) a match is kept IFF no earlier raw match differs from it by such
    a symmetry. *)
Theorem C11_prune_attr :
  forall (X : Type) (key : X -> mapping) (skip : list N) (rc : agraph) (raw : list X),
    wf rc ->
    (forall x p h, In x raw -> In (p, h) (key x) -> In p (node_ids rc)) ->
    (forall x, In x raw ->
       exists y, In y (prune key (to_rule_graph skip rc) raw) /\
         exists s, rule_automorphism skip rc s /\
           forall p h, In (p, h) (key x) <-> exists p', In (p', h) (key y) /\ p = s p') /\
    (NoDup raw ->
     forall x, In x (prune key (to_rule_graph skip rc) raw) <->
       (In x raw /\
        forall l1 l2, raw = l1 ++ x :: l2 -> forall z, In z l1 ->
          ~ exists s, rule_automorphism skip rc s /\
                      forall p h, In (p, h) (key x) <-> exists p', In (p', h) (key z) /\ p = s p')).
Proof. exact prune_attr. Qed.
Print Assumptions C11_prune_attr.

(** The sweeps of the estimate (round 5; AutoEst max_iter).  Allowing one more sweep either changes nothing or applies
    [refine_once] once more; the colour classes only get finer (equal colours with k + j permitted sweeps => equal colours
    with k); and once a sweep changes nothing, every larger max_iter gives the same colouring.  With C11_wl_never_splits:
    true orbits are contained in the classes after k + 1 sweeps, which are contained in the classes after k sweeps. *)
Theorem C11_wl_sweeps :
  forall (fn : nlab -> N) (fe : elab -> N) (g : graph) (k : nat), NoDup (node_ids g) ->
    (wl fn fe g (S k) = wl fn fe g k \/ wl fn fe g (S k) = fst (refine_once fe g (wl fn fe g k))) /\
    (forall u v, In u (node_ids g) -> In v (node_ids g) ->
       col (wl fn fe g (S k)) u = col (wl fn fe g (S k)) v -> col (wl fn fe g k) u = col (wl fn fe g k) v) /\
    (forall j u v, In u (node_ids g) -> In v (node_ids g) ->
       col (wl fn fe g (k + j)) u = col (wl fn fe g (k + j)) v -> col (wl fn fe g k) u = col (wl fn fe g k) v) /\
    (snd (refine_once fe g (wl fn fe g k)) = false -> forall j, wl fn fe g (k + j) = wl fn fe g k).
Proof. exact wl_sweeps. Qed.
Print Assumptions C11_wl_sweeps.

(** deduplicate_matches_by_automorphisms with a SUBSET of the rule symmetries (round 5; the docstring: "Any subset of the
    automorphism group is safe; a smaller subset only prunes less").  [rel1 A m m'] := m has the items of m', or the items
    of m' with the pattern side moved by a member of A.  For a duplicate-free list of matches on the rule centre and any
    list A' of rule symmetries: whatever the full group keeps, A' keeps too; and every raw match is still related, by a
    symmetry of the full group, to a match A' keeps. *)
Theorem C11_dedup_subset_safe :
  forall (X : Type) (key : X -> mapping) (rc : graph) (raw : list X) (A' : list mapping),
    simple_graph rc -> NoDup raw ->
    (forall x, In x raw -> forall p h, In (p, h) (key x) -> In p (node_ids rc)) ->
    (forall s, In s A' -> In s (rule_auts rc)) ->
    (forall x, In x (dedup_aut key (rule_auts rc) raw) -> In x (dedup_aut key A' raw)) /\
    (forall x, In x raw -> exists y, In y (dedup_aut key A' raw) /\
       (set_eqb (key x) (key y) = true \/ exists s, In s (rule_auts rc) /\ set_eqb (key x) (act s (key y)) = true)).
Proof. exact dedup_subset_safe. Qed.
Print Assumptions C11_dedup_subset_safe.

(** AutoEst with its cached orbit index as a state machine (round 5; model/C11_State2.v; the histories of the correspondence
    run exactly [index_history]): before the first fit reading raises; after a fit the index is that of the colouring of the
    CURRENT graph whatever was cached; a second read returns the cached answer; an in-place edit without a new fit leaves
    the answer as it was; over a whole history "edit, read, fit, read, read" the stale answer is the previous fresh one. *)
Theorem C11_est_index_state :
  forall (fn : nlab -> N) (fe : elab -> N) (k : nat),
    (forall g, fst (s_orbit_index (s_new g)) = None) /\
    (forall o, fst (s_orbit_index (s_fit fn fe k o)) = Some (build_index (wl fn fe (s_graph o) k))) /\
    (forall o, let '(i, o') := s_orbit_index o in s_orbit_index o' = (i, o')) /\
    (forall o g', fst (s_orbit_index (s_edit g' o)) = fst (s_orbit_index o)) /\
    (forall gs o prev, fst (s_orbit_index o) = prev ->
       index_history fn fe k o gs =
       (fix go (p : option index_t) (l : list graph) :=
          match l with
          | [] => []
          | g :: r => let f := Some (build_index (wl fn fe g k)) in (p, f, f) :: go f r
          end) prev gs).
Proof. exact est_index_state. Qed.
Print Assumptions C11_est_index_state.

(** The graph with all three node labels and both edge labels, built inside the model from the attribute dictionaries
    (round 5; model/C11_Attr3.v [to_graph3]; the pattern / host of every dedup case, the views and the object histories
    are evaluated on it - no label is computed in Python any more).  Under each reading its automorphisms are the maps
    preserving the corresponding attribute data: the default keys of the exact analysis, the reactor's four estimate
    keys, the whole dictionaries without atom_map. *)
Theorem C11_three_views :
  forall ag : agraph,
    node_ids (to_graph3 ag) = node_ids ag /\
    (wf ag -> wf (to_graph3 ag)) /\
    (forall s, is_automorphism n_exact e_order (to_graph3 ag) s <-> attr_automorphism DEF_NODE DEF_EDGE ag s) /\
    (forall s, is_automorphism n_wl e_order (to_graph3 ag) s <-> attr_automorphism WL4 DEF_EDGE ag s) /\
    (forall s, is_automorphism n_full e_full (to_graph3 ag) s <-> rule_automorphism [K_atom_map] ag s).
Proof. exact three_views. Qed.
Print Assumptions C11_three_views.

(** Clause 4, second half, with a CONCRETE premise (round 5; model/C11_Image.v).  The labelled image of the rule centre under
    a match: [image_nodes rc m] = (host atom, full label of the rule atom placed on it), [image_edges rc m] = (host atom,
    host atom, full label of the rule bond placed on the pair); [same_image] compares both as sets.  For matches on the rule
    centre: every raw match has the labelled image of a kept match, so ANY result that is a function of the labelled image
    takes the same set of values on the kept matches as on all raw matches.  This replaces the abstract premise "invariant
    under rule automorphisms" of C11_prune_same_results by the more concrete "depends only on where each labelled rule atom
    and bond lands".  THAT GLUING IS SUCH A FUNCTION IS NOT PROVED ANYWHERE (no gluing model is instantiated for [res];
    C05's equivariance theorem is about renumbering, not about [same_image]): it remains a premise, judged end to end by
    the oracle on every rule application (set of standardised reactions and of ITS hashes with pruning on = with every
    match of the search engine glued).  [images_ok] is the computed form, evaluated on every rule application. *)
Theorem C11_prune_same_images :
  forall (X : Type) (key : X -> mapping) (rc : graph) (raw : list X),
    simple_graph rc ->
    (forall x p h, In x raw -> In (p, h) (key x) -> In p (node_ids rc)) ->
    (forall x, In x raw -> exists y, In y (prune key rc raw) /\ same_image rc (key x) (key y) = true) /\
    (forall y, In y (prune key rc raw) -> In y raw) /\
    (forall (R : Type) (res : mapping -> R),
       (forall m m', same_image rc m m' = true -> res m = res m') ->
       forall r, In r (map (fun x => res (key x)) raw) <-> In r (map (fun x => res (key x)) (prune key rc raw))) /\
    (forall m m', same_image rc m m' = true <->
       (forall x, In x (image_nodes rc m) <-> In x (image_nodes rc m')) /\
       (forall x, In x (image_edges rc m) <-> In x (image_edges rc m'))) /\
    (forall raw' : list mapping, dom_ok rc raw' = true -> images_ok rc raw' = true).
Proof. exact prune_same_images_all. Qed.
Print Assumptions C11_prune_same_images.

(** Lone atoms (round 5, after the seeded change C11-w4-1, which analysed the lone atoms of a salt or of implicit-hydrogen
    water together with the one bonded molecule and thereby exchanged equally labelled lone atoms): a component that is a
    single atom is an orbit of its own; every counted automorphism fixes it; a graph of lone atoms only has exactly one
    counted automorphism - however many of them carry the same label (component swaps excluded). *)
Theorem C11_lone_atoms_fixed :
  forall (fn : nlab -> N) (fe : elab -> N) (g : graph), wf g ->
    (forall u o, In [u] (components g) -> In o (a_orbits (analyze fn fe g)) -> In u o -> forall v, In v o <-> v = u) /\
    (forall m, In m (filter (keepsb g) (auts fn fe g)) -> forall u, In [u] (components g) -> app_map m u = u) /\
    ((forall c, In c (components g) -> exists u, c = [u]) -> a_count (analyze fn fe g) = 1%N).
Proof. exact lone_atoms_fixed. Qed.
Print Assumptions C11_lone_atoms_fixed.

From SK Require Import model.C03_Model model.C05_Model model.C11_Agree proof.C05_Set proof.C05_Enum proof.C11_Glue proof.C11_GlueBridge.

(** Clause 4 WITHOUT the gluing premise (round 6; proof/C11_Glue.v, proof/C11_GlueBridge.v).  The gluing is C03's model
    [C03_Model.glue host rc m] (tied to SynReactor._glue_graph / _node_glue by C03's correspondence; [None] = no ITS is
    produced); [glue1] turns the option into a list; [obs_eq] = same label function and same adjacency function (C05).
    [rc : its] is C03's typed ITS graph of the rule centre, [g : graph] C11's graph of the same object (e.g.
    [to_rule_graph [K_atom_map] ag]); [agreeb g rc] (model/C11_Agree.v) is a COMPUTATION over the node list: same node
    list, equal labels on the same pairs of atoms, the enumerator's bond test answers alike - evaluated by the
    correspondence on every rule application whose rule centre is in C03's domain (expected and observed: true).
    Hypotheses left, all evaluated by a correspondence: [agreeb] (C11), [rc_ok] = distinct node ids, one entry per bond,
    bonds between listed atoms, and [match_ok] = a match is an injective dictionary on labelled atoms (C05's side_okb).
    Conclusion: C11's own pruning step [C11_Model.prune] is C05's, its symmetry list is C05's; kept matches are raw matches;
    every raw match that glues has a kept representative whose ITS is observationally equal - so the set of glued ITS
    graphs (hence, with the RDKit contract, of distinct reactions) is the same with and without the pruning.
    Proof: imports C05's glue_aut (glue(rc, m o s^-1) = glue(s.rc, m) and s.rc = rc as a labelled graph) and glue_obs. *)
Theorem C11_prune_same_glue :
  forall (g : C11_Model.graph) (rc : its) (host : hostg) (raw : list C11_Model.mapping),
    agreeb g rc = true ->
    (NoDup (node_ids rc) /\ simple_edgesb (gedges rc) = true /\
     (forall a b x, In (a, b, x) (gedges rc) -> In a (node_ids rc) /\ In b (node_ids rc))) ->
    (forall m, In m raw ->
       NoDup (map fst m) /\ NoDup (map snd m) /\
       forall q h, In (q, h) m -> (exists pn, label rc q = Some pn) /\ (exists hn, label host h = Some hn)) ->
    let kept := C11_Model.prune (fun m : C11_Model.mapping => m) g raw in
    (forall k, In k kept -> In k raw) /\
    (forall m T, In m raw -> glue host rc m = Some T ->
       exists k T', In k kept /\ glue host rc k = Some T' /\ obs_eq T T') /\
    (forall T, In T (flat_map (glue1 host rc) raw) -> exists T', In T' (flat_map (glue1 host rc) kept) /\ obs_eq T T') /\
    (forall T', In T' (flat_map (glue1 host rc) kept) -> In T' (flat_map (glue1 host rc) raw)).
Proof. exact c11_prune_same_glue. Qed.
Print Assumptions C11_prune_same_glue.

(** The bridge itself: under [agreeb] the two symmetry lists - C11's [rule_auts g] and C05's [rule_auts rc], both instances
    of the verified enumerator lib/Mono.v - are LITERALLY equal, and so are the two pruning steps. *)
Theorem C11_rule_auts_agree :
  forall (g : C11_Model.graph) (rc : its), agreeb g rc = true ->
    node_ids g = node_ids rc /\ C11_Model.rule_auts g = C05_Model.rule_auts rc /\
    forall raw : list C11_Model.mapping, C11_Model.prune (fun m : C11_Model.mapping => m) g raw = C05_Model.prune rc raw.
Proof. exact rule_auts_agree. Qed.
Print Assumptions C11_rule_auts_agree.

(** The same for the de-duplicator handed ANY list of symmetries each of which is a dictionary with the items of a listed
    automorphism of the rule (item order free - the form in which networkx delivers them to
    deduplicate_matches_by_automorphisms): nothing invented, nothing lost up to observational equality of the glued ITS. *)
Theorem C11_dedup_any_same_glue :
  forall (host : hostg) (rc : its) (A raw : list C11_Model.mapping),
    rc_ok rc -> (forall m, In m raw -> match_ok host rc m) ->
    (forall s, In s A -> NoDup (map fst s) /\ exists s', In s' (C05_Model.rule_auts rc) /\ forall ph, In ph s <-> In ph s') ->
    (forall k, In k (C11_Model.dedup_aut (fun m : C11_Model.mapping => m) A raw) -> In k raw) /\
    (forall m T, In m raw -> glue host rc m = Some T ->
       exists k T', In k (C11_Model.dedup_aut (fun m : C11_Model.mapping => m) A raw) /\ glue host rc k = Some T' /\ obs_eq T T').
Proof. exact dedup_any_same_glue. Qed.
Print Assumptions C11_dedup_any_same_glue.
