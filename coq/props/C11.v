From Coq Require Import List NArith.
From SK Require Import lib.LGraph model.C11_Model proof.C11_Dedup.
Import ListNotations.

(** Clause 3: de-duplication returns a sub-list of its input in the original order —
    deduplicate_matches_with_anchor (every orbit / anchor / host-orbit configuration; [None] = ValueError),
    deduplicate_matches_by_automorphisms, and the pruning step of SynReactor.mappings(). *)
Theorem C11_dedup_sublist :
  forall (X : Type) (key : X -> mapping) (xs : list X),
    (forall porbs anchor horbs out, dedup_anchor key xs porbs anchor horbs = Some out -> subseq out xs) /\
    (forall A, subseq (dedup_aut key A xs) xs) /\
    (forall rc, subseq (prune key rc xs) xs).
Proof. exact dedup_sublist_all. Qed.
Print Assumptions C11_dedup_sublist.
