(** C18 — network canonical form is a complete invariant; automorphism data are exact.
    Statements only; every proof is [exact <lemma of proof/C18_*.v>]. *)
From Coq Require Import List NArith ZArith Bool Arith Permutation.
From SK Require Import lib.IRSortKeys lib.IRCore lib.IRSearch model.C18_Model proof.C18_Order.
From SK Require lib.IRInst.
Import ListNotations.

(** The search of the model (accumulator recursion of CRNCanonicalizer._search: refine, score a discrete partition,
    otherwise individualise every node of the first non-singleton cell) visits exactly the leaves of the generic
    unpruned individualisation-refinement enumeration of lib/IRCore.v, in order: best label / permutation and the
    list of minimal leaves are a left fold of [visit] over that enumeration. *)
Theorem C18_search_is_fold : forall g : vgraph,
  canon_search g =
  fold_left (visit lexlebN (label g))
            (leaves IRInst.lexleb (sig g) (S (length (vnodes g))) (S (length (vnodes g))) (init_part g) [])
            (None, []).
Proof. exact canon_search_fold. Qed.
Print Assumptions C18_search_is_fold.
