(** C18 — network canonical form is a complete invariant; automorphism data are exact.
    Statements only; every proof is [exact <lemma of proof/C18_*.v>].
    Vocabulary (proof/C18_Spec.v): [wf g] = node ids distinct, one arc per ordered pair, arcs join nodes (what a
    networkx DiGraph guarantees; [wfb] is evaluated on every correspondence case); [relabel f g] = g with every node id
    replaced by [f] (kinds, role, stoich untouched); [geq] = same graph up to the insertion order of nodes / arcs;
    [iso g h] = some map injective on the nodes of g relabels g into h up to [geq]. *)
From Coq Require Import List NArith ZArith Bool Arith Permutation.
From SK Require Import lib.IRSortKeys lib.IRCore lib.IRSearch model.C18_Model model.C18_AttrModel model.C18_WLModel model.C18_BackendModel model.C18_DepthModel model.C18_IntIdsModel model.C18_UFModel model.C18_AutAttrModel model.C18_SpAttrModel model.C18_RunModel model.C18_SigLogModel proof.C18_Attr proof.C18_Order proof.C18_Spec
  proof.C18_Graph proof.C18_Canon proof.C18_Equiv proof.C18_Label proof.C18_Aut proof.C18_Invariant proof.C18_Wf proof.C18_Count proof.C18_View proof.C18_Vf2 proof.C18_Vf2Count proof.C18_Refine proof.C18_NetBip proof.C18_Net proof.C18_NetSp proof.C18_Orbits proof.C18_OrbSound proof.C18_OrbComplete proof.C18_OrbCanon proof.C18_Maps proof.C18_WL proof.C18_Backend proof.C18_Depth proof.C18_IntIds proof.C18_UF proof.C18_AutAttr proof.C18_SpAttr proof.C18_AttrEquiv proof.C18_BackendFlags proof.C18_IntIdsRen proof.C18_WLBound proof.C18_Cross proof.C18_Examples.
From SK Require Import lib.C18_IRValid.
From SK Require lib.IRInst.
Import ListNotations.

(** The search of the model (accumulator recursion of CRNCanonicalizer._search: refine, score a discrete partition,
    otherwise individualise every node of the first non-singleton cell) visits exactly the leaves of the generic
    unpruned individualisation-refinement enumeration of lib/IRCore.v, in order: best label / permutation and the
    list of minimal leaves are a left fold of [visit] over that enumeration. *)
Theorem C18_search_is_fold : forall g : vgraph,
  canon_search g =
  fold_left (visit lexlebN (label g))
            (leaves IRInst.lexleb (sig g) (S (length (vnodes g))) (S (length (vnodes g))) (init_part g) [])
            (None, []).
Proof. exact canon_search_fold. Qed.
Print Assumptions C18_search_is_fold.

(** Fuel sufficiency: on a well-formed view the search always reaches a leaf (the code's RuntimeError "canonical
    form not found" cannot happen without max_depth / timeout). *)
Theorem C18_canon_found : forall g : vgraph, wf g -> fst (canon_search g) <> None.
Proof. exact canon_found. Qed.
Print Assumptions C18_canon_found.

(** Clause 1: the canonical graph is the view relabelled by the canonical numbering [cid perm]
    (mapping = {v: i+1 for i, v in enumerate(perm)}), which is injective on the nodes of the view and maps them onto
    k+1 .. k+n (k = length of the duplicated prefix); kinds and arcs with role / stoich are carried over unchanged. *)
Theorem C18_canon_iso : forall (g : vgraph) (lab perm : list N),
  wf g -> fst (canon_search g) = Some (lab, perm) ->
  canon_graph g perm = relabel (cid perm) g /\
  inj_on (cid perm) (node_ids g) /\
  (exists k, Permutation (node_ids (canon_graph g perm)) (map N.of_nat (seq (S k) (length (vnodes g))))) /\
  wf (canon_graph g perm) /\
  (forall v, In v (node_ids g) -> kind_of (canon_graph g perm) (cid perm v) = kind_of g v) /\
  (forall u v, In u (node_ids g) -> In v (node_ids g) ->
     find_arc (canon_graph g perm) (cid perm u) (cid perm v) = find_arc g u v).
Proof. exact canon_iso. Qed.
Print Assumptions C18_canon_iso.

(** Clause 3 (completeness): views that receive identical canonical graphs (as graphs: up to insertion order) are
    isomorphic; contrapositive: non-isomorphic views receive different canonical graphs. *)
Theorem C18_canon_complete : forall (g1 g2 : vgraph) (l1 p1 l2 p2 : list N),
  wf g1 -> wf g2 ->
  fst (canon_search g1) = Some (l1, p1) -> fst (canon_search g2) = Some (l2, p2) ->
  geq (canon_graph g1 p1) (canon_graph g2 p2) -> iso g1 g2.
Proof. exact canon_complete. Qed.
Print Assumptions C18_canon_complete.

(** The model's signature [sig] (kind, in/out degree, neighbour counts per cell, sorted out-edge attributes) satisfies
    the hypothesis [sig_rel] of lib/IRCore.v for a view that is renamed by an injective map and presented with another
    insertion order of nodes / arcs. *)
Theorem C18_sig_rel : forall (f : N -> N), (forall x y, f x = f y -> x = y) ->
  forall (g g' : vgraph) (P P' : partition) (v : N),
  wf g -> geq g' (relabel f g) -> partR f P P' -> sig g' P' (f v) = sig g P v.
Proof. exact sig_rel. Qed.
Print Assumptions C18_sig_rel.

(** The leaf enumeration of the renamed / re-ordered view is the renamed leaf enumeration, up to the visiting order. *)
Theorem C18_leaves_equivariant : forall (f : N -> N), (forall x y, f x = f y -> x = y) ->
  forall g g' : vgraph, wf g -> geq g' (relabel f g) ->
  Permutation (map (map f) (leaves IRInst.lexleb (sig g) (S (length (vnodes g))) (S (length (vnodes g))) (init_part g) []))
              (leaves IRInst.lexleb (sig g') (S (length (vnodes g'))) (S (length (vnodes g'))) (init_part g') []).
Proof. exact leaves_of_rel. Qed.
Print Assumptions C18_leaves_equivariant.

(** Clause 2 (invariance): a view [g'] that is [g] with its nodes renamed by a map that is injective on the nodes of
    [g] (species renamed, reaction ids regenerated) and its node / arc lists in any other order (reactions re-ordered)
    receives the same minimal label and the identical canonical graph.  [kinds_ok] / [arcs_ok]: kinds are 'reaction' /
    'species', role is None / 'product' / 'reactant', stoich is None or a non-negative integer (the domain on which
    the label string can be read back; C18_view_wf shows every view is in it). *)
Theorem C18_canon_invariant : forall (f : N -> N) (g g' : vgraph) (lab p lab' p' : list N),
  inj_on f (node_ids g) -> wf g -> kinds_ok g -> arcs_ok g -> geq g' (relabel f g) ->
  fst (canon_search g) = Some (lab, p) -> fst (canon_search g') = Some (lab', p') ->
  lab' = lab /\ geq (canon_graph g' p') (canon_graph g p).
Proof. exact canon_invariant_on. Qed.
Print Assumptions C18_canon_invariant.

(** The premises are decidable; the boolean versions are part of the observable of every correspondence case
    (run_net evaluates [wfb g && kinds_okb g && arcs_okb g] on the view, the harness checks the same facts on the
    networkx graph of the implementation). *)
Theorem C18_premises_sound : forall g : vgraph,
  (wfb g = true -> wf g) /\ (kinds_okb g = true -> kinds_ok g) /\ (arcs_okb g = true -> arcs_ok g).
Proof. exact (fun g => conj (wfb_wf g) (conj (kinds_okb_ok g) (arcs_okb_ok g))). Qed.
Print Assumptions C18_premises_sound.

(** Known finding C18:view-id-collision (code kept as it is): the views put species labels and reaction ids into one
    node namespace, so "renaming species" is NOT always a renaming of the view: an injective renaming of the species
    whose image meets a reaction id merges two nodes; the renamed network has a view with fewer nodes, hence a
    non-isomorphic canonical graph.  Clause 2 above is therefore stated for renamings of the VIEW's nodes. *)
Theorem C18_species_renaming_refuted : exists (n : net) (f : N -> N),
  inj_on f (nspecies n) /\
  length (vnodes (view true true (rename_species f n))) <> length (vnodes (view true true n)).
Proof. exact species_renaming_refuted. Qed.
Print Assumptions C18_species_renaming_refuted.

(** Clause 4, count: the list of minimal leaves (whose length the code reports as automorphism_count) is a
    duplicate-free enumeration of the structure-preserving self-maps of the view: q is a minimal leaf iff q is the image
    of the best permutation under a self-map preserving kinds and arcs with role / stoich ([is_aut]), and two self-maps
    with the same image agree on every node. *)
Theorem C18_aut_count : forall (g : vgraph) (lab p : list N),
  wf g -> kinds_ok g -> arcs_ok g -> fst (canon_search g) = Some (lab, p) ->
  NoDup (min_leaves g) /\
  (forall q, In q (min_leaves g) <-> exists s, is_aut g s /\ q = map s p) /\
  (forall s s', is_aut g s -> is_aut g s' -> map s p = map s' p -> forall v, In v (node_ids g) -> s v = s' v).
Proof. exact aut_count. Qed.
Print Assumptions C18_aut_count.

(** Exchangeable nodes, read off the minimal leaves: u can be mapped to v by a structure-preserving self-map iff some
    minimal leaf carries v at a position where the best permutation carries u. *)
Theorem C18_orbit_relation : forall (g : vgraph) (lab p : list N) (u v : N),
  wf g -> kinds_ok g -> arcs_ok g -> fst (canon_search g) = Some (lab, p) -> In u (node_ids g) ->
  ((exists s, is_aut g s /\ s u = v) <->
   (exists q i, In q (min_leaves g) /\ i < length p /\ nth i p 0%N = u /\ nth i q 0%N = v)).
Proof. exact orbit_pairs. Qed.
Print Assumptions C18_orbit_relation.

(** Every network gives views inside the domain of the theorems: both views of a network whose coefficients are
    positive and whose reactions only mention listed species (what CRNHyperGraph guarantees) are well-formed graphs with
    kinds / roles / stoichiometries in range.  (A species label equal to a reaction id does not break this: the two
    nodes are merged, which is the known finding above.) *)
Theorem C18_view_wf : forall (bip st : bool) (n : net),
  (forall r, In r (nrxns n) -> forall sc, In sc (lhs r ++ rhs r) -> (0 < snd sc)%Z) ->
  (forall r, In r (nrxns n) -> forall sc, In sc (lhs r ++ rhs r) -> In (fst sc) (nspecies n)) ->
  wf (view bip st n) /\ kinds_ok (view bip st n) /\ arcs_ok (view bip st n).
Proof. exact view_GI. Qed.
Print Assumptions C18_view_wf.

(** Clause 4 for CRNAutomorphism (VF2).  VF2 itself (networkx DiGraphMatcher.isomorphisms_iter with node_match on kind and
    edge_match on role / stoich) is outside the model; the explicit premise is that it returns as many mappings as the
    model's reference enumerator [auts] (compared on every correspondence case).  Then: [auts g] is a duplicate-free list of
    assignments (along the assignment order [aut_order g], a permutation of the nodes), each assignment is a
    structure-preserving self-map and every such self-map occurs; and the count equals the canonicaliser's count. *)
Theorem C18_vf2_count : forall (g : vgraph) (lab p : list N) (vf2_count : nat),
  wf g -> kinds_ok g -> arcs_ok g -> fst (canon_search g) = Some (lab, p) ->
  vf2_count = length (auts g) ->
  NoDup (auts g) /\
  (forall s, is_aut g s -> In (rev (combine (aut_order g) (map s (aut_order g)))) (auts g)) /\
  (forall m, In m (auts g) -> exists s, is_aut g s /\ m = rev (combine (aut_order g) (map s (aut_order g)))) /\
  vf2_count = length (min_leaves g).
Proof. exact vf2_count. Qed.
Print Assumptions C18_vf2_count.

(** Refinement fuel sufficiency: on an ordered partition of the nodes ([vpart]: the cells are non-empty and their
    concatenation is a permutation of the node list) the model's refinement returns a partition that one further round of
    splitting leaves unchanged -- the exit condition of the [while changed] loop of CRNCanonicalizer._refine. *)
Theorem C18_refine_stable : forall (g : vgraph) (P : partition),
  vpart (node_ids g) P ->
  refine_step IRInst.lexleb (sig g) (refine IRInst.lexleb (sig g) (S (length (vnodes g))) P)
  = refine IRInst.lexleb (sig g) (S (length (vnodes g))) P.
Proof. exact model_refine_stable. Qed.
Print Assumptions C18_refine_stable.

(** Clauses 2 and 3 together: the canonical graph is a complete invariant of the view up to isomorphism. *)
Theorem C18_canon_complete_invariant : forall (g1 g2 : vgraph) (l1 p1 l2 p2 : list N),
  wf g1 -> kinds_ok g1 -> arcs_ok g1 -> wf g2 ->
  fst (canon_search g1) = Some (l1, p1) -> fst (canon_search g2) = Some (l2, p2) ->
  (iso g1 g2 <-> geq (canon_graph g1 p1) (canon_graph g2 p2)).
Proof. exact canon_complete_invariant. Qed.
Print Assumptions C18_canon_complete_invariant.

(** Clause 2 stated on NETWORKS, bipartite view (with / without stoichiometry).  [net_ok st n]: species labels and reaction
    ids are pairwise distinct (no view-id collision), reactions mention listed species only, no ordered (species, reaction)
    incidence occurs twice.  [net_variant f n n']: the species list of n' is a permutation of the renamed species list of n
    and the reaction list of n' is a permutation of the reactions of n with id f(id), sides renamed by f and listed in any
    order -- i.e. species renamed, reactions re-ordered, reaction ids regenerated.  Under these premises the bipartite
    view has a closed form (view_bip_closed) and n' receives the same minimal label and the identical canonical graph. *)
Theorem C18_net_canon_invariant_bip : forall (st : bool) (f : N -> N) (n n' : net) (lab p lab' p' : list N),
  net_ok st n -> net_ok st n' ->
  (forall r, In r (nrxns n) -> forall sc, In sc (lhs r ++ rhs r) -> (0 < snd sc)%Z) ->
  net_variant f n n' ->
  inj_on f (nspecies n ++ map rid (nrxns n)) ->
  fst (canon_search (view true st n)) = Some (lab, p) -> fst (canon_search (view true st n')) = Some (lab', p') ->
  lab' = lab /\ geq (canon_graph (view true st n') p') (canon_graph (view true st n) p).
Proof. exact net_canon_invariant_bip. Qed.
Print Assumptions C18_net_canon_invariant_bip.

(** Clause 2 stated on NETWORKS, species view: for a network with distinct species labels whose reactions mention listed
    species only, a variant (species renamed injectively, reactions re-ordered, ids regenerated) receives the same minimal
    label and the identical canonical graph. *)
Theorem C18_net_canon_invariant_sp : forall (f : N -> N) (n n' : net) (lab p lab' p' : list N),
  NoDup (nspecies n) -> NoDup (nspecies n') ->
  (forall r, In r (nrxns n) -> forall sc, In sc (lhs r ++ rhs r) -> In (fst sc) (nspecies n)) ->
  net_variant f n n' -> inj_on f (nspecies n) ->
  fst (canon_search (view false true n)) = Some (lab, p) -> fst (canon_search (view false true n')) = Some (lab', p') ->
  lab' = lab /\ geq (canon_graph (view false true n') p') (canon_graph (view false true n) p).
Proof. exact net_canon_invariant_sp. Qed.
Print Assumptions C18_net_canon_invariant_sp.

(** Clause 4, orbits, for CRNAutomorphism (VF2 as premise, see C18_vf2_count): the model of its orbit computation
    (union-find over every (node, image) pair of every enumerated self-map) returns a partition of the nodes
    ([part]: the classes are pairwise disjoint and cover the nodes) in which two nodes share a class ([conn]) exactly when
    some structure-preserving self-map sends one to the other. *)
Theorem C18_vf2_orbits : forall g : vgraph, wf g ->
  part (node_ids g) (uf_orbits (node_ids g) (auts g)) /\
  (forall u v, In u (node_ids g) ->
     (conn (uf_orbits (node_ids g) (auts g)) u v <-> exists s, is_aut g s /\ s u = v)).
Proof. exact vf2_orbits. Qed.
Print Assumptions C18_vf2_orbits.

(** Clause 4, orbits of the canonicaliser, in full: two nodes lie in a common set of the reported orbits
    (orbits_from_perms = the slot-based union-find of _orbits_from_perms with its orbit_map, emptied slots and the
    duplicated prefix positions, applied to the minimal leaves) exactly when some structure-preserving self-map sends one
    to the other.  Sound half: a slot only ever joins its home element's class with the class of an image of that element;
    complete half: a slot that survives contains the image of its home element under EVERY leaf, and the leaves are the
    images of the best permutation under all self-maps (C18_aut_count).  (The reported list can contain the same set
    twice -- a prefix slot and its tail twin may both survive; as a set of classes it is the orbit partition.) *)
Theorem C18_orbits : forall (g : vgraph) (lab p : list N),
  wf g -> kinds_ok g -> arcs_ok g -> fst (canon_search g) = Some (lab, p) ->
  forall u v, In u (node_ids g) ->
    ((exists c, In c (orbits_from_perms (min_leaves g)) /\ In u c /\ In v c) <-> (exists s, is_aut g s /\ s u = v)).
Proof. exact canon_orbits. Qed.
Print Assumptions C18_orbits.

(** every node is reported in some orbit set *)
Theorem C18_orbits_cover : forall (g : vgraph) (lab p : list N),
  wf g -> kinds_ok g -> arcs_ok g -> fst (canon_search g) = Some (lab, p) ->
  forall v, In v (node_ids g) -> exists c, In c (orbits_from_perms (min_leaves g)) /\ In v c.
Proof. exact canon_orbits_cover. Qed.
Print Assumptions C18_orbits_cover.

(** Node naming schemes (integer_ids=True numbers the sorted species 1..N and the reactions N+1..N+M; the harness feeds the
    model the network with exactly these numbers as ids): a network whose species labels and reaction ids are ALL replaced
    through an injective map receives the same minimal label and the identical canonical graph. *)
Theorem C18_net_renamed_ids : forall (st : bool) (f : N -> N) (n : net) (lab p lab' p' : list N),
  net_ok st n -> net_ok st (rename_net f n) ->
  (forall r, In r (nrxns n) -> forall sc, In sc (lhs r ++ rhs r) -> (0 < snd sc)%Z) ->
  inj_on f (nspecies n ++ map rid (nrxns n)) ->
  fst (canon_search (view true st n)) = Some (lab, p) ->
  fst (canon_search (view true st (rename_net f n))) = Some (lab', p') ->
  lab' = lab /\ geq (canon_graph (view true st (rename_net f n)) p') (canon_graph (view true st n) p).
Proof. exact net_renamed_ids_bip. Qed.
Print Assumptions C18_net_renamed_ids.

(** summary()["mappings"] (_maps_from_perms, a dict per minimal leaf; a later position overwrites an earlier one): there is
    one mapping per minimal leaf and every reported mapping is exactly the graph, on the nodes of the view, of a
    structure-preserving self-map. *)
Theorem C18_mappings : forall (g : vgraph) (lab p : list N),
  wf g -> kinds_ok g -> arcs_ok g -> fst (canon_search g) = Some (lab, p) ->
  length (maps_from_perms p (min_leaves g)) = length (min_leaves g) /\
  forall m, In m (maps_from_perms p (min_leaves g)) ->
    exists s, is_aut g s /\ forall a b, In (a, b) m <-> (In a (node_ids g) /\ b = s a).
Proof. exact mappings_spec. Qed.
Print Assumptions C18_mappings.

(** has_nontrivial_automorphism() (= more than one minimal leaf) holds exactly when some structure-preserving self-map
    moves a node. *)
Theorem C18_has_nontrivial : forall (g : vgraph) (lab p : list N),
  wf g -> kinds_ok g -> arcs_ok g -> fst (canon_search g) = Some (lab, p) ->
  (1 < length (min_leaves g) <-> exists s v, is_aut g s /\ In v (node_ids g) /\ s v <> v).
Proof. exact has_nontrivial_spec. Qed.
Print Assumptions C18_has_nontrivial.

(** Non-default attribute selections (model/C18_AttrModel.v, bipartite view: node_attr_keys from kind / bipartite / label /
    absent keys, edge_attr_keys from role / stoich / absent keys, any order and multiplicity; evaluated against the code on
    the `attrs` cases).  With the default selection the generalised canonicaliser is the base model, so every theorem above
    is a theorem about it. *)
Theorem C18_attr_default : forall (g : vgraph) (t : ltab),
  NoDup (node_ids g) -> canon_searchA g t [NKind] [ERole; EStoich] = canon_search g.
Proof. exact canon_searchA_default. Qed.
Print Assumptions C18_attr_default.

(** For EVERY selection (since the repair ad4c809 also for the empty view with node_attr_keys=(): the premise the proof used to
    need there was a crash of the code), the search finds a leaf, the reported label is the label of the reported permutation and the
    canonical graph is the view relabelled by a bijection onto k+1..k+n (clause 1 does not depend on the selection). *)
Theorem C18_attr_canon_iso : forall (g : vgraph) (t : ltab) (nk : list nsel) (ek : list esel),
  wf g ->
  fst (canon_searchA g t nk ek) <> None /\
  forall lab perm, fst (canon_searchA g t nk ek) = Some (lab, perm) ->
    lab = labelA g t nk ek perm /\
    canon_graph g perm = relabel (cid perm) g /\ inj_on (cid perm) (node_ids g) /\
    (exists k, Permutation (node_ids (canon_graph g perm)) (map N.of_nat (seq (S k) (length (vnodes g))))) /\
    wf (canon_graph g perm) /\
    (forall v, In v (node_ids g) -> kind_of (canon_graph g perm) (cid perm v) = kind_of g v) /\
    (forall u v, In u (node_ids g) -> In v (node_ids g) ->
       find_arc (canon_graph g perm) (cid perm u) (cid perm v) = find_arc g u v).
Proof. exact canon_isoA. Qed.
Print Assumptions C18_attr_canon_iso.

(** WLCanonicalizer (model/C18_WLModel.v: colour cells of 1-WL refinement with the options n_iter, include_in_neighbors,
    include_out_neighbors and the attribute selections; compared with the code on every case).  The code documents its orbits as
    approximate; the sound half holds for ALL inputs and options: a self-map of the view that is injective on the nodes, maps
    nodes to nodes and preserves the SELECTED node attributes, adjacency in both directions (loops included) and the SELECTED
    edge attributes ([is_autA]) preserves every WL colour. *)
Theorem C18_wl_respects_selected_auts : forall (g : vgraph) (t : ltab) (nk : list nsel) (ek : list esel) (s : N -> N)
    (inb outb : bool) (n_iter : nat),
  wf g ->
  inj_on s (node_ids g) -> (forall v, In v (node_ids g) -> In (s v) (node_ids g)) ->
  (forall v, In v (node_ids g) -> nkey g t nk (s v) = nkey g t nk v) ->
  (forall u v, In u (node_ids g) -> In v (node_ids g) ->
     option_map (ekey ek) (find_arc g (s u) (s v)) = option_map (ekey ek) (find_arc g u v)) ->
  forall v, In v (node_ids g) ->
    col_get (wl_colors g t nk ek inb outb n_iter) (s v) = col_get (wl_colors g t nk ek inb outb n_iter) v.
Proof. exact (fun g t nk ek s inb outb n Hw H1 H2 H3 H4 => wl_colors_aut g t nk ek s Hw (conj H1 (conj H2 (conj H3 H4))) inb outb n). Qed.
Print Assumptions C18_wl_respects_selected_auts.

(** With the default selection: the WL cells never split a class of nodes exchangeable by a structure-preserving self-map
    (the same [is_aut] that C18_aut_count / C18_orbits are about): a node and its image lie in the same reported cell. *)
Theorem C18_wl_never_splits_orbit : forall (g : vgraph) (s : N -> N) (inb outb : bool) (n_iter : nat),
  wf g -> is_aut g s ->
  forall c, In c (wl_cells g (wl_colors g [] [NKind] [ERole; EStoich] inb outb n_iter)) ->
  forall v, In v (node_ids g) -> (In v c <-> In (s v) c).
Proof. exact wl_never_splits_orbit. Qed.
Print Assumptions C18_wl_never_splits_orbit.

(** The reported WL cells are a partition of the coloured nodes: every node lies in a cell and two cells sharing a node are
    the same cell. *)
Theorem C18_wl_cells_partition : forall (g : vgraph) (c : coloring),
  (forall v, In v (node_ids g) -> In v (map fst c) -> exists cell, In cell (wl_cells g c) /\ In v cell) /\
  (forall c1 c2 v, In c1 (wl_cells g c) -> In c2 (wl_cells g c) -> In v c1 -> In v c2 -> c1 = c2).
Proof. exact (fun g c => conj (wl_cells_cover g c) (wl_cells_disjoint g c)). Qed.
Print Assumptions C18_wl_cells_partition.

(** State that survives between calls: _CRNGraphBackend caches the graph view on the analyzer together with the hypergraph's
    _version (model/C18_BackendModel.v; the served views of kept analyzers are compared with the code in every history case).
    A script on ONE hypergraph object -- mutating method calls ([EMethod n' k]: network value n' afterwards, version bumped 1 + k
    times), analyzers created at any time with any (include_rule, include_stoich) ([SNew]), reads of any analyzer at any time
    ([SRead i]) -- serves at every read exactly the view that an analyzer created afresh at that moment would build:
    [spec_hist] evaluates [view] on the current network value at every read. *)
Theorem C18_backend_serves_current : forall (n0 : net) (v0 : N) (steps : list hstep),
  (forall e, In (SEdit e) steps -> exists n' k, e = EMethod n' k) ->
  run_hist (HG n0 v0, []) steps = spec_hist n0 [] steps.
Proof. exact backend_history_current'. Qed.
Print Assumptions C18_backend_serves_current.

(** The premise is needed (code kept as it is; documented: "rebuilt after the hypergraph was edited through its methods"):
    an edit behind the hypergraph's back ([ESilent]: RXNSide.__setitem__, edge.reactants[s] = c) does not bump the version and a
    kept analyzer goes on serving the old view (witness: 2A >> B analysed, coefficient set to 1, analyzer read again).  Not a
    clause of the property (the canonical graph still belongs to the view it was computed from); the correspondence predicts the
    stale answers exactly. *)
Theorem C18_backend_silent_edit_refuted : exists (n0 : net) (steps : list hstep),
  run_hist (HG n0 0, []) steps <> spec_hist n0 [] steps.
Proof. exact backend_silent_edit_refuted. Qed.
Print Assumptions C18_backend_silent_edit_refuted.

(** Option max_depth of the canonicaliser (model/C18_DepthModel.v follows _search / _canon: the depth is checked before refining,
    a stop aborts the whole search; compared with the code on the `depth` cases for several bounds).
    Without the option the bounded search IS the search all theorems above are about, and it never reports an early stop. *)
Theorem C18_max_depth_none : forall g : vgraph, canon_search_md g None = (canon_search g, false).
Proof. exact canon_md_none. Qed.
Print Assumptions C18_max_depth_none.

(** early_stop = False certifies the answer: whenever the bounded search does not report an early stop, best label, canonical
    permutation and the list of minimal leaves are exactly those of the unbounded search (so every theorem above applies). *)
Theorem C18_max_depth_exact : forall (g : vgraph) (md : option nat),
  snd (canon_search_md g md) = false -> fst (canon_search_md g md) = canon_search g.
Proof. exact canon_md_exact. Qed.
Print Assumptions C18_max_depth_exact.

(** A bound of at least the number of nodes never stops early (every individualisation adds a cell). *)
Theorem C18_max_depth_enough : forall (g : vgraph) (d : nat),
  wf g -> length (vnodes g) <= d -> canon_search_md g (Some d) = (canon_search g, false).
Proof. exact canon_md_enough. Qed.
Print Assumptions C18_max_depth_enough.

(** integer_ids=True, now computed inside the model (model/C18_IntIdsModel.v: sorted species 1..N, then the reactions sorted by id
    N+1..N+M): on a network without a view-id collision the numbered network receives the same minimal label and the identical
    canonical graph as the named one. *)
Theorem C18_intids_canon : forall (st : bool) (n : net) (lab p lab' p' : list N),
  net_ok st n ->
  (forall r, In r (nrxns n) -> forall sc, In sc (lhs r ++ rhs r) -> (0 < snd sc)%Z) ->
  fst (canon_search (view true st n)) = Some (lab, p) ->
  fst (canon_search (view true st (intids_net n))) = Some (lab', p') ->
  lab' = lab /\ geq (canon_graph (view true st (intids_net n)) p') (canon_graph (view true st n) p).
Proof. exact net_intids_canon. Qed.
Print Assumptions C18_intids_canon.

(** Clause 4, orbits, for CRNAutomorphism with the union-find of the code itself (model/C18_UFModel.v: parent dict, find with path
    halving, union without ranks, buckets by root in node order; evaluated on every case).  Fuel sufficiency of [find] is part of the
    proof (a parent path inside the nodes is shorter than the node list).  VF2 stays the explicit premise of C18_vf2_count. *)
(** (What this needs from VF2 is that it yields the same SET of (node, image) pairs as [auts g]; the orbits reported by the code are
    compared with [orbits_from_mappings (node_ids g) (auts g)] on every case, the count premise of C18_vf2_count alone would not do.) *)
Theorem C18_vf2_orbits_uf : forall g : vgraph, wf g ->
  part (node_ids g) (orbits_from_mappings (node_ids g) (auts g)) /\
  (forall u v, In u (node_ids g) ->
     (conn (orbits_from_mappings (node_ids g) (auts g)) u v <-> exists s, is_aut g s /\ s u = v)).
Proof. exact vf2_orbits_uf. Qed.
Print Assumptions C18_vf2_orbits_uf.

(** The computed partition does not depend on the order or multiplicity in which the mappings (and the pairs inside a mapping)
    arrive: this is why the model may run the union-find on its own enumeration instead of VF2's. *)
Theorem C18_uf_order_independent : forall (nodes : list N) (maps maps' : list (list (N * N))), NoDup nodes ->
  (forall m sd, In m maps -> In sd m -> In (fst sd) nodes /\ In (snd sd) nodes) ->
  (forall sd, In sd (concat maps) <-> In sd (concat maps')) ->
  forall u v, conn (orbits_from_mappings nodes maps) u v <-> conn (orbits_from_mappings nodes maps') u v.
Proof. exact orbits_order_independent. Qed.
Print Assumptions C18_uf_order_independent.

(** summary(max_count=k) of the VF2 tool on a view with a >= 1 self-maps (compared with the code on the `vf2opts` cases):
    stopped_early = False means every mapping was counted and united; a truncated run counted exactly max(k, 1) of them. *)
Theorem C18_vf2_bookkeeping : forall (a : nat) (k : Z), 1 <= a ->
  let '(count, stopped, samples, used) := vf2_bookkeeping a k in
  used = count /\ count <= a /\ samples <= count /\ (stopped = false -> count = a) /\
  (stopped = true -> count = Z.to_nat (Z.max k 1)).
Proof. exact bookkeeping_spec. Qed.
Print Assumptions C18_vf2_bookkeeping.

(** CRNAutomorphism with a non-default node_attr_keys (model/C18_AutAttrModel.v; compared with the code on the `attrs` cases; VF2
    itself stays the monitored premise).  [is_autA g t nk [ERole; EStoich] s]: s is injective on the nodes, maps nodes to nodes,
    preserves the SELECTED node attributes and every arc with its role and stoichiometry.  The model's enumerator lists each such
    self-map exactly once (so its length is their number), and the code's union-find run on these mappings reports exactly their
    exchangeability classes. *)
Theorem C18_vf2_attr_count : forall (g : vgraph) (t : ltab) (nk : list nsel), wf g ->
  NoDup (autsA g t nk) /\
  (forall s, is_autA g t nk [ERole; EStoich] s ->
     In (rev (combine (aut_order (recode g t nk)) (map s (aut_order (recode g t nk))))) (autsA g t nk)) /\
  (forall m, In m (autsA g t nk) -> exists s, is_autA g t nk [ERole; EStoich] s /\
     m = rev (combine (aut_order (recode g t nk)) (map s (aut_order (recode g t nk))))).
Proof. exact autsA_spec. Qed.
Print Assumptions C18_vf2_attr_count.

Theorem C18_vf2_attr_orbits : forall (g : vgraph) (t : ltab) (nk : list nsel), wf g ->
  part (node_ids g) (orbits_from_mappings (node_ids g) (autsA g t nk)) /\
  (forall u v, In u (node_ids g) ->
     (conn (orbits_from_mappings (node_ids g) (autsA g t nk)) u v <-> exists s, is_autA g t nk [ERole; EStoich] s /\ s u = v)).
Proof. exact autsA_orbits. Qed.
Print Assumptions C18_vf2_attr_orbits.

(** with the default selection these are the structure-preserving self-maps of all theorems above *)
Theorem C18_vf2_attr_default : forall (g : vgraph) (t : ltab) (s : N -> N), wf g ->
  (is_autA g t [NKind] [ERole; EStoich] s <-> is_aut g s).
Proof. exact is_autA_default. Qed.
Print Assumptions C18_vf2_attr_default.

(** Attribute selections on the SPECIES view (model/C18_SpAttrModel.v: arcs carry the aggregates stoich_r / stoich_p = minimum
    over the reactions containing the pair; compared with the code on the species-view `attrs` cases).  The species view of every
    network whose reactions mention listed species only is a well-formed graph, and for every selection of node keys
    (kind / label / absent) and edge keys (stoich_r / stoich_p / absent) the canonicaliser finds a leaf, reports the label of the
    reported permutation, and its canonical graph is the view relabelled by a bijection onto k+1..k+n (clause 1). *)
Theorem C18_spattr_view_wf : forall n : net,
  (forall r, In r (nrxns n) -> forall sc, In sc (lhs r ++ rhs r) -> In (fst sc) (nspecies n)) -> wf (view_spS n).
Proof. exact view_spS_wf. Qed.
Print Assumptions C18_spattr_view_wf.

Theorem C18_spattr_canon_iso : forall (g : vgraph) (t : ltab) (nk : list nsel) (ek : list sesel),
  wf g ->
  fst (canon_searchS g t nk ek) <> None /\
  forall lab perm, fst (canon_searchS g t nk ek) = Some (lab, perm) ->
    lab = labelG g (fun v => map (nval g t v) nk) (fun a => map (evalS a) ek) (length ek) perm /\
    canon_graph g perm = relabel (cid perm) g /\ inj_on (cid perm) (node_ids g) /\
    (exists k, Permutation (node_ids (canon_graph g perm)) (map N.of_nat (seq (S k) (length (vnodes g))))) /\
    wf (canon_graph g perm) /\
    (forall v, In v (node_ids g) -> kind_of (canon_graph g perm) (cid perm v) = kind_of g v) /\
    (forall u v, In u (node_ids g) -> In v (node_ids g) ->
       find_arc (canon_graph g perm) (cid perm u) (cid perm v) = find_arc g u v).
Proof. exact (fun g t nk ek => canon_isoG g (fun v => map (nval g t v) nk) (fun a => map (evalS a) ek) (length nk) (length ek)). Qed.
Print Assumptions C18_spattr_canon_iso.

(** The approximate orbits of the WL tool are unions of the exact ones: two nodes that the canonicaliser reports in one orbit set
    carry the same WL colour (hence lie in one WL cell), for every choice of n_iter / include_in_neighbors / include_out_neighbors. *)
Theorem C18_wl_coarser_than_orbits : forall (g : vgraph) (lab p : list N) (inb outb : bool) (n_iter : nat),
  wf g -> kinds_ok g -> arcs_ok g -> fst (canon_search g) = Some (lab, p) ->
  forall c u v, In c (orbits_from_perms (min_leaves g)) -> In u c -> In v c -> In u (node_ids g) ->
    col_get (wl_colors g [] [NKind] [ERole; EStoich] inb outb n_iter) u = col_get (wl_colors g [] [NKind] [ERole; EStoich] inb outb n_iter) v.
Proof. exact wl_coarser_than_orbits. Qed.
Print Assumptions C18_wl_coarser_than_orbits.

(** Clause 2 for EVERY attribute selection, first half (bipartite view).  Full statement (not proved): under the premises below the
    canonical graphs are [geq] on the selected attributes.  Proved: the renamed, re-presented view [g'] (with the label table renamed
    along, [relab_tab]) receives the SAME minimal label, and its minimal leaves are exactly the renamed minimal leaves of [g] -- so
    automorphism_count is invariant.  Missing for the full statement: reading the selected attributes back from [labelA]
    (the analogue of label_read; impossible in general when 'label' is selected and names contain '|' or ':').
    Proof: the generic leaf-enumeration equivariance of lib/IRCore instantiated with the selection's signature, initial partition
    and label (proof/C18_AttrEquiv.v). *)
Theorem C18_attr_invariant_partial : forall (f : N -> N), (forall x y, f x = f y -> x = y) ->
  forall (g g' : vgraph) (t : ltab) (nk : list nsel) (ek : list esel),
  wf g -> geq g' (relabel f g) ->
  option_map fst (fst (canon_searchA g' (relab_tab f t) nk ek)) = option_map fst (fst (canon_searchA g t nk ek)) /\
  Permutation (map (map f) (snd (canon_searchA g t nk ek))) (snd (canon_searchA g' (relab_tab f t) nk ek)).
Proof. exact attr_invariant_partial. Qed.
Print Assumptions C18_attr_invariant_partial.

(** the same for the selections on the species view (aggregates stoich_r / stoich_p) *)
Theorem C18_spattr_invariant_partial : forall (f : N -> N), (forall x y, f x = f y -> x = y) ->
  forall (g g' : vgraph) (t : ltab) (nk : list nsel) (ek : list sesel),
  wf g -> geq g' (relabel f g) ->
  option_map fst (fst (canon_searchS g' (relab_tab f t) nk ek)) = option_map fst (fst (canon_searchS g t nk ek)) /\
  Permutation (map (map f) (snd (canon_searchS g t nk ek))) (snd (canon_searchS g' (relab_tab f t) nk ek)).
Proof. exact spattr_invariant_partial. Qed.
Print Assumptions C18_spattr_invariant_partial.

(** Clause 4 for EVERY attribute selection, sound half.  Full statement (not proved): the minimal leaves are EXACTLY the images of the
    best permutation under the self-maps that preserve the selected attributes ([is_autG]: injective on the nodes, nodes to nodes,
    selected node attributes as compared and as printed, presence and selected attributes of every arc).  Proved: every such
    self-map sends minimal leaves to minimal leaves and is determined on the nodes by the image of one minimal leaf -- hence
    automorphism_count is AT LEAST the number of these self-maps (it can only over-count if [labelA] fails to separate, see above). *)
Theorem C18_attr_count_lower_partial : forall (g : vgraph) (t : ltab) (nk : list nsel) (ek : list esel),
  wf g ->
  (forall s q, is_autG g (fun v => map (nval g t v) nk) (fun a => map (eval a) ek) s ->
     In q (snd (canon_searchA g t nk ek)) -> In (map s q) (snd (canon_searchA g t nk ek))) /\
  (forall (s s' : N -> N) q, In q (snd (canon_searchA g t nk ek)) -> map s q = map s' q ->
     forall v, In v (node_ids g) -> s v = s' v).
Proof.
  exact (fun g t nk ek Hw => conj (fun s q => attr_count_lower_partial g t nk ek s q Hw)
           (fun s s' q Hq => autG_determined g (nvA g t nk) (evA ek) (length nk) (length ek) Hw s s' q
                               (eq_ind _ (fun a => In q (snd a)) Hq _ (canon_searchA_G g t nk ek)))).
Qed.
Print Assumptions C18_attr_count_lower_partial.

Theorem C18_spattr_count_lower_partial : forall (g : vgraph) (t : ltab) (nk : list nsel) (ek : list sesel),
  wf g ->
  forall s q, is_autG g (fun v => map (nval g t v) nk) (fun a => map (evalS a) ek) s ->
    In q (snd (canon_searchS g t nk ek)) -> In (map s q) (snd (canon_searchS g t nk ek)).
Proof. exact (fun g t nk ek Hw s q => spattr_count_lower_partial g t nk ek s q Hw). Qed.
Print Assumptions C18_spattr_count_lower_partial.

(** The cached-view state machine, for EVERY script (no premise): the version counters of CRNHyperGraph / _CRNGraphBackend implement
    exactly dirty flags.  [flag_hist] is a version-free specification: a mutating method call marks every analyzer dirty, an edit of
    a side object behind the hypergraph's back marks nothing (this is where stale answers come from), a read rebuilds the view from
    the current network value iff the analyzer is dirty or was never read, and serves the view it holds. *)
Theorem C18_backend_is_dirty_flags : forall (n0 : net) (v0 : N) (steps : list hstep),
  run_hist (HG n0 v0, []) steps = flag_hist n0 [] steps.
Proof. exact backend_history_flags. Qed.
Print Assumptions C18_backend_is_dirty_flags.

(** Under integer_ids=True clause 2 holds for EVERY injective renaming of the species -- also one that maps a species label onto
    a reaction id: species and reactions are numbered separately, so the numbered network never has a view-id collision.
    [net_struct n]: species, reaction ids and the species inside one side are pairwise distinct (they are dict keys in
    CRNHyperGraph) and the reactions mention listed species only.  Compare C18_species_renaming_refuted for the default naming. *)
Theorem C18_intids_species_renaming : forall (st : bool) (f : N -> N) (n : net) (lab p lab' p' : list N),
  net_struct n -> inj_on f (nspecies n) ->
  (forall r, In r (nrxns n) -> forall sc, In sc (lhs r ++ rhs r) -> (0 < snd sc)%Z) ->
  fst (canon_search (view true st (intids_net n))) = Some (lab, p) ->
  fst (canon_search (view true st (intids_net (rename_species f n)))) = Some (lab', p') ->
  lab' = lab /\ geq (canon_graph (view true st (intids_net (rename_species f n))) p') (canon_graph (view true st (intids_net n)) p).
Proof. exact (fun st f n lab p lab' p' Hs Hf => intids_species_renaming f n Hs Hf st lab p lab' p'). Qed.
Print Assumptions C18_intids_species_renaming.

(** WLCanonicalizer._estimate_aut_count (product of the factorials of the colour-cell sizes, every factor and the product capped
    at automorphism_cap) is never an under-estimate: it is at least min(cap, number of structure-preserving self-maps), for every
    choice of n_iter / include_in_neighbors / include_out_neighbors.  ([length (auts g)] is that number: C18_vf2_count; it equals the
    canonicaliser's automorphism_count.)  Proof: every self-map permutes every colour cell (C18_wl_never_splits_orbit) and is
    determined by its action on the cells, so the self-maps inject into the product of the permutation lists of the cells. *)
Theorem C18_wl_estimate_upper : forall (g : vgraph) (inb outb : bool) (n_iter : nat) (cap : N), wf g ->
  (N.min cap (N.of_nat (length (auts g)))
   <= estimate (map (@length N) (wl_cells g (wl_colors g [] [NKind] [ERole; EStoich] inb outb n_iter))) 1%N cap)%N.
Proof. exact (fun g inb outb n cap Hw => wl_estimate_upper g inb outb n Hw cap). Qed.
Print Assumptions C18_wl_estimate_upper.

(** The two exact tools under one node selection without 'label' (default edge keys): the canonicaliser never reports fewer
    automorphisms than the enumerator of the VF2 tool lists under the same selection (each listed self-map yields its own minimal
    leaf: C18_vf2_attr_count + C18_attr_count_lower_partial).  The converse inequality is the missing half of clause 4 for selections. *)
Theorem C18_attr_count_ge_vf2 : forall (g : vgraph) (t : ltab) (nk : list nsel),
  wf g -> Forall (fun x => x <> NLabel) nk ->
  length (autsA g t nk) <= length (snd (canon_searchA g t nk [ERole; EStoich])).
Proof. exact canon_count_ge_vf2. Qed.
Print Assumptions C18_attr_count_ge_vf2.

(** Reading of "the species view" (audit A4): hypergraph_to_species_graph is called without include_stoich, and the DEFAULT
    edge_attr_keys ("role", "stoich") do not exist on its arcs, so in the species view the default canonical form, automorphism count and
    orbits see arcs and kinds only -- "stoichiometry on / off" is the same configuration there, and "structure-preserving" in clauses 2-4
    means: arcs (direction, loops) and kinds.  The coefficients enter only through edge_attr_keys = ("stoich_r", "stoich_p")
    (model/C18_SpAttrModel.v; C18_spattr_* theorems, second halves judged by the oracle). *)
Theorem C18_species_view_ignores_stoich : forall (st st' : bool) (n : net), view false st n = view false st' n.
Proof. reflexivity. Qed.
Print Assumptions C18_species_view_ignores_stoich.

(** Consequence (witness A >> B versus 2A >> B): two networks that differ in a coefficient have the SAME default species view -- hence
    the same canonical graph on the keyed attributes, and A >> B, 2B >> A has 2 self-maps there -- while the species view with the
    aggregates tells them apart. *)
Theorem C18_species_view_coefficients_invisible : exists n n' : net,
  view false true n = view false true n' /\ view_spS n <> view_spS n'.
Proof. exact species_view_coefficients_invisible. Qed.
Print Assumptions C18_species_view_coefficients_invisible.

(** ======================= round 6: the label of a selection read back (proof/C18_LabelA.v) =======================
    Domain D of the full theorems below: BIPARTITE-view selections with node keys from kind / bipartite / absent keys (no 'label':
    names may contain '|' or ':'), at least one of kind / bipartite selected (otherwise every node piece of the label is empty),
    any edge keys, on a view without self-loops ([_label] skips i = j; every bipartite view of a network without a view-id collision
    is loop-free: C18_net_attr_count_exact needs no such premise).  Outside D the four _partial theorems above remain what is proved;
    what is missing there is (i) recovering self-loops from the refinement signature for selections (the analogue of loop_from_key;
    needed for species views with catalysts), (ii) a parse of labels whose node pieces are empty, (iii) nothing can be done for 'label'. *)
From SK Require Import proof.C18_LabelA proof.C18_LabelA_Examples.

(** label_read for labelA: the label determines, position by position, the selected node attributes and, for distinct positions,
    presence and selected attributes of the arcs. *)
Theorem C18_labelA_read : forall (g : vgraph) (t : ltab) (nk : list nsel) (ek : list esel) (p q : list N),
  wf g -> kinds_ok g -> arcs_ok g -> Forall (fun x => x <> NLabel) nk -> (In NKind nk \/ In NBip nk) ->
  incl p (node_ids g) -> incl q (node_ids g) -> labelA g t nk ek p = labelA g t nk ek q ->
  length p = length q /\
  (forall i, i < length p -> map (nval g t (nth i p 0%N)) nk = map (nval g t (nth i q 0%N)) nk) /\
  (forall i j, i < length p -> j < length p -> i <> j ->
     option_map (fun a => map (eval a) ek) (find_arc g (nth i p 0%N) (nth j p 0%N))
     = option_map (fun a => map (eval a) ek) (find_arc g (nth i q 0%N) (nth j q 0%N))).
Proof. exact labelA_read. Qed.
Print Assumptions C18_labelA_read.

(** Clause 4, count, IN FULL on D (replaces C18_attr_count_lower_partial there): the minimal leaves are a duplicate-free list of
    exactly the images of the best permutation under the self-maps that preserve the selected attributes. *)
Theorem C18_attr_count_exact : forall (g : vgraph) (t : ltab) (nk : list nsel) (ek : list esel) (lab p : list N),
  wf g -> kinds_ok g -> arcs_ok g -> Forall (fun x => x <> NLabel) nk -> (In NKind nk \/ In NBip nk) ->
  (forall v, find_arc g v v = None) -> fst (canon_searchA g t nk ek) = Some (lab, p) ->
  NoDup (snd (canon_searchA g t nk ek)) /\
  forall q, In q (snd (canon_searchA g t nk ek)) <->
            exists s, is_autG g (fun v => map (nval g t v) nk) (fun a => map (eval a) ek) s /\ q = map s p.
Proof. exact (fun g t nk ek lab p Hw Hk Ha Hnl Hne => attr_count_exact g t nk ek Hw Hk Ha Hnl Hne lab p). Qed.
Print Assumptions C18_attr_count_exact.

(** Clause 4, orbits, IN FULL on D: two nodes share a reported orbit set iff some self-map preserving the selected attributes sends
    one to the other (the slot-based union-find proofs of C18_orbits are generic in the group). *)
Theorem C18_attr_orbits_exact : forall (g : vgraph) (t : ltab) (nk : list nsel) (ek : list esel) (lab p : list N),
  wf g -> kinds_ok g -> arcs_ok g -> Forall (fun x => x <> NLabel) nk -> (In NKind nk \/ In NBip nk) ->
  (forall v, find_arc g v v = None) -> fst (canon_searchA g t nk ek) = Some (lab, p) ->
  forall u v, In u (node_ids g) ->
    ((exists c, In c (orbits_from_perms (snd (canon_searchA g t nk ek))) /\ In u c /\ In v c) <->
     (exists s, is_autG g (fun v => map (nval g t v) nk) (fun a => map (eval a) ek) s /\ s u = v)).
Proof. exact attr_orbits_exact. Qed.
Print Assumptions C18_attr_orbits_exact.

(** Clause 2 IN FULL on D (replaces C18_attr_invariant_partial there).  The canonical graphs of a renamed, re-presented view agree
    ON THE SELECTED ATTRIBUTES ([canon_nodesG]: canonical id with the selected node attributes, [canon_arcsG]: canonical arc with the
    selected edge attributes).  Identity of the full attribute graphs is false for reduced selections: which of several minimal
    leaves is found first depends on the names, and they differ by self-maps that preserve only the selected attributes. *)
Theorem C18_attr_invariant_full : forall (f : N -> N), (forall x y, f x = f y -> x = y) ->
  forall (g g' : vgraph) (t : ltab) (nk : list nsel) (ek : list esel) (lab p lab' p' : list N),
  wf g -> kinds_ok g -> arcs_ok g -> Forall (fun x => x <> NLabel) nk -> (In NKind nk \/ In NBip nk) ->
  (forall v, find_arc g v v = None) -> geq g' (relabel f g) ->
  fst (canon_searchA g t nk ek) = Some (lab, p) -> fst (canon_searchA g' (relab_tab f t) nk ek) = Some (lab', p') ->
  lab' = lab /\
  Permutation (canon_nodesG g' (fun v => map (nval g' (relab_tab f t) v) nk) p') (canon_nodesG g (fun v => map (nval g t v) nk) p) /\
  Permutation (canon_arcsG g' (fun a => map (eval a) ek) p') (canon_arcsG g (fun a => map (eval a) ek) p).
Proof. exact (fun f fi g g' t nk ek lab p lab' p' => attr_invariant_full f fi g g' t nk ek lab p lab' p'). Qed.
Print Assumptions C18_attr_invariant_full.

(** On NETWORKS: the bipartite view of a network without a view-id collision is loop-free, so clause 4 (count) holds in full for every
    such selection without a premise on the view. *)
Theorem C18_net_attr_count_exact : forall (st : bool) (n : net) (t : ltab) (nk : list nsel) (ek : list esel) (lab p : list N),
  net_ok st n -> (forall r, In r (nrxns n) -> forall sc, In sc (lhs r ++ rhs r) -> (0 < snd sc)%Z) ->
  Forall (fun x => x <> NLabel) nk -> (In NKind nk \/ In NBip nk) ->
  fst (canon_searchA (view true st n) t nk ek) = Some (lab, p) ->
  NoDup (snd (canon_searchA (view true st n) t nk ek)) /\
  forall q, In q (snd (canon_searchA (view true st n) t nk ek)) <->
            exists s, is_autG (view true st n) (fun v => map (nval (view true st n) t v) nk) (fun a => map (eval a) ek) s /\ q = map s p.
Proof. exact net_attr_count_exact. Qed.
Print Assumptions C18_net_attr_count_exact.

(** Species-view selections (aggregates stoich_r / stoich_p): clause 4 (count) in full on LOOP-FREE species views with coefficients
    >= -1 ([arcsS_ok]).  Species views with catalysts / null steps have self-loops: there C18_spattr_count_lower_partial and
    C18_spattr_invariant_partial remain what is proved (missing: (i) above). *)
Theorem C18_spattr_count_exact : forall (g : vgraph) (t : ltab) (nk : list nsel) (ek : list sesel) (lab p : list N),
  wf g -> kinds_ok g -> arcsS_ok g -> Forall (fun x => x <> NLabel) nk -> (In NKind nk \/ In NBip nk) ->
  (forall v, find_arc g v v = None) -> fst (canon_searchS g t nk ek) = Some (lab, p) ->
  NoDup (snd (canon_searchS g t nk ek)) /\
  forall q, In q (snd (canon_searchS g t nk ek)) <->
            exists s, is_autG g (fun v => map (nval g t v) nk) (fun a => map (evalS a) ek) s /\ q = map s p.
Proof. exact (fun g t nk ek lab p Hw Hk Ha Hnl Hne => spattr_count_exact g t nk ek Hw Hk Ha Hnl Hne lab p). Qed.
Print Assumptions C18_spattr_count_exact.

(** ... and clause 2 in full for the species-view selections on loop-free species views: same minimal label, same canonical graph on
    the selected attributes. *)
Theorem C18_spattr_invariant_full : forall (f : N -> N), (forall x y, f x = f y -> x = y) ->
  forall (g g' : vgraph) (t : ltab) (nk : list nsel) (ek : list sesel) (lab p lab' p' : list N),
  wf g -> kinds_ok g -> arcsS_ok g -> Forall (fun x => x <> NLabel) nk -> (In NKind nk \/ In NBip nk) ->
  (forall v, find_arc g v v = None) -> geq g' (relabel f g) ->
  fst (canon_searchS g t nk ek) = Some (lab, p) -> fst (canon_searchS g' (relab_tab f t) nk ek) = Some (lab', p') ->
  lab' = lab /\
  Permutation (canon_nodesG g' (fun v => map (nval g' (relab_tab f t) v) nk) p') (canon_nodesG g (fun v => map (nval g t v) nk) p) /\
  Permutation (canon_arcsG g' (fun a => map (evalS a) ek) p') (canon_arcsG g (fun a => map (evalS a) ek) p).
Proof. exact (fun f fi g g' t nk ek lab p lab' p' => spattr_invariant_full f fi g g' t nk ek lab p lab' p'). Qed.
Print Assumptions C18_spattr_invariant_full.
