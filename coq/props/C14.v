From Coq Require Import NArith List Bool.
Import ListNotations.
From SK Require Import model.C14_Model proof.C14_Proof.
Local Open Scope N_scope.

Theorem C14_cache_transparent_unpinned_refuted :
  exists (execute : N -> N -> bool -> list N) (tr : list event) (cmax : nat),
    (1 <= cmax)%nat /\
    let '(ok, outs, _) := run (list N) execute false true cmax (init _) tr in
    ok = true /\ client_view tr = [CAlloc 10; CAlloc 20; CApply 0 1 false; CRelease 0; CAlloc 11; CApply 2 1 false] /\
    nth 1 outs (false, []) = (true, execute 10 20 false) /\ execute 10 20 false <> execute 11 20 false.
Proof. exact cache_transparent_unpinned_refuted. Qed.
Print Assumptions C14_cache_transparent_unpinned_refuted.
