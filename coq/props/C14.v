From Coq Require Import NArith List Bool.
Import ListNotations.
From SK Require Import model.C14_Model proof.C14_Proof proof.C14_Batch proof.C14_Cluster model.C14_CrnModel proof.C14_Crn
  model.C14_WorkersModel proof.C14_Workers model.C14_BenchModel proof.C14_Bench model.C14_InputsModel proof.C14_Inputs model.C14_PoolModel proof.C14_Pool.
Local Open Scope N_scope.

(** Pinned key discipline (the repaired code): for EVERY allocator and collector behaviour (every legal
    trace: any address-reuse history, any collection schedule), every cache size (the code needs cache_maxsize >= 1: with 0 the
    eviction line raises StopIteration; the model's [tl] of an empty list is harmless) and cache on/off, each
    application returns execute(content of the substrate object, content of the rule object, inv). *)
Theorem C14_cache_transparent :
  forall (R : Type) (execute : N -> N -> bool -> R) (cache_on : bool) (cmax : nat)
         (tr : list event) (outs : list (bool * R)) (fin : state R),
    run R execute true cache_on cmax (init R) tr = (true, outs, fin) ->
    map snd outs = spec execute [] tr.
Proof. exact cache_transparent. Qed.
Print Assumptions C14_cache_transparent.

(** The same from ANY initial cache whose entries hold the result of their pinned objects — whatever
    the keys are (e.g. a pickled copy of the cache in a worker process, where the stored ids are
    meaningless): the identity check, not the key, makes a hit sound. *)
Theorem C14_cache_transparent_any_initial_cache :
  forall (R : Type) (execute : N -> N -> bool -> R) (cache_on : bool) (cmax : nat)
         (cs : list N) (s : state R) (tr : list event) (outs : list (bool * R)) (fin : state R),
    (next s = N.of_nat (length cs) /\
     Forall (fun x => (N.to_nat (o_id x) < length cs)%nat /\ nth (N.to_nat (o_id x)) cs 0 = o_cont x) (heap s) /\
     Forall (fun e => e_res e = execute (nth (N.to_nat (e_ps e)) cs 0) (nth (N.to_nat (e_pr e)) cs 0) (e_kinv e)
                      /\ (N.to_nat (e_ps e) < length cs)%nat /\ (N.to_nat (e_pr e) < length cs)%nat) (cache s)) ->
    run R execute true cache_on cmax s tr = (true, outs, fin) ->
    map snd outs = spec execute cs tr.
Proof. exact cache_transparent_from. Qed.
Print Assumptions C14_cache_transparent_any_initial_cache.

Theorem C14_cache_on_equals_off :
  forall (R : Type) (execute : N -> N -> bool -> R) (cmax : nat) (tr : list event)
         (outs1 : list (bool * R)) (fin1 : state R) (outs2 : list (bool * R)) (fin2 : state R),
    run R execute true true cmax (init R) tr = (true, outs1, fin1) ->
    run R execute true false cmax (init R) tr = (true, outs2, fin2) ->
    map snd outs1 = map snd outs2.
Proof. exact cache_on_equals_off. Qed.
Print Assumptions C14_cache_on_equals_off.

(** Unpinned discipline (the code before commit 4b75757): refuted by a two-entry history in which the
    allocator gives the freed first substrate's address to the second. *)
Theorem C14_cache_transparent_unpinned_refuted :
  exists (execute : N -> N -> bool -> list N) (tr : list event) (cmax : nat) outs fin,
    (1 <= cmax)%nat /\
    run (list N) execute false true cmax (init _) tr = (true, outs, fin) /\
    client_view tr = [CAlloc 10; CAlloc 20; CApply 0 1 false; CRelease 0; CAlloc 11; CApply 2 1 false] /\
    map snd outs <> spec execute [] tr.
Proof. exact cache_transparent_unpinned_refuted. Qed.
Print Assumptions C14_cache_transparent_unpinned_refuted.

(** BatchReactor.fit = map single: for every legal trace whose client part is the program of
    [calls] fit calls on one BatchReactor over [subs] (shared rule objects [pool] built before and
    dropped after), the outputs read off the applier's answers are, per call and per entry, the rules
    applied to that entry alone. *)
Theorem C14_batch_is_map :
  forall (execute : N -> N -> bool -> list N) (cache_on : bool) (cmax : nat) (dd : bool)
         (pool subs : list N) (calls : list (list rspec * bool))
         (tr : list event) (outs : list (bool * list N)) (fin : state (list N)),
    run (list N) execute true cache_on cmax (init _) tr = (true, outs, fin) ->
    client_view tr = batch_prog pool subs calls ->
    Forall (fun call => Forall (fun r => match r with RStr _ => True | RObj o => (N.to_nat o < length pool)%nat end)
                          (fst call)) calls ->
    fit_outputs dd (length subs) calls (map snd outs) =
    map (fun call => map (single execute dd (map (rule_content pool) (fst call)) (snd call)) subs) calls.
Proof. exact batch_is_map. Qed.
Print Assumptions C14_batch_is_map.

(** _dedupe: same elements, no repetition, and (complete characterisation from the right) the output
    only ever grows at its end, by an element not met before: order-preserving, first occurrences. *)
Theorem C14_dedupe_first_occurrences :
  dedupe [] = [] /\
  (forall l x, dedupe (l ++ [x]) = if existsb (N.eqb x) l then dedupe l else dedupe l ++ [x]) /\
  (forall l, NoDup (dedupe l)) /\ (forall l x, In x (dedupe l) <-> In x l) /\
  (forall l, dedupe (dedupe l) = dedupe l).
Proof.
  exact (conj dedupe_nil (conj dedupe_snoc (conj dedupe_NoDup (conj dedupe_In dedupe_idempotent)))).
Qed.
Print Assumptions C14_dedupe_first_occurrences.

(** Batched clustering = one-shot clustering, for every symmetric transitive [iso] and every attribute:
    every batch size (0 encodes None) gives the one-shot class of every item (hence the same partition). *)
Theorem C14_cluster_batches :
  forall (A : Type) (iso : A -> A -> bool) (att : A -> N),
    (forall x y, iso x y = true -> iso y x = true) ->
    (forall x y z, iso x y = true -> iso y z = true -> iso x z = true) ->
    forall (items : list A) (bs : nat), fst (cfit A iso att items [] bs) = oneshot A iso att items.
Proof. exact cluster_batches_oneshot. Qed.
Print Assumptions C14_cluster_batches.

Theorem C14_cluster_batches_templates :
  forall (A : Type) (iso : A -> A -> bool) (att : A -> N) (items : list A) (ts : list (A * nat)) (bs : nat),
    ts <> [] -> cfit A iso att items ts bs = cluster A iso att items ts.
Proof. exact cluster_batches_templates. Qed.
Print Assumptions C14_cluster_batches_templates.

(** (Instance at the pool [par_map] of [C14_crn_pool_contract] below, where the pool's contract is an explicit premise.)
    Parallel versus serial network expansion (SynCRN.build; model coq/model/C14_CrnModel.v, evaluated by the
    correspondence for the serial run and for max_workers 1, 2, 3).  For every rule list (arities, contents),
    configuration, execution table, seed list and worker count the parallel build produces exactly the serial
    build: same species and event nodes with the same node ids, steps, rule indices, rule contents, application
    indices and arcs, same number of tasks per step.  Process-level parallelism is modelled as an
    order-preserving chunked map (executor.map contract; worker counts are compared at run time). *)
Theorem C14_crn_parallel_equals_serial :
  forall (c : crn_cfg) (parallel : bool) (workers : nat) (t : exec_table) (seeds : list (option N)),
  build c parallel workers t seeds = build c false 0%nat t seeds.
Proof. exact main_crn_parallel_equals_serial. Qed.
Print Assumptions C14_crn_parallel_equals_serial.

(** Every result handed to the integration step — serial or parallel, any worker count — carries the index of a
    rule of the rule list and the product mixtures obtained by executing THAT rule's content on the result's own
    reactant mixture: rules that cannot produce a task in a step (arity above max_components, every mixture
    already attempted, budget exhausted) never shift the attribution of the rules behind them. *)
Theorem C14_crn_results_attributed :
  forall (c : crn_cfg) (parallel : bool) (workers : nat) (t : exec_table)
         (index : list (N * N)) (pool frontier : list N) (seen : list (nat * mixt)) (r : result),
  In r (run_tasks parallel workers t
          (snd (tasks_of_rules c index pool frontier 0%nat (cc_rules c) seen (cc_max_tasks c) []))) ->
  exists ar cid,
    nth_error (cc_rules c) (fst (fst r)) = Some (ar, cid) /\
    snd r = exec_lookup t cid (snd (fst r)).
Proof. exact main_crn_results_attributed. Qed.
Print Assumptions C14_crn_results_attributed.

(** The same for successive build calls on ONE SynCRN object (the object's species index, graph, attempt and delta
    memories and application counters persist between the calls): every state reached and the task counts coincide. *)
Theorem C14_crn_builds_parallel_equals_serial :
  forall (c : crn_cfg) (parallel : bool) (workers : nat) (t : exec_table) (calls : list (list (option N))) (st0 : crn_state),
  builds_from c parallel workers t st0 calls = builds_from c false 0%nat t st0 calls.
Proof. exact main_crn_builds_parallel_equals_serial. Qed.
Print Assumptions C14_crn_builds_parallel_equals_serial.

(** (Instances at the pool [par_map] of [C14_rows_pool_contract] below, where the pool's contract is an explicit premise.)
    Parallel versus serial validation: for every per-row check, every table and every worker count, validate_smiles' per-row
    results are, row by row and in order, the single-row results, and results / success count / row count equal those of the
    serial run (joblib.Parallel modelled as an order-preserving chunked map — its contract; worker counts compared at run time). *)
Theorem C14_validate_workers :
  forall (A : Type) (n_jobs : nat) (check : A -> bool) (rows : list A),
  validate_column n_jobs check rows = validate_column 1%nat check rows /\
  fst (validate_column n_jobs check rows) = map check rows.
Proof. exact main_validate_workers. Qed.
Print Assumptions C14_validate_workers.

(** Parallel versus serial balance checking: for every worker count the two lists returned are exactly the balanced and the
    unbalanced rows, each in input order — failing rows in the middle of the list stay where they are. *)
Theorem C14_balance_workers :
  forall (A : Type) (n_jobs : nat) (check : A -> bool) (rows : list A),
  balance_split n_jobs check rows = (filter check rows, filter (fun r => negb (check r)) rows).
Proof. exact main_balance_workers. Qed.
Print Assumptions C14_balance_workers.

(** Worker processes (round 5; model coq/model/C14_WorkersModel.v).  A task sent to a joblib worker is pickled: the applier arrives
    as a COPY — its cache keys are the parent's addresses, meaningless in the worker, its pinned objects are copies with new
    identities and addresses ([ship]; sharing inside one pickle preserved).  For every parent history before the fit (any legal
    trace [tr0] from the empty state — e.g. serial work that filled the cache), every set of shipped root objects, every address
    assignment of the copies and every legal worker trace (any worker-side allocator / collector, so also one that hands a new
    substrate the address of a stale key), every application in the worker returns execute(contents of its two objects). *)
Theorem C14_worker_transparent :
  forall (execute : N -> N -> bool -> list N) (cache_on : bool) (cmax : nat)
         (tr0 : list event) (outs0 : list (bool * list N)) (sp : state (list N)) (roots addrs : list N)
         (tr : list event) (outs : list (bool * list N)) (fin : state (list N)),
    run (list N) execute true cache_on cmax (init _) tr0 = (true, outs0, sp) ->
    run (list N) execute true cache_on cmax (ship (contents_of tr0) sp roots addrs) tr = (true, outs, fin) ->
    map snd outs = spec execute (ship_contents (contents_of tr0) (ship_ids (cache sp) roots)) tr.
Proof. exact worker_transparent. Qed.
Print Assumptions C14_worker_transparent.

(** BatchReactor.fit with entry-level workers = map single: for EVERY order-preserving cut of the entry list into batches of tasks
    ([wchunks c], any c), every parent history, every address assignment per batch ([addrs_of k]) and every legal worker trace per
    batch whose client part is the closure [worker] applied to the entries of that batch, the concatenated per-entry outputs are
    the rules applied to each entry alone (contents of the rule objects as allocated in the parent) — whatever the shipped cache
    contains, cache on or off, every cache size. *)
Theorem C14_fit_workers :
  forall (execute : N -> N -> bool -> list N) (cache_on : bool) (cmax : nat) (dd : bool)
         (tr0 : list event) (outs0 : list (bool * list N)) (sp : state (list N)) (rules : list N) (inv : bool)
         (subs : list N) (c : nat) (addrs_of : nat -> list N) (traces : list (list event)),
  run (list N) execute true cache_on cmax (init _) tr0 = (true, outs0, sp) ->
  let cs := contents_of tr0 in
  let ids := ship_ids (cache sp) rules in
  Forall2 (fun chunk ktr =>
             fst (fst (run (list N) execute true cache_on cmax (ship cs sp rules (addrs_of (fst ktr))) (snd ktr))) = true /\
             client_view (snd ktr) = worker_prog (length ids) (map (fun r => index_of r ids) rules) inv chunk)
          (wchunks c subs) (combine (seq 0 (length traces)) traces) ->
  concat (map (fun x : list N * (nat * list event) =>
                 snd (worker_outputs execute cache_on cmax dd (ship cs sp rules (addrs_of (fst (snd x))))
                                     (length rules) (fst x) (snd (snd x))))
              (combine (wchunks c subs) (combine (seq 0 (length traces)) traces))) =
  map (single execute dd (map (fun r => nth (N.to_nat r) cs 0) rules) inv) subs.
Proof. exact fit_workers_is_map. Qed.
Print Assumptions C14_fit_workers.

(** Rule-level workers (parallel_rules, rule_n_jobs > 1): each application is a task of its own, shipped with the applier, the
    substrate and the rule; its answer is execute(contents), for every parent history and every legal worker trace. *)
Theorem C14_rule_task_workers :
  forall (execute : N -> N -> bool -> list N) (cache_on : bool) (cmax : nat)
         (tr0 : list event) (outs0 : list (bool * list N)) (sp : state (list N)) (s r : N) (addrs : list N) (inv : bool)
         (tr : list event) (outs : list (bool * list N)) (fin : state (list N)),
    run (list N) execute true cache_on cmax (init _) tr0 = (true, outs0, sp) ->
    let cs := contents_of tr0 in
    let ids := ship_ids (cache sp) [s; r] in
    run (list N) execute true cache_on cmax (ship cs sp [s; r] addrs) tr = (true, outs, fin) ->
    client_view tr = rule_task_prog (index_of s ids) (index_of r ids) inv ->
    map snd outs = [execute (nth (N.to_nat s) cs 0) (nth (N.to_nat r) cs 0) inv].
Proof. exact rule_task_transparent. Qed.
Print Assumptions C14_rule_task_workers.

(** Fit calls whose entry list differs from call to call on ONE BatchReactor object (same applier, same cache; model
    coq/model/C14_BenchModel.v): for every legal trace whose client part is the program of the calls, each call's outputs are,
    per entry of THAT call, the rules applied to that entry alone in the call's direction — nothing an earlier call processed
    (other entries, other direction) can leak into a later one. *)
Theorem C14_calls_are_maps :
  forall (execute : N -> N -> bool -> list N) (cache_on : bool) (cmax : nat) (dd : bool)
         (pool : list N) (calls : list call2)
         (tr : list event) (outs : list (bool * list N)) (fin : state (list N)),
    run (list N) execute true cache_on cmax (init _) tr = (true, outs, fin) ->
    client_view tr = batch_prog2 pool calls ->
    Forall (fun call : call2 => Forall (fun r => match r with RStr _ => True | RObj o => (N.to_nat o < length pool)%nat end)
                                  (fst (fst call))) calls ->
    fit_outputs2 dd calls (map snd outs) =
    map (fun call : call2 => map (single execute dd (map (rule_content pool) (fst (fst call))) (snd (fst call))) (snd call)) calls.
Proof. exact calls_are_maps. Qed.
Print Assumptions C14_calls_are_maps.

(** The Benchmark facade (benchmark.py): fit = a forward fit over the reactant sides followed by a backward fit over the product
    sides on the same object (host_key re-pointed in between); entry k receives exactly (rules applied forward to its reactant
    side alone, rules applied backward to its product side alone). *)
Theorem C14_bench_is_map :
  forall (execute : N -> N -> bool -> list N) (cache_on : bool) (cmax : nat) (dd : bool)
         (pool : list N) (rules : list rspec) (subs_r subs_p : list N)
         (tr : list event) (outs : list (bool * list N)) (fin : state (list N)),
    run (list N) execute true cache_on cmax (init _) tr = (true, outs, fin) ->
    client_view tr = batch_prog2 pool (bench_calls rules subs_r subs_p) ->
    Forall (fun r => match r with RStr _ => True | RObj o => (N.to_nat o < length pool)%nat end) rules ->
    bench_entries (fit_outputs2 dd (bench_calls rules subs_r subs_p) (map snd outs)) =
    combine (map (single execute dd (map (rule_content pool) rules) false) subs_r)
            (map (single execute dd (map (rule_content pool) rules) true) subs_p).
Proof. exact bench_is_map. Qed.
Print Assumptions C14_bench_is_map.

(** parse_input in front of dicts_balance_check (balance_check.py; model coq/model/C14_InputsModel.v): strings and dicts carrying the
    reaction key are kept, every other item (a dict without the key, None, a number) is skipped; for every worker count the two
    returned lists are exactly the balanced and the unbalanced ones among the KEPT items, each in input order. *)
Theorem C14_balance_input :
  forall (A : Type) (n_jobs : nat) (check : A -> bool) (items : list (bitem * A)),
  dicts_balance_check n_jobs check items =
  (filter check (parse_input items), filter (fun r => negb (check r)) (parse_input items)).
Proof. exact @balance_input. Qed.
Print Assumptions C14_balance_input.

(** THE POOL'S CONTRACT AS AN EXPLICIT PREMISE (model coq/model/C14_PoolModel.v: the functions of C14_CrnModel.v with the pool primitive
    — executor.map / joblib.Parallel — as a parameter [pm]).  [pool_contract pm]: for every chunk size, function and list, pm returns
    map f l (one result per item, in submission order).  Process pools are NOT verified to satisfy it (tested at run time for worker
    counts 1..8); everything else follows from it alone:
    network expansion — every state reached by successive build calls and the task counts — is the same for every pool satisfying the
    contract, parallel or not, any worker count. *)
Theorem C14_crn_pool_contract :
  forall (pm : pool_map), pool_contract pm ->
  forall (c : crn_cfg) (parallel : bool) (workers : nat) (t : exec_table) (calls : list (list (option N))) (st0 : crn_state),
  builds_from_with pm c parallel workers t st0 calls = builds_from_with pm c false 0%nat t st0 calls.
Proof. intros pm H c parallel workers t calls st0. exact (builds_with_parallel_equals_serial pm H c parallel workers t calls st0). Qed.
Print Assumptions C14_crn_pool_contract.

(** validation and balance checking under the contract alone *)
Theorem C14_rows_pool_contract :
  forall (pm : pool_map), pool_contract pm ->
  forall (A : Type) (n_jobs : nat) (check : A -> bool) (rows : list A),
  validate_column_with pm n_jobs check rows = validate_column_with pm 1%nat check rows /\
  fst (validate_column_with pm n_jobs check rows) = map check rows /\
  balance_split_with pm n_jobs check rows = (filter check rows, filter (fun r => negb (check r)) rows).
Proof.
  intros pm H A n_jobs check rows. destruct (validate_with_workers pm H n_jobs check rows) as [H1 H2].
  split; [exact H1|split; [exact H2|exact (balance_with_workers pm H n_jobs check rows)]].
Qed.
Print Assumptions C14_rows_pool_contract.

(** the pool of the executable model satisfies the contract, and the parametrised functions at that pool ARE the functions the
    correspondence evaluates (so the two theorems above specialise to [C14_crn_builds_parallel_equals_serial], [C14_validate_workers],
    [C14_balance_workers]) *)
Theorem C14_par_map_is_a_pool :
  pool_contract (@par_map) /\
  (forall c parallel workers t calls st0,
     builds_from_with (@par_map) c parallel workers t st0 calls = builds_from c parallel workers t st0 calls) /\
  (forall (A : Type) n_jobs (check : A -> bool) rows,
     validate_column_with (@par_map) n_jobs check rows = validate_column n_jobs check rows /\
     balance_split_with (@par_map) n_jobs check rows = balance_split n_jobs check rows).
Proof.
  split; [exact par_map_contract|split].
  - intros. apply builds_from_instance.
  - intros. apply rows_instances.
Qed.
Print Assumptions C14_par_map_is_a_pool.
