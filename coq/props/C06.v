(** C06 — subgraph search returns exactly the label-preserving monomorphisms.
    Statements only; every proof is [exact <lemma of proof/C06_*.v>].

    Vocabulary (lib/C06_Spec.v, definitions only, written out in section 0 below):
    [is_mono_on] / [is_mono], [gconn], [separating], [vf2_contract], [oracle_ok],
    [limit], [gwf].  Model: model/C06_Model.v; [find enum c H P] is the public entry
    point [SubgraphSearchEngine.find_subgraph_mappings] (what the correspondence
    evaluates through [run_set] / [run_list]); [Cfg strategy max_results threshold
    strict_cc_count pre_filter] with strategy 0 = all, 1 = comp, 2 = bt and
    max_results 0 = None.

    networkx VF2 is not modelled: it is the parameter [enum].  Wherever a theorem
    needs it, the premise [vf2_contract] / [oracle_ok] says "this enumeration call
    returns a duplicate-free listing of exactly the valid monomorphisms" (mappings
    compared as sets of pairs, as Python dicts are).  The harness monitors that
    premise on every case ([table_ok]), and section 1 shows that the verified
    enumerator of lib/Mono.v satisfies it, so with [enum := monos_on H P] (what
    [run_set] evaluates) no premise about VF2 is left.

    "Without modifying its inputs": the model is a pure function, so this clause
    holds in the model by construction; for the Python code the adapter
    deep-compares host and pattern before/after every call (TESTED_NOT_PROVED). *)
From Coq Require Import List NArith Bool Arith Permutation SetoidList Relations.
From SK Require Import lib.LGraph lib.Mono model.C06_Model lib.C06_Spec
  proof.C06_All proof.C06_Comp proof.C06_Comps proof.C06_CompSem proof.C06_CompNoDup proof.C06_Prefilter proof.C06_Table proof.C06_Api proof.C06_Main
  model.C06_Attrs lib.C06_SelSpec proof.C06_Attrs proof.C06_AttrsSpec proof.C06_AttrsEx
  model.C06_Trace proof.C06_Trace proof.C06_TraceEx proof.C06_AttrsComp model.C06_Hist proof.C06_Hist lib.C06_TraceSpec proof.C06_TracePer proof.C06_HistEdits proof.C06_Iso proof.C06_IsoCount proof.C06_AttrsUnused lib.C06_HistSpec proof.C06_HistFrame proof.C06_TraceCover proof.C06_HistFrameE proof.C06_Degenerate proof.C06_AttrsHcount proof.C06_Refuted.
Import ListNotations.

(** ** 0. What the specification predicates say, written out *)
Theorem C06_spec_meaning : forall (H P : graph) (hn pn : list N) (m : mapping),
  is_mono_on H P hn pn m <->
  (* a function defined exactly on the pattern nodes *)
  NoDup (map fst m) /\ (forall p, In p (map fst m) <-> In p pn) /\
  (* injective *)
  NoDup (map snd m) /\
  (* into the host nodes; selected node attributes equal, host hcount >= pattern hcount *)
  (forall p h, In (p, h) m ->
     In h hn /\ fst (lab H h) = fst (lab P p) /\ (snd (lab P p) <= snd (lab H h))%N) /\
  (* every pattern edge lands on a host edge with equal selected edge attributes *)
  (forall p h p' h' b, In (p, h) m -> In (p', h') m -> LGraph.adj P p p' = Some b ->
     LGraph.adj H h h' = Some b).
Proof. exact is_mono_on_meaning. Qed.
Print Assumptions C06_spec_meaning.

(** [comps] (the model of nx.connected_components) lists exactly the connectivity
    classes ([gconn] = reflexive-transitive closure of adjacency): "component" in the
    theorems below means what it should *)
Theorem C06_components : forall g : graph, gwf g ->
  (forall c, In c (comps g) ->
     c <> [] /\ NoDup c /\ incl c (node_ids g) /\
     forall x y, In x c -> (In y c <-> clos_refl_trans N (fun a b => LGraph.adj g a b <> None) x y)) /\
  (forall x, In x (node_ids g) -> exists c, In c (comps g) /\ In x c) /\
  (forall i j ci cj x, nth_error (comps g) i = Some ci -> nth_error (comps g) j = Some cj ->
     In x ci -> In x cj -> i = j).
Proof. exact (fun g Hg => conj (comps_class g Hg) (conj (comps_cover g Hg) (comps_disjoint g Hg))). Qed.
Print Assumptions C06_components.

(** ** 1. Exhaustive strategy *)
(** no limits ([max_results] None, threshold not below the number of matches): the result
    is sound, complete and duplicate-free, under the VF2 contract for the one enumeration
    call the strategy makes *)
Theorem C06_all_exact : forall (enum : list N -> list N -> list mapping) (T : N) (strict : bool) (H P : graph),
  vf2_contract enum H P (node_ids H) (node_ids P) ->
  (lenN (enum (node_ids H) (node_ids P)) <= T)%N ->
  let R := find enum (Cfg 0 0 T strict false) H P in
  (forall m, In m R -> is_mono H P m) /\
  (forall m, is_mono H P m -> exists m', In m' R /\ Permutation m m') /\
  NoDupA (@Permutation (N * N)) R.
Proof. exact all_exact. Qed.
Print Assumptions C06_all_exact.

(** the contract is satisfiable, and the enumerator the harness monitors VF2 against meets it *)
Theorem C06_enumerator_meets_contract : forall (H P : graph), gwf P ->
  forall hn pn, NoDup hn -> NoDup pn ->
  (forall m, In m (monos_on H P hn pn) -> is_mono_on H P hn pn m) /\
  (forall m, is_mono_on H P hn pn m -> exists m', In m' (monos_on H P hn pn) /\ Permutation m m') /\
  NoDupA (@Permutation (N * N)) (monos_on H P hn pn).
Proof. exact monos_on_contract. Qed.
Print Assumptions C06_enumerator_meets_contract.

Theorem C06_enumerator_oracle_ok : forall (H P : graph), gwf H -> gwf P -> oracle_ok (monos_on H P) H P.
Proof. exact monos_on_oracle_ok. Qed.
Print Assumptions C06_enumerator_oracle_ok.

(** the premise of section 2, written out: the whole-graph call and every call "pattern
    component into a host component that is large enough" return a duplicate-free listing
    of exactly the valid monomorphisms *)
Theorem C06_oracle_ok_meaning : forall (enum : list N -> list N -> list mapping) (H P : graph),
  oracle_ok enum H P <->
  (let L := enum (node_ids H) (node_ids P) in
   (forall m, In m L -> is_mono H P m) /\
   (forall m, is_mono H P m -> exists m', In m' L /\ Permutation m m') /\
   NoDupA (@Permutation (N * N)) L) /\
  (forall hc pc, In hc (comps H) -> In pc (comps P) -> length pc <= length hc ->
   let L := enum hc pc in
   (forall m, In m L -> is_mono_on H P hc pc m) /\
   (forall m, is_mono_on H P hc pc m -> exists m', In m' L /\ Permutation m m') /\
   NoDupA (@Permutation (N * N)) L).
Proof. exact oracle_ok_meaning. Qed.
Print Assumptions C06_oracle_ok_meaning.

(** the monitor implies the premise: for an order-sensitive case the model evaluates
    [find (lookup_or t H P)] (the recorded networkx enumeration of every call; the verified
    enumerator for a call that was never recorded) and the two flags [wfb H && wfb P] and
    [table_ok2 H P t] (every recorded enumeration is, entry by entry and as sets of pairs,
    a rearrangement of the verified enumerator's list).  When both flags are true - the
    harness compares them with the constant true on every such case - all premises of the
    theorems of this file hold for that oracle: nothing about networkx is assumed for the
    cases that were run. *)
Theorem C06_run_list_premises : forall (H P : graph) (t : table),
  wfb H && wfb P = true -> table_ok2 H P t = true ->
  gwf H /\ gwf P /\ LGraph.wf P /\ oracle_ok (lookup_or t H P) H P.
Proof. exact run_list_premises. Qed.
Print Assumptions C06_run_list_premises.

(** ** 2. Component-aware strategy, no limits (for every threshold from some T0 on).
    What the code does, in this order:
    - pattern has components, host has MORE components and strict_cc_count is set: [] (the
      documented guard of that parameter; the property text does not mention it — the
      text's claim is the third case, which is what strict_cc_count = False gives);
    - host has FEWER components than the pattern: exactly all monomorphisms;
    - otherwise: exactly the monomorphisms that send different pattern components into
      different host components ([separating]: two images connected in the host only if
      the two pattern nodes are connected in the pattern). *)
Theorem C06_comp_spec : forall (enum : list N -> list N -> list mapping) (strict : bool) (H P : graph),
  gwf H -> gwf P -> oracle_ok enum H P ->
  exists T0 : N, forall T : N, (T0 <= T)%N ->
  let R := find enum (Cfg 1 0 T strict false) H P in
  let hcc := length (comps H) in
  let pcc := length (comps P) in
  (* no two entries are equal as sets of pairs *)
  NoDupA (@Permutation (N * N)) R /\
  if (0 <? pcc) && (pcc <? hcc) && strict then R = []
  else if hcc <? pcc then
    (forall m, In m R -> is_mono H P m) /\
    (forall m, is_mono H P m -> exists m', In m' R /\ Permutation m m')
  else
    (forall m, In m R ->
       is_mono H P m /\
       forall p h p' h', In (p, h) m -> In (p', h') m -> gconn H h h' -> gconn P p p') /\
    (forall m, is_mono H P m ->
       (forall p h p' h', In (p, h) m -> In (p', h') m -> gconn H h h' -> gconn P p p') ->
       exists m', In m' R /\ Permutation m m').
Proof. exact comp_spec. Qed.
Print Assumptions C06_comp_spec.

(** ** 3. Fallback strategy, no limits: the component-aware result if it is non-empty,
    the exhaustive result otherwise (no premise: this is about the dispatch only; what
    the two results are is sections 1 and 2) *)
Theorem C06_bt_spec : forall (enum : list N -> list N -> list mapping) (strict : bool) (H P : graph),
  exists T0 : N, forall T : N, (T0 <= T)%N ->
  find enum (Cfg 2 0 T strict false) H P =
  match find enum (Cfg 1 0 T strict false) H P with
  | [] => find enum (Cfg 0 0 T strict false) H P
  | primary => primary
  end.
Proof. exact bt_spec_unlimited. Qed.
Print Assumptions C06_bt_spec.

(** the instance the default configuration meets on mixtures (strict_cc_count = True, the
    pattern has fewer components than the host, e.g. a connected pattern in a host of
    several molecules): comp is [] by the documented parameter, hence bt is the exhaustive
    result, i.e. exactly the monomorphisms *)
Theorem C06_bt_strict_fallback : forall (enum : list N -> list N -> list mapping) (H P : graph),
  vf2_contract enum H P (node_ids H) (node_ids P) ->
  0 < length (comps P) -> length (comps P) < length (comps H) ->
  exists T0 : N, forall T : N, (T0 <= T)%N ->
  let R := find enum (Cfg 2 0 T true false) H P in
  find enum (Cfg 1 0 T true false) H P = [] /\
  R = find enum (Cfg 0 0 T true false) H P /\
  (forall m, In m R -> is_mono H P m) /\
  (forall m, is_mono H P m -> exists m', In m' R /\ Permutation m m') /\
  NoDupA (@Permutation (N * N)) R.
Proof. exact bt_strict_fallback. Qed.
Print Assumptions C06_bt_strict_fallback.

(** ** 4. Result limits *)
(** exhaustive strategy, every [max_results] and [threshold]: the prefix of length
    min(max_results, #matches) of the unlimited listing, or [] when that length exceeds
    the threshold — nothing else *)
Theorem C06_limits_all : forall (enum : list N -> list N -> list mapping) (maxr thr : N) (strict : bool) (H P : graph),
  find enum (Cfg 0 maxr thr strict false) H P =
  let U := enum (node_ids H) (node_ids P) in
  let k := if (maxr =? 0)%N then lenN U else N.min maxr (lenN U) in
  if (thr <? k)%N then [] else firstn (N.to_nat k) U.
Proof. exact find_all_limits. Qed.
Print Assumptions C06_limits_all.

(** every strategy (no premise about VF2: the order of the list is whatever the oracle's
    order induces).  U = the result without limits.  Either the result is exactly
    [limit max_results threshold U] (prefix of length min, emptied past the threshold), or —
    component-aware / fallback only — the documented enumeration guard fired: some pattern
    component has more than [threshold] embeddings into the large-enough host components;
    then comp returns [] and bt returns either [] or the limited exhaustive result. *)
Theorem C06_limits : forall (enum : list N -> list N -> list mapping) (strat : N) (strict : bool) (H P : graph),
  exists T0 : N, forall T : N, (T0 <= T)%N ->
  let U := find enum (Cfg strat 0 T strict false) H P in
  let Uall := find enum (Cfg 0 0 T strict false) H P in
  forall maxr thr : N,
  let R := find enum (Cfg strat maxr thr strict false) H P in
  let k := fun V : list mapping => if (maxr =? 0)%N then lenN V else N.min maxr (lenN V) in
  let lim := fun V : list mapping => if (thr <? k V)%N then [] else firstn (N.to_nat (k V)) V in
  R = lim U \/
  (strat <> 0%N /\
   (exists pc, In pc (comps P) /\
      N.lt thr (lenN (flat_map (fun ih => map (pair (fst ih)) (enum (snd ih) pc))
                        (filter (fun ih => length pc <=? length (snd ih)) (index_from 0 (comps H)))))) /\
   (R = [] \/ R = lim Uall)).
Proof. exact limits. Qed.
Print Assumptions C06_limits.

(** the second alternative is real: threshold 3, unlimited component-aware result of
    exactly 3 mappings (not past the threshold), yet [] is returned because pattern
    component {C10} has 4 embeddings (host C1-C2-C3 . C4-O5, pattern C10 . O11).  This is
    the docstring's "enumeration guard"; the harness oracle accepts it (ASSUMPTIONS). *)
Theorem C06_limits_guard_reachable :
  find (monos_on Hx Px) (Cfg 1 0 3 true false) Hx Px = [] /\
  limit 0 3 (find (monos_on Hx Px) (Cfg 1 0 5000 true false) Hx Px) =
    find (monos_on Hx Px) (Cfg 1 0 5000 true false) Hx Px /\
  length (find (monos_on Hx Px) (Cfg 1 0 5000 true false) Hx Px) = 3 /\
  find (monos_on Hx Px) (Cfg 2 0 3 true false) Hx Px = [].
Proof. exact guard_reachable. Qed.
Print Assumptions C06_limits_guard_reachable.

(** the cheap pre-filter can only empty the result, never change it otherwise *)
Theorem C06_prefilter_only_empties : forall (enum : list N -> list N -> list mapping) (c : cfg) (H P : graph),
  find enum c H P = [] \/
  find enum c H P = find enum (Cfg (c_strat c) (c_maxr c) (c_thr c) (c_strict c) false) H P.
Proof. exact prefilter_only_empties. Qed.
Print Assumptions C06_prefilter_only_empties.

(** when the pre-filter says "skip" ([_quick_pre_filter] returns True), either there is
    provably no monomorphism at all (so the emptied result is the exact one), or the
    documented estimate guard fired: the product of the per-node candidate counts (host
    nodes with matching labels and at least the pattern node's degree) over a prefix of
    the pattern nodes exceeds 10^4 x threshold *)
Theorem C06_prefilter_sound : forall (H P : graph) (thr : N),
  LGraph.wf P -> quick_pre_filter H P thr = true ->
  (forall m, ~ is_mono H P m) \/
  (exists pre suf, node_ids P = pre ++ suf /\
     (thr * 10000 <
      fold_left (fun e p => e * lenN (filter (fun h => nm (lab H h) (lab P p) && (degree P p <=? degree H h)) (node_ids H)))
                pre 1)%N).
Proof. exact prefilter_sound. Qed.
Print Assumptions C06_prefilter_sound.

(** the first flag of every compared observable is [wfb H && wfb P]; it implies the input
    premises ([gwf], [LGraph.wf]) of the theorems above *)
Theorem C06_input_premise_monitor : forall g : graph, wfb g = true -> LGraph.wf g /\ gwf g.
Proof. exact wfb_spec. Qed.
Print Assumptions C06_input_premise_monitor.

(** ** 5. The call interface (Strategy.from_string and the option defaults; [find_api] is what
    [run_api] evaluates on the "api" population, where the harness hands over exactly what the
    caller wrote - omitted options included) *)

(** accepted strategy spellings: exactly the case variants of "all" / "comp" / "bt" / "partial"
    (byte strings; A-Z folded to a-z); everything else is a ValueError *)
Theorem C06_from_string : forall (s : list N) (k : N),
  from_string s = Some k <->
  (k = 0%N /\ map lower_byte s = [97; 108; 108]%N) \/
  (k = 1%N /\ map lower_byte s = [99; 111; 109; 112]%N) \/
  (k = 2%N /\ map lower_byte s = [98; 116]%N) \/
  (k = 3%N /\ map lower_byte s = [112; 97; 114; 116; 105; 97; 108]%N).
Proof. exact from_string_spec. Qed.
Print Assumptions C06_from_string.

(** every option omitted = comp, no cap, strict component count, threshold 5000, no pre-filter;
    a string behaves as the member it denotes; "partial" is refused; max_results = 0 is None *)
Theorem C06_api : forall (enum : list N -> list N -> list mapping) (H P : graph),
  find_api enum SDefault None None None None H P = Result (find enum (Cfg 1 0 5000 true false) H P) /\
  (forall s maxr strict thr pref,
     find_api enum (SStr s) maxr strict thr pref H P =
     match from_string s with
     | None => ValueError
     | Some k => find_api enum (SMember k) maxr strict thr pref H P
     end) /\
  (forall k maxr strict thr pref, (k < 3)%N ->
     find_api enum (SMember k) maxr strict thr pref H P =
     Result (find enum (Cfg k (match maxr with Some m => m | None => 0%N end)
                              (match thr with Some t => t | None => 5000%N end)
                              (match strict with Some b => b | None => true end)
                              (match pref with Some b => b | None => false end)) H P)) /\
  (forall maxr strict thr pref, find_api enum (SMember 3) maxr strict thr pref H P = NotImplemented) /\
  (forall s strict thr pref,
     find_api enum s (Some 0%N) strict thr pref H P = find_api enum s None strict thr pref H P).
Proof.
  exact (fun enum H P => conj (api_defaults enum H P) (conj (fun s m st t p => api_strategy enum s m st t p H P)
          (conj (fun k m st t p => api_member enum k m st t p H P) (conj (fun m st t p => api_partial enum m st t p H P)
          (fun s st t p => api_maxr_zero enum s st t p H P))))).
Qed.
Print Assumptions C06_api.

(** the call with EVERY option omitted (strategy comp, strict_cc_count True, threshold 5000),
    when 5000 is not binding (raising the threshold further does not change the result):
    [] as soon as the host has more components than a non-empty pattern (the default the
    mixtures meet!), all monomorphisms when it has fewer, the separating ones otherwise *)
Theorem C06_default_call : forall (enum : list N -> list N -> list mapping) (H P : graph),
  gwf H -> gwf P -> oracle_ok enum H P ->
  (forall T', (5000 <= T')%N ->
     find enum (Cfg 1 0 T' true false) H P = find enum (Cfg 1 0 5000 true false) H P) ->
  exists R, find_api enum SDefault None None None None H P = Result R /\
  let hcc := length (comps H) in
  let pcc := length (comps P) in
  NoDupA (@Permutation (N * N)) R /\
  if (0 <? pcc) && (pcc <? hcc) then R = []
  else if hcc <? pcc then
    (forall m, In m R -> is_mono H P m) /\
    (forall m, is_mono H P m -> exists m', In m' R /\ Permutation m m')
  else
    (forall m, In m R -> is_mono H P m /\ separating H P m) /\
    (forall m, is_mono H P m -> separating H P m -> exists m', In m' R /\ Permutation m m').
Proof. exact default_call_spec. Qed.
Print Assumptions C06_default_call.

(** ** 6. Attribute dictionaries and selections (model/C06_Attrs.v).  From round 5 on the
    correspondence hands the model the graphs as the caller has them - every node / edge with its
    whole attribute dictionary - and the selections [node_attrs] / [edge_attrs] as lists of names;
    [run_tr_set] / [run_tr_list] (model/C06_Trace.v) / [run_sel_api] evaluate [find_sel], [quick_pre_filter_sel] and the
    enumerator [monos_sel] run with the two closures of subgraph_matcher.py ([node_match_sel],
    [edge_match_sel]).  [aget k d] is [d.get(k)] (None = 0), [hc l] is [l.get("hcount", 0)]. *)

(** the closures, written out *)
Theorem C06_sel_closures : forall (na ea : list N) (nh np : rnlab) (eh ep : rattrs),
  (node_match_sel na nh np = true <->
     (forall k, In k na -> aget k (fst nh) = aget k (fst np)) /\ (hc np <= hc nh)%N) /\
  (edge_match_sel ea eh ep = true <-> forall k, In k ea -> aget k eh = aget k ep).
Proof. exact (fun na ea nh np eh ep => conj (node_match_sel_meaning na nh np) (edge_match_sel_meaning ea eh ep)). Qed.
Print Assumptions C06_sel_closures.

(** the bridge to sections 0-5: the closures are the comparators [nm] / [em] of the projected
    graphs; on node lists of the two graphs the enumeration with the closures IS the verified
    enumerator on the projections; what the correspondence evaluates is [find] on the projections
    with that enumerator (so every theorem above about [find (monos_on H P) c H P] is a theorem
    about the evaluated term), and the pre-filter verdicts coincide *)
Theorem C06_sel_projection : forall (na ea : list N) (H P : rgraph),
  (forall nh np, node_match_sel na nh np = nm (proj_n na nh) (proj_n na np)) /\
  (forall eh ep, edge_match_sel ea eh ep = em (proj_e ea eh) (proj_e ea ep)) /\
  (forall hn pn, incl hn (node_ids H) -> incl pn (node_ids P) ->
     monos_on (project na ea H) (project na ea P) hn pn = monos_sel na ea H P hn pn) /\
  (forall c, find_sel (monos_sel na ea H P) c na ea H P =
             find (monos_on (project na ea H) (project na ea P)) c (project na ea H) (project na ea P)) /\
  (forall thr, quick_pre_filter_sel na H P thr = quick_pre_filter (project na ea H) (project na ea P) thr).
Proof.
  exact (fun na ea H P => conj (node_match_sel_proj na) (conj (edge_match_sel_proj ea)
           (conj (monos_sel_project na ea H P) (conj (fun c => find_sel_project c na ea H P)
                 (quick_pre_filter_sel_project na ea H P))))).
Qed.
Print Assumptions C06_sel_projection.

(** [find] asks its enumeration oracle only for sub-lists of the node lists of the two graphs
    (whole graph x whole graph, component x component): two oracles that agree there give the
    same result for every configuration *)
Theorem C06_enum_calls_inside : forall (e1 e2 : list N -> list N -> list mapping) (H P : graph),
  (forall hn pn, incl hn (node_ids H) -> incl pn (node_ids P) -> e1 hn pn = e2 hn pn) ->
  forall c, find e1 c H P = find e2 c H P.
Proof. exact find_enum_ext. Qed.
Print Assumptions C06_enum_calls_inside.

(** the first sentence of the property, on the caller's graphs (no projection in the statement):
    the exhaustive strategy without limits returns exactly the injective maps under which every
    SELECTED node attribute name has equal values in the two dictionaries, the host hcount is at
    least the pattern's, and every pattern bond lands on a host bond whose dictionary agrees on
    every SELECTED edge attribute name - sound, complete, duplicate-free *)
Theorem C06_sel_all_exact : forall (na ea : list N) (T : N) (strict : bool) (H P : rgraph),
  (NoDup (node_ids H) /\ forall a b x, In (a, b, x) (gedges H) -> In a (node_ids H) /\ In b (node_ids H) /\ a <> b) ->
  (NoDup (node_ids P) /\ forall a b x, In (a, b, x) (gedges P) -> In a (node_ids P) /\ In b (node_ids P) /\ a <> b) ->
  (lenN (monos_sel na ea H P (node_ids H) (node_ids P)) <= T)%N ->
  let R := find_sel (monos_sel na ea H P) (Cfg 0 0 T strict false) na ea H P in
  let good (m : mapping) :=
    NoDup (map fst m) /\ (forall p, In p (map fst m) <-> In p (node_ids P)) /\ NoDup (map snd m) /\
    (forall p h, In (p, h) m ->
       In h (node_ids H) /\
       (forall k, In k na -> aget k (fst (rlab H h)) = aget k (fst (rlab P p))) /\
       (hc (rlab P p) <= hc (rlab H h))%N) /\
    (forall p h p' h' b, In (p, h) m -> In (p', h') m -> LGraph.adj P p p' = Some b ->
       exists b', LGraph.adj H h h' = Some b' /\ forall k, In k ea -> aget k b' = aget k b) in
  (forall m, In m R -> good m) /\
  (forall m, good m -> exists m', In m' R /\ Permutation m m') /\
  NoDupA (@Permutation (N * N)) R.
Proof. exact sel_all_exact. Qed.
Print Assumptions C06_sel_all_exact.

(** a selection is a SET of names: order and repetitions in [node_attrs] / [edge_attrs] are
    immaterial - identical result lists for every configuration (strategy, limits, pre-filter) *)
Theorem C06_sel_same_members : forall (na na' ea ea' : list N) (H P : rgraph) (c : cfg),
  incl na na' -> incl na' na -> incl ea ea' -> incl ea' ea ->
  find_sel (monos_sel na' ea' H P) c na' ea' H P = find_sel (monos_sel na ea H P) c na ea H P.
Proof. exact sel_same_members. Qed.
Print Assumptions C06_sel_same_members.

(** selecting MORE names can only remove matches (exhaustive strategy, thresholds not binding):
    every match under the larger selections is a match under the smaller ones *)
Theorem C06_sel_refines : forall (na na' ea ea' : list N) (T T' : N) (strict strict' : bool) (H P : rgraph),
  (NoDup (node_ids H) /\ forall a b x, In (a, b, x) (gedges H) -> In a (node_ids H) /\ In b (node_ids H) /\ a <> b) ->
  (NoDup (node_ids P) /\ forall a b x, In (a, b, x) (gedges P) -> In a (node_ids P) /\ In b (node_ids P) /\ a <> b) ->
  incl na na' -> incl ea ea' ->
  (lenN (monos_sel na ea H P (node_ids H) (node_ids P)) <= T)%N ->
  (lenN (monos_sel na' ea' H P (node_ids H) (node_ids P)) <= T')%N ->
  forall m, In m (find_sel (monos_sel na' ea' H P) (Cfg 0 0 T' strict' false) na' ea' H P) ->
  exists m', In m' (find_sel (monos_sel na ea H P) (Cfg 0 0 T strict false) na ea H P) /\ Permutation m m'.
Proof. exact sel_refines. Qed.
Print Assumptions C06_sel_refines.

(** ** 7. The VF2 calls of a search (model/C06_Trace.v): intermediate values compared on every case
    since round 5 - for every configuration the list of (host part, pattern part, number of
    monomorphisms pulled from the iterator), in call order ([trace], evaluated by [run_tr_set] /
    [run_tr_list]; the implementation's GraphMatcher is wrapped to count what is pulled). *)

(** how much of an enumeration one loop consumes: all of it, or [max_results] / [cc_limit] items,
    or threshold + 1 items - whichever comes first ([cap = 0] encodes None) *)
Theorem C06_pulled_closed : forall (cap thr : N) (it : list mapping),
  loop_n cap thr it 0 = N.min (lenN it) (N.min (if (cap =? 0)%N then lenN it else cap) (thr + 1)%N).
Proof. exact pulled_closed. Qed.
Print Assumptions C06_pulled_closed.

(** the exhaustive strategy depends on the enumeration only through the items it pulled: the
    monomorphisms VF2 would have listed later have no influence on the result *)
Theorem C06_all_depends_on_pulled : forall (enum : list N -> list N -> list mapping) (maxr thr : N) (H P : graph),
  find_all enum maxr thr H P =
  all_loop maxr thr (firstn (N.to_nat (loop_n maxr thr (enum (node_ids H) (node_ids P)) 0))
                            (enum (node_ids H) (node_ids P))) [] 0%N.
Proof. exact find_all_pulled. Qed.
Print Assumptions C06_all_depends_on_pulled.

(** every call of every configuration is on parts of the two graphs, pulls no more than the
    enumeration has and never more than threshold + 1 monomorphisms *)
Theorem C06_trace_calls : forall (enum : list N -> list N -> list mapping) (c : cfg) (H P : graph)
                                 (hn pn : list N) (k : N),
  In (hn, pn, k) (trace enum c H P) ->
  incl hn (node_ids H) /\ incl pn (node_ids P) /\ (k <= lenN (enum hn pn))%N /\ (k <= c_thr c + 1)%N.
Proof. exact (fun enum c H P hn pn k Hin => trace_ok enum c H P (hn, pn, k) Hin). Qed.
Print Assumptions C06_trace_calls.

(** ** 8. The second sentence of the property on the caller's graphs (dictionaries + selections).
    [comps (project na ea g)] lists the connectivity classes of [g] (C06_components; the projection
    keeps node ids and edges, and the list does not depend on the selections).  Connectivity is written
    out as the reflexive-transitive closure of "joined by an edge of the caller's graph". *)
Theorem C06_sel_comp_spec : forall (na ea : list N) (strict : bool) (H P : rgraph),
  (NoDup (node_ids H) /\ forall a b x, In (a, b, x) (gedges H) -> In a (node_ids H) /\ In b (node_ids H) /\ a <> b) ->
  (NoDup (node_ids P) /\ forall a b x, In (a, b, x) (gedges P) -> In a (node_ids P) /\ In b (node_ids P) /\ a <> b) ->
  exists T0 : N, forall T : N, (T0 <= T)%N ->
  let R := find_sel (monos_sel na ea H P) (Cfg 1 0 T strict false) na ea H P in
  let hcc := length (comps (project na ea H)) in
  let pcc := length (comps (project na ea P)) in
  let conn (g : rgraph) := clos_refl_trans N (fun a b => LGraph.adj g a b <> None) in
  let sep (m : mapping) := forall p h p' h', In (p, h) m -> In (p', h') m -> conn H h h' -> conn P p p' in
  NoDupA (@Permutation (N * N)) R /\
  if (0 <? pcc) && (pcc <? hcc) && strict then R = []
  else if hcc <? pcc then
    (forall m, In m R -> is_mono_sel na ea H P m) /\
    (forall m, is_mono_sel na ea H P m -> exists m', In m' R /\ Permutation m m')
  else
    (forall m, In m R -> is_mono_sel na ea H P m /\ sep m) /\
    (forall m, is_mono_sel na ea H P m -> sep m -> exists m', In m' R /\ Permutation m m').
Proof. exact sel_comp_spec. Qed.
Print Assumptions C06_sel_comp_spec.

(** [is_mono_sel] is the predicate written out as [good] in C06_sel_all_exact *)
Theorem C06_sel_spec_meaning : forall (na ea : list N) (H P : rgraph) (m : mapping),
  is_mono_sel na ea H P m <->
  NoDup (map fst m) /\ (forall p, In p (map fst m) <-> In p (node_ids P)) /\ NoDup (map snd m) /\
  (forall p h, In (p, h) m ->
     In h (node_ids H) /\
     (forall k, In k na -> aget k (fst (rlab H h)) = aget k (fst (rlab P p))) /\
     (hc (rlab P p) <= hc (rlab H h))%N) /\
  (forall p h p' h' b, In (p, h) m -> In (p', h') m -> LGraph.adj P p p' = Some b ->
     exists b', LGraph.adj H h h' = Some b' /\ forall k, In k ea -> aget k b' = aget k b).
Proof. intros na ea H P m. unfold is_mono_sel. reflexivity. Qed.
Print Assumptions C06_sel_spec_meaning.

Theorem C06_sel_bt_spec : forall (na ea : list N) (strict : bool) (H P : rgraph),
  exists T0 : N, forall T : N, (T0 <= T)%N ->
  find_sel (monos_sel na ea H P) (Cfg 2 0 T strict false) na ea H P =
  match find_sel (monos_sel na ea H P) (Cfg 1 0 T strict false) na ea H P with
  | [] => find_sel (monos_sel na ea H P) (Cfg 0 0 T strict false) na ea H P
  | primary => primary
  end.
Proof. exact sel_bt_spec. Qed.
Print Assumptions C06_sel_bt_spec.

(** ** 9. Histories (model/C06_Hist.v): the caller's two graph objects as state.  [run_history] - what the
    correspondence evaluates on the history populations since round 5 - carries the state through the
    script itself: in-place edits with networkx semantics ([apply_edit]), searches on the current state
    (arguments optionally swapped), caller-side mutations of earlier results.  The implementation runs the
    same script on ONE engine object and ONE pair of networkx objects; components, pre-filter verdict,
    result and VF2 calls of every search step are compared. *)

(** everything a search step answers (flags, components, pre-filter verdict, result, VF2 calls) is a
    function of the projections of the two objects onto the selections of that step *)
Theorem C06_hist_reads_projection : forall (na ea : list N) (H H' P P' : rgraph) (cfgs : list cfg),
  project na ea H = project na ea H' -> project na ea P = project na ea P' ->
  run_tr_set na ea H' P' cfgs = run_tr_set na ea H P cfgs.
Proof. exact run_tr_set_reads_projection. Qed.
Print Assumptions C06_hist_reads_projection.

(** hence an in-place edit of an attribute that the next search does not select (and that is not
    hcount) - set or deleted on a node, set on an edge, on either object - does not change the answer of
    that search ... *)
Theorem C06_hist_edit_invisible : forall (na ea : list N) (host_side swap : bool) (c : cfg) (H P : rgraph) (rest : list hstep),
  (forall u k v n, ~ In k na -> k <> HCOUNT_KEY ->
     hd_error (run_hist H P (HEdit host_side (ESetNodeAttr u k v n) :: HSearch swap na ea c :: rest)) =
     hd_error (run_hist H P (HSearch swap na ea c :: rest))) /\
  (forall u k, ~ In k na -> k <> HCOUNT_KEY ->
     hd_error (run_hist H P (HEdit host_side (EDelNodeAttr u k) :: HSearch swap na ea c :: rest)) =
     hd_error (run_hist H P (HSearch swap na ea c :: rest))) /\
  (forall a b k v, ~ In k ea ->
     hd_error (run_hist H P (HEdit host_side (ESetEdgeAttr a b k v) :: HSearch swap na ea c :: rest)) =
     hd_error (run_hist H P (HSearch swap na ea c :: rest))).
Proof.
  exact (fun na ea hs sw c H P rest =>
    conj (fun u k v n Hn Hk => hist_edit_invisible na ea (ESetNodeAttr u k v n) hs sw c H P rest (conj Hn Hk))
   (conj (fun u k Hn Hk => hist_edit_invisible na ea (EDelNodeAttr u k) hs sw c H P rest (conj Hn Hk))
         (fun a b k v Hn => hist_edit_invisible na ea (ESetEdgeAttr a b k v) hs sw c H P rest Hn))).
Qed.
Print Assumptions C06_hist_edit_invisible.

(** ... while results are values and searches do not change the state: mutating an earlier result is a
    no-op, and a repeated request is answered from the current state again (examples
    [ex_hist_bond_moved], [ex_hist_edit_seen] of proof/C06_Hist.v: an edit of a selected attribute, or a
    bond moved in place with node and edge counts unchanged, IS seen by the next search) *)
Theorem C06_hist_results_are_values : forall (H P : rgraph) (swap : bool) (na ea : list N) (c : cfg) (rest : list hstep),
  run_hist H P (HMutateResult :: rest) = run_hist H P rest /\
  run_hist H P (HSearch swap na ea c :: HSearch swap na ea c :: rest) =
  (if swap then run_tr_set na ea P H [c] else run_tr_set na ea H P [c]) :: run_hist H P (HSearch swap na ea c :: rest).
Proof. exact (fun H P swap na ea c rest => conj (hist_mutate_result_noop H P rest) (hist_search_pure swap na ea c H P rest)). Qed.
Print Assumptions C06_hist_results_are_values.

(** ** 10. The per-component embedding lists from the trace: the list the component-aware search
    collects for one pattern component ([per_cc[j]]: pairs of host-component index and embedding) is the
    concatenation, over the VF2 calls made for that component, of the pulled prefix of each enumeration
    ([pulled_items], lib/C06_TraceSpec.v) - so the compared trace together with the recorded
    enumerations determines this intermediate value *)
Theorem C06_per_cc_from_trace : forall (enum : list N -> list N -> list mapping) (cap thr : N) (pc : list N)
                                       (cands : list (nat * list N)) (maps : list (nat * mapping)),
  cc_outer enum cap thr pc cands [] 0%N = Some maps ->
  maps = pulled_items enum pc cands (cc_outer_calls enum cap thr pc cands 0%N).
Proof. exact per_cc_from_calls. Qed.
Print Assumptions C06_per_cc_from_trace.

(** ** 11. What the in-place edits do (networkx semantics, pointwise; [apply_edit] of model/C06_Hist.v is
    what [run_history] applies to the state and what the implementation's networkx objects are compared
    with at every search step) *)

(** [g.nodes[u][k] = v]: the entry has the new value, every other entry of every dictionary, the numeric
    hcounts (unless the name is "hcount"), the node list and the edges are unchanged *)
Theorem C06_edit_set_node_attr : forall (g : rgraph) (u k v n : N),
  let g' := apply_edit (ESetNodeAttr u k v n) g in
  node_ids g' = node_ids g /\ gedges g' = gedges g /\
  (In u (node_ids g) -> aget k (fst (rlab g' u)) = v) /\
  (forall x k', x <> u \/ k' <> k -> aget k' (fst (rlab g' x)) = aget k' (fst (rlab g x))) /\
  (forall x, x <> u \/ k <> HCOUNT_KEY -> hc (rlab g' x) = hc (rlab g x)) /\
  (In u (node_ids g) -> k = HCOUNT_KEY -> hc (rlab g' u) = n).
Proof. exact set_node_attr_spec. Qed.
Print Assumptions C06_edit_set_node_attr.

(** [g.remove_edge(a, b)] / [g.add_edge(a, b, **d)] (two existing nodes, not joined yet): exactly that
    pair changes, the nodes stay, the edge count goes down (by at most the entries of that pair) / up by one *)
Theorem C06_edit_bonds : forall (g : rgraph) (a b : N) (d : rattrs),
  (let g' := apply_edit (ERemoveEdge a b) g in
   gnodes g' = gnodes g /\ LGraph.adj g' a b = None /\
   (forall x y, ~ ((x = a /\ y = b) \/ (x = b /\ y = a)) -> LGraph.adj g' x y = LGraph.adj g x y) /\
   length (gedges g') <= length (gedges g)) /\
  (LGraph.adj g a b = None -> In a (node_ids g) -> In b (node_ids g) ->
   let g' := apply_edit (EAddEdge a b d) g in
   gnodes g' = gnodes g /\ LGraph.adj g' a b = Some d /\
   (forall x y, ~ ((x = a /\ y = b) \/ (x = b /\ y = a)) -> LGraph.adj g' x y = LGraph.adj g x y) /\
   length (gedges g') = S (length (gedges g))).
Proof. exact (fun g a b d => conj (remove_edge_spec g a b) (add_edge_spec g a b d)). Qed.
Print Assumptions C06_edit_bonds.

(** ** 12. Presentations: renaming node ids (bijection [f] with inverse [f'] between the node lists) and
    re-ordering the node / edge lists changes neither the labels nor the bonds ([presents], written out
    below).  The matches of (H, P) then correspond, through the renamings, to those of (H', P') - this is
    what justifies running ONE presentation per isomorphism class in the exhaustive populations. *)
Theorem C06_presents_meaning : forall (f f' : N -> N) (G G' : graph),
  presents f f' G G' <->
  (forall u, In u (node_ids G) -> In (f u) (node_ids G')) /\
  (forall u', In u' (node_ids G') -> In (f' u') (node_ids G)) /\
  (forall u, In u (node_ids G) -> f' (f u) = u) /\
  (forall u', In u' (node_ids G') -> f (f' u') = u') /\
  (forall u, In u (node_ids G) -> lab G' (f u) = lab G u) /\
  (forall u v, In u (node_ids G) -> In v (node_ids G) -> LGraph.adj G' (f u) (f v) = LGraph.adj G u v).
Proof.
  intros f f' G G'. split.
  - intros [A B C D E F]. repeat split; assumption.
  - intros (A & B & C & D & E & F). constructor; assumption.
Qed.
Print Assumptions C06_presents_meaning.

(** the specification is invariant: a monomorphism of (H, P), renamed, is a monomorphism of (H', P') *)
Theorem C06_mono_presentation_invariant : forall (f f' g g' : N -> N) (H H' P P' : graph) (m : mapping),
  presents f f' H H' -> presents g g' P P' -> is_mono H P m ->
  is_mono H' P' (map (fun ph => (g (fst ph), f (snd ph))) m).
Proof. exact is_mono_presents. Qed.
Print Assumptions C06_mono_presentation_invariant.

(** exhaustive strategy, no limits: every result for (H, P), renamed, is (as a set of pairs) a result for
    (H', P') - and conversely, by the same statement for the inverse renamings *)
Theorem C06_all_presentation_invariant :
  forall (enum enum' : list N -> list N -> list mapping) (T T' : N) (strict strict' : bool)
         (f f' g g' : N -> N) (H H' P P' : graph),
  presents f f' H H' -> presents g g' P P' ->
  vf2_contract enum H P (node_ids H) (node_ids P) -> vf2_contract enum' H' P' (node_ids H') (node_ids P') ->
  (lenN (enum (node_ids H) (node_ids P)) <= T)%N -> (lenN (enum' (node_ids H') (node_ids P')) <= T')%N ->
  forall m, In m (find enum (Cfg 0 0 T strict false) H P) ->
  exists m', In m' (find enum' (Cfg 0 0 T' strict' false) H' P') /\
             Permutation (map (fun ph => (g (fst ph), f (snd ph))) m) m'.
Proof. exact all_presentation_invariant. Qed.
Print Assumptions C06_all_presentation_invariant.

(** component-aware strategy, no limits: the same; inside, two presentations have the same number of
    components ([comps_count_presents]), so both fall into the same case of C06_comp_spec *)
Theorem C06_comp_presentation_invariant :
  forall (enum enum' : list N -> list N -> list mapping) (strict : bool) (f f' g g' : N -> N) (H H' P P' : graph),
  gwf H -> gwf P -> gwf H' -> gwf P' ->
  presents f f' H H' -> presents g g' P P' ->
  oracle_ok enum H P -> oracle_ok enum' H' P' ->
  exists T0 : N, forall T : N, (T0 <= T)%N ->
  forall m, In m (find enum (Cfg 1 0 T strict false) H P) ->
  exists m', In m' (find enum' (Cfg 1 0 T strict false) H' P') /\
             Permutation (map (fun ph => (g (fst ph), f (snd ph))) m) m'.
Proof. exact comp_presentation_invariant. Qed.
Print Assumptions C06_comp_presentation_invariant.

Theorem C06_component_count_invariant : forall (f f' : N -> N) (G G' : graph),
  gwf G -> gwf G' -> presents f f' G G' -> length (comps G') = length (comps G).
Proof. exact comps_count_presents. Qed.
Print Assumptions C06_component_count_invariant.

(** ** 13. Selections extended by names that no node (edge) of either graph carries: [dict.get] gives None on
    both sides, so such a name can be added to or dropped from [node_attrs] ([edge_attrs]) without changing
    any answer - for every configuration *)
Theorem C06_sel_unused_name : forall (k : N) (na ea : list N) (H P : rgraph) (c : cfg),
  ((forall u l, label H u = Some l -> aget k (fst l) = 0%N) ->
   (forall u l, label P u = Some l -> aget k (fst l) = 0%N) ->
   find_sel (monos_sel (k :: na) ea H P) c (k :: na) ea H P = find_sel (monos_sel na ea H P) c na ea H P) /\
  ((forall u v d, LGraph.adj H u v = Some d -> aget k d = 0%N) ->
   (forall u v d, LGraph.adj P u v = Some d -> aget k d = 0%N) ->
   find_sel (monos_sel na (k :: ea) H P) c na (k :: ea) H P = find_sel (monos_sel na ea H P) c na ea H P).
Proof.
  exact (fun k na ea H P c => conj (fun A B => sel_unused_node_name k na ea H P A B c)
                                   (fun A B => sel_unused_edge_name k na ea H P A B c)).
Qed.
Print Assumptions C06_sel_unused_name.

(** ** 14. The call with EVERY option omitted, on the caller's graphs (what [run_sel_api] evaluates for such a
    call; threshold 5000 not binding): [] as soon as the host has more components than a non-empty pattern,
    all monomorphisms when it has fewer, the separating ones otherwise *)
Theorem C06_sel_default_call : forall (na ea : list N) (H P : rgraph),
  (NoDup (node_ids H) /\ forall a b x, In (a, b, x) (gedges H) -> In a (node_ids H) /\ In b (node_ids H) /\ a <> b) ->
  (NoDup (node_ids P) /\ forall a b x, In (a, b, x) (gedges P) -> In a (node_ids P) /\ In b (node_ids P) /\ a <> b) ->
  (forall T', (5000 <= T')%N ->
     find_sel (monos_sel na ea H P) (Cfg 1 0 T' true false) na ea H P =
     find_sel (monos_sel na ea H P) (Cfg 1 0 5000 true false) na ea H P) ->
  exists R, find_api (monos_sel na ea H P) SDefault None None None None (project na ea H) (project na ea P) = Result R /\
  let hcc := length (comps (project na ea H)) in
  let pcc := length (comps (project na ea P)) in
  let conn (g : rgraph) := clos_refl_trans N (fun a b => LGraph.adj g a b <> None) in
  let sep (m : mapping) := forall p h p' h', In (p, h) m -> In (p', h') m -> conn H h h' -> conn P p p' in
  NoDupA (@Permutation (N * N)) R /\
  if (0 <? pcc) && (pcc <? hcc) then R = []
  else if hcc <? pcc then
    (forall m, In m R -> is_mono_sel na ea H P m) /\
    (forall m, is_mono_sel na ea H P m -> exists m', In m' R /\ Permutation m m')
  else
    (forall m, In m R -> is_mono_sel na ea H P m /\ sep m) /\
    (forall m, is_mono_sel na ea H P m -> sep m -> exists m', In m' R /\ Permutation m m').
Proof. exact sel_default_call. Qed.
Print Assumptions C06_sel_default_call.

(** ** 15. Non-interference over whole histories.  [agree_off k g1 g2] (lib/C06_HistSpec.v, written out in
    [C06_agree_off_meaning]): two states of a graph object that differ at most in the values stored under the
    node-attribute name [k].  Running the SAME script - any edits, of [k] or of anything else, on either object;
    result mutations; searches with arguments swapped or not - from two pairs of states that agree off [k]
    gives identical answers at every search that does not select [k]. *)
Theorem C06_agree_off_meaning : forall (k : N) (g1 g2 : rgraph),
  agree_off k g1 g2 <->
  gedges g1 = gedges g2 /\
  Forall2 (fun p1 p2 : N * rnlab =>
             fst p1 = fst p2 /\ snd (snd p1) = snd (snd p2) /\
             NoDup (map fst (fst (snd p1))) /\ NoDup (map fst (fst (snd p2))) /\
             forall k', k' <> k -> aget k' (fst (snd p1)) = aget k' (fst (snd p2)))
          (gnodes g1) (gnodes g2).
Proof. intros k g1 g2. unfold agree_off, dict_ok. reflexivity. Qed.
Print Assumptions C06_agree_off_meaning.

Theorem C06_hist_noninterference : forall (k : N) (steps : list hstep) (H1 H2 P1 P2 : rgraph),
  agree_off k H1 H2 -> agree_off k P1 P2 ->
  Forall (fun s => match s with
                   | HEdit _ (EAddNode _ l) => NoDup (map fst (fst l))     (* a created node has one entry per key *)
                   | HEdit _ _ => True
                   | HSearch _ na _ _ => ~ In k na
                   | HMutateResult => True
                   end) steps ->
  run_hist H1 P1 steps = run_hist H2 P2 steps.
Proof. exact hist_noninterference. Qed.
Print Assumptions C06_hist_noninterference.

(** the instance the histories exercise: an in-place edit [g.nodes[u][k] = v] ([k] not "hcount") of either
    object is never seen by a script in which no search selects [k] *)
Theorem C06_hist_edit_never_seen : forall (k u v n : N) (host_side : bool) (H P : rgraph) (steps : list hstep),
  k <> HCOUNT_KEY ->
  Forall (fun p : N * rnlab => NoDup (map fst (fst (snd p)))) (gnodes H) ->
  Forall (fun p : N * rnlab => NoDup (map fst (fst (snd p)))) (gnodes P) ->
  Forall (fun s => match s with
                   | HEdit _ (EAddNode _ l) => NoDup (map fst (fst l))
                   | HEdit _ _ => True
                   | HSearch _ na _ _ => ~ In k na
                   | HMutateResult => True
                   end) steps ->
  run_hist H P (HEdit host_side (ESetNodeAttr u k v n) :: steps) = run_hist H P steps.
Proof. exact hist_edit_never_seen. Qed.
Print Assumptions C06_hist_edit_never_seen.

(** the first entry of every compared history observable is the flag below; when it is true (the harness
    compares it with the constant true) the dictionaries of the two initial objects and of every created node
    have one entry per key - the well-formedness premises of the theorems above and of section 17 *)
Theorem C06_hist_premise_monitor : forall (H P : rgraph) (steps : list hstep),
  state_okb H && state_okb P && forallb step_okb steps = true ->
  (Forall (fun p : N * rnlab => NoDup (map fst (fst (snd p)))) (gnodes H) /\
   Forall (fun e : N * N * rattrs => NoDup (map fst (snd e))) (gedges H)) /\
  (Forall (fun p : N * rnlab => NoDup (map fst (fst (snd p)))) (gnodes P) /\
   Forall (fun e : N * N * rattrs => NoDup (map fst (snd e))) (gedges P)) /\
  Forall (fun s => match s with
                   | HEdit _ (EAddNode _ l) => NoDup (map fst (fst l))
                   | HEdit _ (EAddEdge _ _ d) => NoDup (map fst d)
                   | _ => True
                   end) steps.
Proof. exact hist_monitor. Qed.
Print Assumptions C06_hist_premise_monitor.

(** ** 16. The calls of the trace are exactly of the two kinds the premise [oracle_ok] constrains - the
    whole host against the whole pattern, or a pattern component against a host component that is large
    enough - so under [oracle_ok] every enumeration the search pulls from meets the VF2 contract, and the
    premise asks for nothing the code does not call *)
Theorem C06_trace_calls_covered : forall (enum : list N -> list N -> list mapping) (c : cfg) (H P : graph)
                                         (hn pn : list N) (k : N),
  In (hn, pn, k) (trace enum c H P) ->
  (hn = node_ids H /\ pn = node_ids P) \/
  (In hn (comps H) /\ In pn (comps P) /\ length pn <= length hn).
Proof. exact (fun enum c H P hn pn k Hin => trace_kind enum c H P (hn, pn, k) Hin). Qed.
Print Assumptions C06_trace_calls_covered.

Theorem C06_trace_calls_under_contract : forall (enum : list N -> list N -> list mapping) (c : cfg) (H P : graph)
                                                (hn pn : list N) (k : N),
  oracle_ok enum H P -> In (hn, pn, k) (trace enum c H P) -> vf2_contract enum H P hn pn.
Proof. exact (fun enum c H P hn pn k => trace_calls_under_contract enum c H P hn pn k). Qed.
Print Assumptions C06_trace_calls_under_contract.

(** ** 17. The same for EDGE-attribute names: states that differ at most in the values stored under the
    edge-attribute name [k] (same nodes; edges with the same end points in the same order, one entry per key,
    the same [dict.get] for every other name) cannot be told apart by searches whose [edge_attrs] do not
    contain [k], whatever edits are interleaved *)
Theorem C06_hist_noninterference_edge : forall (k : N) (steps : list hstep) (H1 H2 P1 P2 : rgraph),
  (gnodes H1 = gnodes H2 /\
   Forall2 (fun e1 e2 : N * N * rattrs =>
              fst (fst e1) = fst (fst e2) /\ snd (fst e1) = snd (fst e2) /\
              NoDup (map fst (snd e1)) /\ NoDup (map fst (snd e2)) /\
              forall k', k' <> k -> aget k' (snd e1) = aget k' (snd e2)) (gedges H1) (gedges H2)) ->
  (gnodes P1 = gnodes P2 /\
   Forall2 (fun e1 e2 : N * N * rattrs =>
              fst (fst e1) = fst (fst e2) /\ snd (fst e1) = snd (fst e2) /\
              NoDup (map fst (snd e1)) /\ NoDup (map fst (snd e2)) /\
              forall k', k' <> k -> aget k' (snd e1) = aget k' (snd e2)) (gedges P1) (gedges P2)) ->
  Forall (fun s => match s with
                   | HEdit _ (EAddEdge _ _ d) => NoDup (map fst d)
                   | HEdit _ _ => True
                   | HSearch _ _ ea _ => ~ In k ea
                   | HMutateResult => True
                   end) steps ->
  run_hist H1 P1 steps = run_hist H2 P2 steps.
Proof. exact hist_noninterference_edge. Qed.
Print Assumptions C06_hist_noninterference_edge.

Theorem C06_hist_edge_edit_never_seen : forall (k a b v : N) (host_side : bool) (H P : rgraph) (steps : list hstep),
  Forall (fun e : N * N * rattrs => NoDup (map fst (snd e))) (gedges H) ->
  Forall (fun e : N * N * rattrs => NoDup (map fst (snd e))) (gedges P) ->
  Forall (fun s => match s with
                   | HEdit _ (EAddEdge _ _ d) => NoDup (map fst d)
                   | HEdit _ _ => True
                   | HSearch _ _ ea _ => ~ In k ea
                   | HMutateResult => True
                   end) steps ->
  run_hist H P (HEdit host_side (ESetEdgeAttr a b k v) :: steps) = run_hist H P steps.
Proof. exact hist_edge_edit_never_seen. Qed.
Print Assumptions C06_hist_edge_edit_never_seen.

(** ** 18. Degenerate inputs.  The empty pattern has exactly one embedding - the empty map - into every host
    (empty or not), for every strategy, cap, strict flag and pre-filter setting, as soon as the threshold is
    at least 1 (threshold 0 is a real threshold: the one-element result is emptied); a non-empty pattern has
    no embedding into the empty host. *)
Theorem C06_empty_pattern : forall (strat maxr T : N) (strict pref : bool) (H : graph),
  (1 <= T)%N ->
  find (monos_on H (LG [] [])) (Cfg strat maxr T strict pref) H (LG [] []) = [[]].
Proof. exact empty_pattern. Qed.
Print Assumptions C06_empty_pattern.

Theorem C06_empty_host : forall (enum : list N -> list N -> list mapping) (c : cfg) (P : graph),
  gwf P -> node_ids P <> [] -> enum [] (node_ids P) = [] ->
  find enum c (LG [] []) P = [].
Proof. exact empty_host. Qed.
Print Assumptions C06_empty_host.

(** ** 19. The hydrogen-count clause is a lower bound: a host that differs only by LARGER hcounts (same node
    ids, same values under every selected name, same bonds) keeps every match of the exhaustive search *)
Theorem C06_sel_hcount_raise : forall (na ea : list N) (T T' : N) (strict strict' : bool) (H H' P : rgraph),
  (NoDup (node_ids H) /\ forall a b x, In (a, b, x) (gedges H) -> In a (node_ids H) /\ In b (node_ids H) /\ a <> b) ->
  (NoDup (node_ids H') /\ forall a b x, In (a, b, x) (gedges H') -> In a (node_ids H') /\ In b (node_ids H') /\ a <> b) ->
  (NoDup (node_ids P) /\ forall a b x, In (a, b, x) (gedges P) -> In a (node_ids P) /\ In b (node_ids P) /\ a <> b) ->
  node_ids H' = node_ids H ->
  (forall u k, In k na -> aget k (fst (rlab H' u)) = aget k (fst (rlab H u))) ->
  (forall u, (hc (rlab H u) <= hc (rlab H' u))%N) ->
  (forall u v, LGraph.adj H' u v = LGraph.adj H u v) ->
  (lenN (monos_sel na ea H P (node_ids H) (node_ids P)) <= T)%N ->
  (lenN (monos_sel na ea H' P (node_ids H') (node_ids P)) <= T')%N ->
  forall m, In m (find_sel (monos_sel na ea H P) (Cfg 0 0 T strict false) na ea H P) ->
  exists m', In m' (find_sel (monos_sel na ea H' P) (Cfg 0 0 T' strict' false) na ea H' P) /\ Permutation m m'.
Proof. exact sel_hcount_raise. Qed.
Print Assumptions C06_sel_hcount_raise.

(** ** 20. Where the code, kept as it is, violates the property text read literally (both are documented
    behaviour of the library; known findings [C06:comp-strict-cc-guard] and [C06:per-component-threshold-guard]
    in known_findings.d/C06.json, witnesses replayed on the implementation on every run from
    corpus/regress/C06/known_deviations.json). *)

(** clause "the component-aware strategy returns exactly those that send different pattern components into
    different host components" is FALSE under the default [strict_cc_count = True] when the host has more
    components than a non-empty pattern (first case of C06_comp_spec): a separating monomorphism exists, the
    default call returns [], [strict_cc_count = False] returns it.  (The clause holds for [strict_cc_count = False]
    and whenever the host does not have more components: cases two and three of C06_comp_spec.) *)
Theorem C06_comp_strict_refuted :
  exists (H P : graph) (m : mapping),
    gwf H /\ gwf P /\ is_mono H P m /\ separating H P m /\
    length (comps P) < length (comps H) /\
    find (monos_on H P) (Cfg 1 0 5000 true false) H P = [] /\
    In m (find (monos_on H P) (Cfg 1 0 5000 false false) H P).
Proof. exact comp_strict_refuted. Qed.
Print Assumptions C06_comp_strict_refuted.

(** clause "result limits only truncate the list or, past the threshold, empty it" is FALSE for the
    component-aware and the fallback strategy when one pattern component alone has more than [threshold]
    embeddings (second alternative of C06_limits): the unlimited result has 3 mappings, threshold 3 is not
    exceeded, [] is returned.  (The clause holds without exception for the exhaustive strategy:
    C06_limits_all.) *)
Theorem C06_limits_comp_refuted :
  exists (H P : graph) (thr : N),
    let U := find (monos_on H P) (Cfg 1 0 5000 true false) H P in
    lenN U = 3%N /\ thr = 3%N /\
    limit 0 thr U = U /\
    find (monos_on H P) (Cfg 1 0 thr true false) H P = [] /\
    find (monos_on H P) (Cfg 2 0 thr true false) H P = [] /\
    find (monos_on H P) (Cfg 1 0 thr true false) H P <> limit 0 thr U.
Proof. exact limits_comp_refuted. Qed.
Print Assumptions C06_limits_comp_refuted.

(** ** 21. A checkable sufficient condition for the premise "the threshold is not binding" of C06_default_call /
    C06_sel_default_call.  [comp_bound enum strict H P] (proof/C06_Comp.v) is the maximum of the length of the
    limit-free component-aware result ([comp_unl]) and, over the pattern components, of the number of embeddings
    of that component into the large-enough host components ([percc_of]); it is computed by [vm_compute]
    ([ex_not_binding], [ex_sel_default_call]).  From that threshold on the component-aware result is stable. *)
Theorem C06_not_binding_checkable : forall (enum : list N -> list N -> list mapping) (strict : bool) (H P : graph) (T : N),
  (comp_bound enum strict H P <= T)%N ->
  forall T', (T <= T')%N ->
  find enum (Cfg 1 0 T' strict false) H P = find enum (Cfg 1 0 T strict false) H P.
Proof.
  intros enum strict H P T HT T' HT'.
  rewrite !(find_comp_unlimited enum); [reflexivity|exact HT|exact (N.le_trans _ _ _ HT HT')].
Qed.
Print Assumptions C06_not_binding_checkable.
