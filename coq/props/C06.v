(** C06 — subgraph search returns exactly the label-preserving monomorphisms.
    Statements only; every proof is [exact <lemma of proof/C06_*.v>].
    Vocabulary (lib/C06_Spec.v, definitions only): [is_mono_on], [is_mono], [gconn],
    [separating], [vf2_contract], [oracle_ok], [limit]; model: model/C06_Model.v.
    The model is a pure function of its inputs, so "without modifying its inputs" holds in
    the model by construction; for the Python code the adapter deep-compares host and
    pattern before/after every call (monitor, listed under TESTED_NOT_PROVED). *)
From Coq Require Import List NArith Bool Permutation SetoidList Relations.
From SK Require Import lib.LGraph lib.Mono model.C06_Model lib.C06_Spec proof.C06_All.
Import ListNotations.

(** ** 0. What the specification predicates say, written out *)
Theorem C06_spec_meaning : forall (H P : graph) (hn pn : list N) (m : mapping),
  is_mono_on H P hn pn m <->
  (* a function defined exactly on the pattern nodes *)
  NoDup (map fst m) /\ (forall p, In p (map fst m) <-> In p pn) /\
  (* injective *)
  NoDup (map snd m) /\
  (* into the host nodes; selected node attributes equal, host hcount >= pattern hcount *)
  (forall p h, In (p, h) m ->
     In h hn /\ fst (lab H h) = fst (lab P p) /\ (snd (lab P p) <= snd (lab H h))%N) /\
  (* every pattern edge lands on a host edge with equal selected edge attributes *)
  (forall p h p' h' b, In (p, h) m -> In (p', h') m -> LGraph.adj P p p' = Some b ->
     LGraph.adj H h h' = Some b).
Proof. exact is_mono_on_meaning. Qed.
Print Assumptions C06_spec_meaning.

(** ** 1. Exhaustive strategy *)
(** no limits ([max_results] None, threshold not below the number of matches): the result
    is sound, complete and duplicate-free (mappings compared as sets of pairs), under the
    VF2 contract for the one enumeration call the strategy makes *)
Theorem C06_all_exact : forall (enum : list N -> list N -> list mapping) (T : N) (strict : bool) (H P : graph),
  vf2_contract enum H P (node_ids H) (node_ids P) ->
  (lenN (enum (node_ids H) (node_ids P)) <= T)%N ->
  let R := find enum (Cfg 0 0 T strict false) H P in
  (forall m, In m R -> is_mono H P m) /\
  (forall m, is_mono H P m -> exists m', In m' R /\ Permutation m m') /\
  NoDupA (@Permutation (N * N)) R.
Proof. exact all_exact. Qed.
Print Assumptions C06_all_exact.

(** the contract is satisfiable, and the enumerator the harness monitors VF2 against meets
    it: with [enum := monos_on H P] (what [run_set] evaluates) no premise about VF2 is left *)
Theorem C06_enumerator_meets_contract : forall (H P : graph), gwf P ->
  forall hn pn, NoDup hn -> NoDup pn -> vf2_contract (monos_on H P) H P hn pn.
Proof. exact monos_on_contract. Qed.
Print Assumptions C06_enumerator_meets_contract.

(** ** 4. Result limits, exhaustive strategy: for every [max_results] and [threshold] the
    public entry point returns the prefix of length min(max_results, #matches) of the
    unlimited listing, or [] when that length exceeds the threshold — nothing else *)
Theorem C06_limits_all : forall (enum : list N -> list N -> list mapping) (maxr thr : N) (strict : bool) (H P : graph),
  find enum (Cfg 0 maxr thr strict false) H P =
  let U := enum (node_ids H) (node_ids P) in
  let k := if (maxr =? 0)%N then lenN U else N.min maxr (lenN U) in
  if (thr <? k)%N then [] else firstn (N.to_nat k) U.
Proof. exact find_all_limits. Qed.
Print Assumptions C06_limits_all.
