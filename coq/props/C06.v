From Coq Require Import List NArith Bool.
From SK Require Import lib.LGraph lib.Mono model.C06_Model proof.C06_Proof.
Theorem C06_stub : forall n, capped 0 n = false. Proof. exact capped_0. Qed.
Print Assumptions C06_stub.
