(** C19 — complexes, linkage classes, weak reversibility and deficiency of model/C19_Model.v (the model of
    synkit/CRN/Props/deficiency.py after the repair of the edge walk).
    Vocabulary (defined in proof/C17_Proof.v, proof/C19_Complexes.v, proof/C19_Linkage.v):
      amount s sd        coefficient of species s in the side (multiset) sd
      side_vec net iso sd  the side as a vector over the sorted species list
      dpath arcs u w     directed path u -> ... -> w along the arcs of the complex graph
      upath arcs u w     undirected path (each step follows an arc forwards or backwards)
      nn                 N.of_nat (complex indices are stored as N in the classes) *)
From Coq Require Import List NArith ZArith.
Require mathcomp.algebra.mxalgebra mathcomp.algebra.matrix mathcomp.algebra.rat.
Require SK.lib.RankBridge SK.proof.C19_Rank SK.proof.C19_ClassRank SK.proof.C19_Nullity SK.proof.C19_SumExact.
From SK Require Import lib.Reach model.C17_Model model.C19_Model model.C19_Api model.C19_Text model.C19_Fast model.C17_NodeModel model.C19_Nodes proof.C19_FastProof proof.C19_TextProof proof.C19_ApiProof proof.C19_NodesProof proof.C17_Proof proof.C19_Proof proof.C19_Complexes proof.C19_Linkage proof.C19_Regular proof.C19_DefOne.
Import ListNotations.

(** (1) complexes = the distinct reactant and product multisets: the list has no duplicate, a vector is in it iff it is
        the reactant or the product side of some reaction, and two sides give the same vector iff they are the same
        multiset (same coefficient for every species). *)
Theorem C19_complexes : forall (net : list rxn) (iso : list str), NoDup (map rid net) ->
  let cs := fst (complex_graph net iso) in
  NoDup cs /\
  (forall v, In v cs <-> exists e, In e net /\ (v = side_vec net iso (rlhs e) \/ v = side_vec net iso (rrhs e))) /\
  (forall ro1 e1 ro2 e2, In e1 net -> In e2 net ->
     (side_vec net iso (side_of ro1 e1) = side_vec net iso (side_of ro2 e2) <->
      forall s, amount s (side_of ro1 e1) = amount s (side_of ro2 e2))).
Proof. exact complexes_spec. Qed.
Print Assumptions C19_complexes.

(** (1b) the complex graph: an arc u -> v (no duplicates) iff some reaction has reactant complex number u and product
         complex number v. *)
Theorem C19_complex_graph : forall (net : list rxn) (iso : list str), NoDup (map rid net) ->
  let cs := fst (complex_graph net iso) in
  let arcs := snd (complex_graph net iso) in
  NoDup arcs /\
  forall u v, In (u, v) arcs <->
    exists e, In e net /\ nth_error cs u = Some (side_vec net iso (rlhs e)) /\ nth_error cs v = Some (side_vec net iso (rrhs e)).
Proof. exact complex_arcs_spec. Qed.
Print Assumptions C19_complex_graph.

(** (2) linkage classes = connected components of the undirected complex graph: the classes partition the complex
        indices 0..k-1 (their concatenation has no duplicate and covers exactly the indices; no class is empty), two
        complexes lie in the same class iff an undirected path joins them; n_linkage is the number of classes.
        (The saturation fuel k+1 of the model always suffices: a closure that ran out of fuel would be empty.) *)
Theorem C19_linkage : forall (net : list rxn) (iso : list str),
  let cs := fst (complex_graph net iso) in
  let arcs := snd (complex_graph net iso) in
  let k := length cs in
  let L := linkage_classes arcs k in
  (forall r, n_linkage (compute_summary net iso r) = length L) /\
  NoDup (concat L) /\
  (forall y, In y (concat L) <-> exists i, i < k /\ y = nn i) /\
  (forall c, In c L -> NoDup c /\ c <> []) /\
  (forall i j, i < k -> j < k -> ((exists c, In c L /\ In (nn i) c /\ In (nn j) c) <-> upath arcs i j)).
Proof. exact net_linkage. Qed.
Print Assumptions C19_linkage.

(** (2b) fuel sufficiency: the saturation closures of the model (undirected, forward, backward; fuel = number of complexes + 1)
         never run out of fuel. *)
Theorem C19_fuel : forall (net : list rxn) (iso : list str) (u : nat),
  let arcs := snd (complex_graph net iso) in
  let k := length (fst (complex_graph net iso)) in
  u < k ->
  saturate (und_nbr arcs) (S k) [nn u] <> None /\
  saturate (succs arcs) (S k) [nn u] <> None /\
  saturate (preds arcs) (S k) [nn u] <> None.
Proof. exact net_fuel. Qed.
Print Assumptions C19_fuel.

(** (3) weak reversibility: the verdict is true iff every linkage class is strongly connected, iff every reaction arc
        y -> y' has a directed return path y' -> ... -> y. *)
Theorem C19_weak_rev : forall (net : list rxn) (iso : list str) (r : nat),
  let arcs := snd (complex_graph net iso) in
  let k := length (fst (complex_graph net iso)) in
  (weakly_rev (compute_summary net iso r) = true <->
   forall c, In c (linkage_classes arcs k) -> forall i j, In (nn i) c -> In (nn j) c -> dpath arcs i j) /\
  (weakly_rev (compute_summary net iso r) = true <-> forall u v, In (u, v) arcs -> dpath arcs v u).
Proof. exact net_weak_rev. Qed.
Print Assumptions C19_weak_rev.

(** (3b) the same in terms of the reactions: weakly reversible iff for every reaction y -> y' (y, y' the numbers of its reactant
         and product complexes) the complex graph has a directed path y' -> ... -> y. *)
Theorem C19_weak_rev_reactions : forall (net : list rxn) (iso : list str) (r : nat), NoDup (map rid net) ->
  let cs := fst (complex_graph net iso) in
  let arcs := snd (complex_graph net iso) in
  (weakly_rev (compute_summary net iso r) = true <->
   forall e u v, In e net ->
     nth_error cs u = Some (side_vec net iso (rlhs e)) -> nth_error cs v = Some (side_vec net iso (rrhs e)) ->
     dpath arcs v u).
Proof. exact net_weak_rev_reactions. Qed.
Print Assumptions C19_weak_rev_reactions.

(** (4a) the reported deficiency is n - l - r for the rank r handed to the summary. *)
Theorem C19_deficiency_formula : forall net iso r,
  let s := compute_summary net iso r in
  deficiency s = (Z.of_nat (n_complexes s) - Z.of_nat (n_linkage s) - Z.of_nat (stoich_rank s))%Z.
Proof. exact deficiency_formula. Qed.
Print Assumptions C19_deficiency_formula.

(** (4) deficiency = (number of complexes) - (number of linkage classes) - (EXACT rank of the stoichiometric matrix):
        whenever the rank certificate is accepted by the proved checker, the rank used by the summary is MathComp's rank
        over the rationals of build_S (the matrix of C17), and the deficiency is n - l - that rank.  (numpy's float rank
        enters only through the per-run correspondence: it is compared with the certified rank.) *)
Theorem C19_deficiency : forall (net : list rxn) (iso : list str) (rc : rcert),
  let m := length (species_order net iso) in
  let n := length (reaction_order net) in
  let S := build_S net iso in
  let F := mathcomp.algebra.rat.rat_fieldType in
  let rankS := @mathcomp.algebra.mxalgebra.mxrank F m n (SK.lib.RankBridge.toM m n S) in
  rank_checked m n S rc = true ->
  let s := compute_summary net iso (rc_r rc) in
  stoich_rank s = rankS /\
  deficiency s = (Z.of_nat (n_complexes s) - Z.of_nat (n_linkage s) - Z.of_nat rankS)%Z.
Proof. exact SK.proof.C19_Rank.deficiency_exact. Qed.
Print Assumptions C19_deficiency.

(** (5a) for EVERY network: exact rank of S + number of linkage classes <= number of complexes
         (S = Y * I_a; the class indicator vectors are independent and annihilate the incidence matrix I_a). *)
Theorem C19_rank_bound : forall (net : list rxn) (iso : list str),
  let m := length (species_order net iso) in
  let n := length (reaction_order net) in
  let F := mathcomp.algebra.rat.rat_fieldType in
  let rankS := @mathcomp.algebra.mxalgebra.mxrank F m n (SK.lib.RankBridge.toM m n (build_S net iso)) in
  forall r, let s := compute_summary net iso r in
  rankS + n_linkage s <= n_complexes s.
Proof. intros net iso m n F rankS r. exact (SK.proof.C19_Rank.rank_bound_le net iso r). Qed.
Print Assumptions C19_rank_bound.

(** (5b) the deficiency is never negative (with the exact, certificate-checked rank). *)
Theorem C19_nonneg : forall (net : list rxn) (iso : list str) (rc : rcert),
  rank_checked (length (species_order net iso)) (length (reaction_order net)) (build_S net iso) rc = true ->
  (0 <= deficiency (compute_summary net iso (rc_r rc)))%Z.
Proof. exact SK.proof.C19_Rank.deficiency_nonneg. Qed.
Print Assumptions C19_nonneg.

(** (6) the linkage-class deficiencies n_c - 1 - s_c never sum to more than the network deficiency, with all ranks exact
         (every certificate — S and one per class — accepted by the proved checker; certs_ok is part of the observable
         compared on every run).  Core lemma (proof/C19_Rank.v rank_le_class_ranks, for every network): the exact rank of S is
         at most the sum over the classes of the exact ranks of their difference vectors. *)
Theorem C19_linkage_sum : forall (net : list rxn) (iso : list str) (rc : rcert) (ccs : list rcert),
  certs_ok net iso rc ccs = true ->
  let L := linkage_classes (snd (complex_graph net iso)) (length (fst (complex_graph net iso))) in
  (zsum (linkage_deficiencies L (map rc_r ccs)) <= deficiency (compute_summary net iso (rc_r rc)))%Z.
Proof. exact SK.proof.C19_Rank.linkage_sum. Qed.
Print Assumptions C19_linkage_sum.

(** (6b) each linkage-class deficiency is n_c - 1 - (EXACT rank of the class's non-zero difference vectors y' - y). *)
Theorem C19_class_deficiency : forall (net : list rxn) (iso : list str) (rc : rcert) (ccs : list rcert) (c : nat),
  certs_ok net iso rc ccs = true ->
  let cs := fst (complex_graph net iso) in
  let arcs := snd (complex_graph net iso) in
  let L := linkage_classes arcs (length cs) in
  let m := length (species_order net iso) in
  let D := class_diffs cs arcs (nth c L []) in
  let F := mathcomp.algebra.rat.rat_fieldType in
  c < length L ->
  nth c (linkage_deficiencies L (map rc_r ccs)) 0%Z
  = (Z.of_nat (length (nth c L [])) - 1
     - Z.of_nat (@mathcomp.algebra.mxalgebra.mxrank F (length D) m (SK.lib.RankBridge.toM (length D) m D)))%Z.
Proof. exact SK.proof.C19_Rank.class_deficiency_exact. Qed.
Print Assumptions C19_class_deficiency.

(** (6c) for EVERY network and every linkage class: exact rank of the class's difference vectors + 1 <= size of the class
         (the class is connected: same argument as (5a) with the vertices outside the class as singleton classes) ... *)
Theorem C19_class_rank_bound : forall (net : list rxn) (iso : list str) (c : nat),
  let cs := fst (complex_graph net iso) in
  let arcs := snd (complex_graph net iso) in
  let L := linkage_classes arcs (length cs) in
  let m := length (species_order net iso) in
  let D := class_diffs cs arcs (nth c L []) in
  let F := mathcomp.algebra.rat.rat_fieldType in
  c < length L ->
  @mathcomp.algebra.mxalgebra.mxrank F (length D) m (SK.lib.RankBridge.toM (length D) m D) + 1 <= length (nth c L []).
Proof. exact SK.proof.C19_ClassRank.class_rank_bound_le. Qed.
Print Assumptions C19_class_rank_bound.

(** (6d) ... hence every linkage-class deficiency is >= 0 (all ranks exact). *)
Theorem C19_class_nonneg : forall (net : list rxn) (iso : list str) (rc : rcert) (ccs : list rcert) (c : nat),
  certs_ok net iso rc ccs = true ->
  let L := linkage_classes (snd (complex_graph net iso)) (length (fst (complex_graph net iso))) in
  c < length L ->
  (0 <= nth c (linkage_deficiencies L (map rc_r ccs)) 0%Z)%Z.
Proof. exact SK.proof.C19_ClassRank.class_deficiency_nonneg. Qed.
Print Assumptions C19_class_nonneg.

(** (9) check_regularity: true iff every linkage class has exactly one terminal strongly connected component, i.e. it
        contains a terminal complex (everything reachable from it leads back to it) and any two terminal complexes of the
        class reach each other. *)
Theorem C19_regular : forall (net : list rxn) (iso : list str),
  let arcs := snd (complex_graph net iso) in
  let k := length (fst (complex_graph net iso)) in
  regular arcs k = true <->
  forall c, In c (linkage_classes arcs k) ->
    (exists v, In (nn v) c /\ (forall w, dpath arcs v w -> dpath arcs w v)) /\
    (forall v w, In (nn v) c -> In (nn w) c ->
       (forall x, dpath arcs v x -> dpath arcs x v) -> (forall x, dpath arcs w x -> dpath arcs x w) -> dpath arcs v w).
Proof. exact net_regular. Qed.
Print Assumptions C19_regular.

(** (10) the deficiency-zero front end: true iff deficiency 0 and every reaction arc has a return path. *)
Theorem C19_deficiency_zero : forall (net : list rxn) (iso : list str) (r : nat),
  let arcs := snd (complex_graph net iso) in
  let s := compute_summary net iso r in
  check_deficiency_zero s = true <-> deficiency s = 0%Z /\ forall u v, In (u, v) arcs -> dpath arcs v u.
Proof. exact net_deficiency_zero. Qed.
Print Assumptions C19_deficiency_zero.

(** (11) the deficiency-one front ends (check_deficiency_one, hypotheses_satisfied of run_deficiency_one_algorithm). *)
Theorem C19_deficiency_one : forall (s : summary) (ld : list Z) (reg : bool),
  (check_deficiency_one s ld = true <->
   deficiency s = 1%Z /\ length ld = n_linkage s /\ Forall (fun d => (d <= 1)%Z) ld /\ zsum ld = 1%Z) /\
  (deficiency_one_hypotheses s ld reg = true <->
   deficiency s = 1%Z /\ zsum ld = 1%Z /\ ld <> [] /\ Forall (fun d => (d <= 1)%Z) ld /\ reg = true).
Proof. intros s ld reg. split; [apply deficiency_one_spec | apply deficiency_one_hypotheses_spec]. Qed.
Print Assumptions C19_deficiency_one.

(** (12) when the deficiency-one front end answers true (all ranks exact): exactly one linkage class has deficiency 1 and every
         other class has deficiency 0. *)
Theorem C19_deficiency_one_unique_class : forall (net : list rxn) (iso : list str) (rc : rcert) (ccs : list rcert),
  certs_ok net iso rc ccs = true ->
  let L := linkage_classes (snd (complex_graph net iso)) (length (fst (complex_graph net iso))) in
  let ld := linkage_deficiencies L (map rc_r ccs) in
  check_deficiency_one (compute_summary net iso (rc_r rc)) ld = true ->
  exists c, c < length L /\ nth c ld 0%Z = 1%Z /\ forall c', c' < length L -> c' <> c -> nth c' ld 0%Z = 0%Z.
Proof. exact deficiency_one_unique_class. Qed.
Print Assumptions C19_deficiency_one_unique_class.

(** (13) the counts in the summary: species of the network (occurring or kept), reactions, complexes. *)
Theorem C19_counts : forall (net : list rxn) (iso : list str) (r : nat),
  let s := compute_summary net iso r in
  n_species s = length (species_set net iso) /\ n_reactions s = length net /\
  n_complexes s = length (fst (complex_graph net iso)).
Proof. exact summary_counts. Qed.
Print Assumptions C19_counts.

(** (7) documentation of the repaired defect (/repo 0eb35ff): the walk over G.edges(r) only (out-arcs of the reaction node
        = product arcs) gives A + B -> C, C -> A + B three complexes, one of them the zero vector that is no side of any
        reaction; the repaired walk gives the two complexes. *)
Theorem C19_outarcs_only_refuted :
  exists net, NoDup (map rid net) /\
    fst (complex_graph net []) = [[1;1;0]; [0;0;1]]%Z /\
    fst (complex_graph_outarcs_only net []) = [[0;0;0]; [0;0;1]; [1;1;0]]%Z /\
    ~ (forall v, In v (fst (complex_graph_outarcs_only net [])) ->
         exists e, In e net /\ (v = side_vec net [] (rlhs e) \/ v = side_vec net [] (rrhs e))).
Proof. exact outarcs_only_refuted. Qed.
Print Assumptions C19_outarcs_only_refuted.

(** (8) call histories on ONE analyzer object (network edited between the analyses): the model's state machine keeps no
        information from one analysis to the next — the k-th answer is the answer of a fresh analysis of the k-th network.
        (The correspondence runs real histories on one DeficiencyAnalyzer; the oracle compares every answer with a fresh one.) *)
Theorem C19_history_stateless : forall steps : list hist_step,
  run19_hist steps = SK.lib.Tok.L (map (fun x => run19 (fst (fst (fst x))) (snd (fst (fst x))) (snd (fst x)) (snd x)) steps).
Proof. exact run19_hist_stateless. Qed.
Print Assumptions C19_history_stateless.

(** (14) documentation of the defect repaired in round 3 (/repo a58b70a): an UNDIRECTED bipartite input was converted with
         nx.DiGraph(U) (both directions per incidence), so every coefficient was counted twice: in general the vectors are
         doubled, and A + B -> C, C -> A + B got the complexes (2,2,0), (0,0,2), which are no sides of any reaction. *)
Theorem C19_undirected_input_refuted :
  (forall ro net iso e, cvec_undirected_doubled ro net iso e = map (fun z => (2 * z)%Z) (cvec ro net iso e)) /\
  exists net, NoDup (map rid net) /\
    fst (complex_graph net []) = [[1;1;0]; [0;0;1]]%Z /\
    fst (complex_graph_undirected_doubled net []) = [[2;2;0]; [0;0;2]]%Z /\
    ~ (forall v, In v (fst (complex_graph_undirected_doubled net [])) ->
         exists e, In e net /\ (v = side_vec net [] (rlhs e) \/ v = side_vec net [] (rrhs e))).
Proof. split; [exact cvec_undirected_doubled_eq | exact undirected_input_refuted]. Qed.
Print Assumptions C19_undirected_input_refuted.

(** (15) the staged state machine of the analyzer (compute_summary / compute_linkage_deficiencies /
         run_deficiency_one_algorithm; routes 0 = compute_crn_deficiency, 1 = the three stages by hand, 2 = summary + front end):
         from ANY previous state every route leaves exactly the fresh analysis of the current network in the object, what the
         adapter reads from it is run19, and a whole history (re-used analyzer and brand-new analyzer per step) is the list of
         fresh analyses.  This is the function the correspondence evaluates for call histories. *)
Theorem C19_state_machine :
  (forall style x st, route style x st = route 0 x a_init) /\
  (forall x, hs_net x <> [] -> obs_of_state x (route 0 x a_init) = run19 (hs_net x) (hs_iso x) (hs_rc x) (hs_ccs x)) /\
  (forall steps, run19_sm steps =
     SK.lib.Tok.L (flat_map (fun sx => [run19 (hs_net (snd sx)) (hs_iso (snd sx)) (hs_rc (snd sx)) (hs_ccs (snd sx));
                                        run19 (hs_net (snd sx)) (hs_iso (snd sx)) (hs_rc (snd sx)) (hs_ccs (snd sx))]) steps)).
Proof. split; [exact route_fresh | split; [exact obs_fresh_run19 | exact run19_sm_stateless]]. Qed.
Print Assumptions C19_state_machine.

(** (16) documentation of the defect repaired in round 3 (/repo 7d0fc98): with the summary stage that KEPT the derived fields,
         A -> 2A -> 3A analysed, 2A -> 3A removed, then route 2 on the same analyzer: deficiency 0 next to the class
         deficiencies [1] of the previous network (the repaired machine and a fresh analysis give [0]). *)
Theorem C19_stale_summary_route_refuted :
  a_ld lad_stale = Some [1%Z] /\ st_deficiency lad_stale = Some 0%Z /\
  a_ld (route 2 lad_x2 (route 0 lad_x1 a_init)) = Some [0%Z] /\ a_ld (route 0 lad_x2 a_init) = Some [0%Z].
Proof. exact stale_summary_route_refuted. Qed.
Print Assumptions C19_stale_summary_route_refuted.

(* ====================================================================================================================
   Round 5: the PUBLIC API as a state machine over ARBITRARY call sequences (model/C19_Api.v; evaluated by the
   correspondence for the api-seq population: after every call the result / error code and every stored field).
   [call] = (method, the network as it is at the time of the call, float argmax positions for the nondegeneracy test);
   [run_calls o cs ast_init] = the object after the calls cs on a new analyzer built with the options o.
   ==================================================================================================================== *)

(** (17) after ANY sequence of public calls, with ANY edits of the network between them, everything the object stores
         describes ONE network — the one it saw at its last successful compute_summary (x below): complexes, complex graph and
         summary are those of x; the class deficiencies (if stored) are x's; the deficiency-one result (if stored) was
         computed from exactly the stored deficiency, the stored class deficiencies and the stored complex graph; the
         nondegeneracy result (if stored) used x's complexes.  Without a summary nothing is stored. *)
Theorem C19_api_coherent : forall (o : opts) (cs : list call),
  let st := run_calls o cs ast_init in
  match s_sum st with
  | None => s_ld st = None /\ s_one st = None /\ s_nd st = None
  | Some sn =>
      let x := sn_x sn in
      let cg := complex_graph (hs_net x) (hs_iso x) in
      hs_net x <> [] /\
      sn_cs sn = fst cg /\ sn_arcs sn = snd cg /\ sn_sum sn = compute_summary (hs_net x) (hs_iso x) (the_rank o x) /\
      (forall ld, s_ld st = Some ld ->
         ld = linkage_deficiencies (linkage_classes (snd cg) (length (fst cg))) (map rc_r (hs_ccs x))) /\
      (forall d, s_one st = Some d ->
         s_ld st = Some (one_ld d) /\ one_delta d = deficiency (sn_sum sn) /\
         one_reg d = regular (snd cg) (length (fst cg)) /\
         one_hyp d = deficiency_one_hypotheses (sn_sum sn) (one_ld d) (one_reg d)) /\
      (forall d, s_nd st = Some d -> nd_max d = max_complex_size (fst cg))
  end.
Proof. exact api_one_network. Qed.
Print Assumptions C19_api_coherent.

(** (18) the last clause of the property at the level of the API: whatever was called before, with whatever edits in between,
         the class deficiencies the object reports never sum to more than the deficiency it reports next to them
         (rank_fn given; ranks justified by accepted certificates of the network of the last compute_summary). *)
Theorem C19_api_linkage_sum : forall (o : opts) (cs : list call) (sn : snapshot) (ld : list Z),
  let st := run_calls o cs ast_init in
  o_rank o = true -> s_sum st = Some sn -> s_ld st = Some ld ->
  certs_ok (hs_net (sn_x sn)) (hs_iso (sn_x sn)) (hs_rc (sn_x sn)) (hs_ccs (sn_x sn)) = true ->
  (zsum ld <= deficiency (sn_sum sn))%Z.
Proof. exact api_linkage_sum. Qed.
Print Assumptions C19_api_linkage_sum.

(** (19) compute_crn_deficiency from ANY previous state: no reaction -> ValueError and the object is untouched; otherwise result
         and new state are those of a brand-new analyzer, and (default options) that state is the one of the staged machine
         of theorem (15) whose observable is run19. *)
Theorem C19_api_full_route : forall (o : opts) (x : hist_step) (f : bool) (mis : list nat) (st : ast),
  (hs_net x = [] -> op_crn o x f mis st = (st, RValueError)) /\
  (hs_net x <> [] -> op_crn o x f mis st = op_crn o x f mis ast_init) /\
  (hs_net x <> [] -> to_old (fst (op_crn default_opts x false [] st)) = route 0 x a_init).
Proof. exact api_full_route. Qed.
Print Assumptions C19_api_full_route.

(** (20) exceptions: a call that raises leaves the object untouched, except compute_crn_deficiency(run_nondegeneracy=True)
         failing in its last stage (the object then holds the state of compute_crn_deficiency()); and which call raises what:
         ValueError <-> the network has no reaction; RuntimeError k <-> the stage the method reads is missing
         (k numbers the message, harness/props/C19.py:_RT). *)
Theorem C19_api_errors : forall (o : opts) (c : call) (st : ast),
  (is_error (snd (apply_op o c st)) = true ->
     fst (apply_op o c st) = st \/
     (c_op c = OCrn true /\ fst (apply_op o c st) = fst (op_crn o (c_x c) false [] st))) /\
  (snd (op_summary o (c_x c) st) = RValueError <-> hs_net (c_x c) = []) /\
  (snd (op_linkage st) = RRuntime 2 <-> s_sum st = None) /\
  (op_check0 st = RRuntime 3 <-> s_sum st = None) /\
  (op_check1 st = RRuntime 4 <-> s_sum st = None) /\
  (op_check1 st = RRuntime 5 <-> s_sum st <> None /\ s_ld st = None) /\
  (op_reg st = RRuntime 6 <-> s_sum st = None) /\
  (snd (op_nondeg o (c_x c) (c_mis c) st) = RRuntime 7 <-> o_stoich o = false) /\
  (snd (op_nondeg o (c_x c) (c_mis c) st) = RRuntime 8 <-> o_stoich o = true /\ s_sum st = None) /\
  (snd (op_one o (c_x c) st) = RValueError <-> s_sum st = None /\ hs_net (c_x c) = []).
Proof. exact api_error_spec. Qed.
Print Assumptions C19_api_errors.

(** (21) nondegeneracy_test, exact part: with an accepted rank certificate of S the reported nullity is the dimension of the left
         kernel {y | y S = 0} = ker(S^T) over the rationals (MathComp kermx), and nullity + rank = number of species. *)
Theorem C19_nondeg_nullity : forall (net : list rxn) (iso : list str) (rc : rcert) (cs : list (list Z)) (mis : list nat) (d : nd),
  let m := length (species_order net iso) in
  let n := length (reaction_order net) in
  let S := build_S net iso in
  let F := mathcomp.algebra.rat.rat_fieldType in
  rank_checked m n S rc = true ->
  nondeg m (rc_r rc) cs mis = Some d ->
  nd_nullity d = @mathcomp.algebra.mxalgebra.mxrank F _ _ (@mathcomp.algebra.mxalgebra.kermx F m n (SK.lib.RankBridge.toM m n S)) /\
  nd_nullity d + rc_r rc = m.
Proof. exact SK.proof.C19_Nullity.nondeg_nullity_exact. Qed.
Print Assumptions C19_nondeg_nullity.

(** (22) nondegeneracy_test, logic part: max_complex_size is the largest total coefficient of a stored complex (0 without
         complexes); the per-basis flag says whether some complex of that size contains the species at the vector's largest
         entry; IndexError can only come from a complex of maximal size that is shorter than that position; the stored result
         carries exactly these values. *)
Theorem C19_nondeg_logic : forall cs : list (list Z),
  (cs = [] -> max_complex_size cs = 0%Z) /\
  (cs <> [] -> (exists c, In c cs /\ complex_size c = max_complex_size cs) /\
               forall c, In c cs -> (complex_size c <= max_complex_size cs)%Z) /\
  (forall mx i,
     (nd_scan cs mx i = None -> exists c, In c cs /\ complex_size c = mx /\ length c <= i) /\
     (forall b, nd_scan cs mx i = Some b ->
        (b = true <-> exists c, In c cs /\ complex_size c = mx /\ (0 < nth i c 0)%Z)) /\
     ((forall c, In c cs -> i < length c) -> nd_scan cs mx i <> None)) /\
  (forall m r mis d, nondeg m r cs mis = Some d ->
     nd_max d = max_complex_size cs /\ nd_nullity d = m - r /\ map fst (nd_per d) = firstn (length (nd_per d)) mis).
Proof. exact nondeg_logic_spec. Qed.
Print Assumptions C19_nondeg_logic.

(** (23) nondegeneracy_test right after compute_summary of the SAME network never raises IndexError; after an edit that adds
         species, without a new compute_summary, it does (S is rebuilt from the current network, the complexes are the stored
         ones): A -> B analysed, B -> 2C + D added.  Outside the property text (a diagnostic); modelled as the code behaves. *)
Theorem C19_nondeg_stale_complexes_witness :
  (forall o x mis st, s_sum st = Some (snap_of o x) ->
     (forall i, In i mis -> i < length (species_order (hs_net x) (hs_iso x))) ->
     snd (op_nondeg o x mis st) <> RIndexError) /\
  (exists x1 x2 mis1 mis2,
     snd (apply_op default_opts (ONondeg, x2, mis2) (run_calls default_opts [(OCrn true, x1, mis1)] ast_init)) = RIndexError).
Proof. exact nondeg_index_error_spec. Qed.
Print Assumptions C19_nondeg_stale_complexes_witness.

(** (24) the attribute / identifier level of _complex_vectors (model/C19_Nodes.v: classification of the nodes by kind / bipartite
         flag, species dict by node identifier in label order, per reaction node the accumulation over its in- and out-arcs
         with optional role / stoich attributes) refines the label-level model: on the export of ANY reaction list under ANY
         injective identifier assignment (species and reaction identifiers disjoint, as in every graph) it computes exactly
         the complex list and the complex graph of (1)/(1b) (duplicate edge ids allowed: no NoDup premise).  Evaluated by the correspondence on raw attributed graphs. *)
Theorem C19_nodes_refine : forall (ids idr : str -> N) (net : list rxn) (iso : list str),
  (forall s s', In s (species_set net iso) -> In s' (species_set net iso) -> ids s = ids s' -> s = s') ->
  (forall e e', In e net -> In e' net -> idr (rid e) = idr (rid e') -> rid e = rid e') ->
  (forall s e, In s (species_set net iso) -> In e net -> ids s <> idr (rid e)) ->
  net <> [] -> species_set net iso <> [] ->
  complex_graph_nodes (raw_export ids idr net iso) = Some (complex_graph net iso).
Proof. exact nodes_refine. Qed.
Print Assumptions C19_nodes_refine.

(** (25) evaluation: for plain cases the correspondence evaluates run19f (model/C19_Fast.v: let-bound sub-terms, frontier
         closure lib/C19_FastClosure.sat_f, fold-based certificate checker lib/C19_FastRank.check_rank_f).  For every certificate
         flag the fast observable IS the observable of model/C19_Model.v; the fast certificate flag implies certs_ok; hence
         whenever the evaluated observable shows the flag 1 it is run19 of the same inputs with accepted certificates (the
         premise of (6), (8), (9), (10), (12), (18)). *)
Theorem C19_fast_eval : forall (net : list rxn) (iso : list str) (rc : rcert) (ccs : list rcert),
  (forall flag, run19_flag_f flag net iso rc ccs = run19_flag flag net iso rc ccs) /\
  (certs_ok_f net iso rc ccs = true -> certs_ok net iso rc ccs = true) /\
  (certs_ok_f net iso rc ccs = true -> run19f net iso rc ccs = run19 net iso rc ccs /\ certs_ok net iso rc ccs = true).
Proof. exact fast_eval. Qed.
Print Assumptions C19_fast_eval.

(** (26) the network the object describes after any call sequence is one of the networks handed to a call (the one of the last
         successful compute_summary, by (17)); in particular, if the network is never edited — every call carries the same x —
         the stored summary group is exactly the fresh analysis of x, and by (17) so are all derived fields. *)
Theorem C19_api_origin : forall (o : opts) (cs : list call) (sn : snapshot),
  (s_sum (run_calls o cs ast_init) = Some sn -> exists c, In c cs /\ sn = snap_of o (c_x c)) /\
  (forall x, (forall c, In c cs -> c_x c = x) -> s_sum (run_calls o cs ast_init) = Some sn -> sn = snap_of o x).
Proof. exact api_origin_spec. Qed.
Print Assumptions C19_api_origin.

(** (27) undirected input (nx.Graph / nx.MultiGraph; the conversion repaired in /repo a58b70a, modelled in model/C19_Nodes.v:
         orient / merge_arc): a graph with the nodes and incidences of the export, every incidence listed once in EITHER
         orientation ([reor]: same role, same coefficient, same two ends), is turned into exactly the directed export — no
         incidence is doubled, merged or dropped when the sides are dicts (no two incidences with the same species, reaction
         and role) — and therefore gives the complex list and complex graph of (1)/(1b). *)
Theorem C19_undirected_refine : forall (ids idr : str -> N) (net : list rxn) (iso : list str),
  (forall s s', In s (species_set net iso) -> In s' (species_set net iso) -> ids s = ids s' -> s = s') ->
  (forall e e', In e net -> In e' net -> idr (rid e) = idr (rid e') -> rid e = rid e') ->
  (forall s e, In s (species_set net iso) -> In e net -> ids s <> idr (rid e)) ->
  NoDup (map (fun a => (a_species a, a_rxn a, a_role a)) (bip_arcs net)) ->
  forall E : list rarc,
  Forall2 (fun e x => ra_role e = ra_role x /\ ra_stoich e = ra_stoich x /\
                      ((ra_u e = ra_u x /\ ra_v e = ra_v x) \/ (ra_u e = ra_v x /\ ra_v e = ra_u x)))
          E (rg_arcs (raw_export ids idr net iso)) ->
  net <> [] -> species_set net iso <> [] ->
  as_bipartite_undirected (RG (rg_nodes (raw_export ids idr net iso)) E) = raw_export ids idr net iso /\
  complex_graph_nodes (as_bipartite_undirected (RG (rg_nodes (raw_export ids idr net iso)) E)) = Some (complex_graph net iso).
Proof. exact undirected_refine. Qed.
Print Assumptions C19_undirected_refine.

(** (28) the premise of (27) from the shape of the input: unique edge ids and sides without a repeated species (dicts) give
         pairwise distinct (species, reaction, role) incidences. *)
Theorem C19_dict_sides_distinct : forall net : list rxn, NoDup (map rid net) ->
  (forall e, In e net -> NoDup (map fst (rlhs e)) /\ NoDup (map fst (rrhs e))) ->
  NoDup (map (fun a => (a_species a, a_rxn a, a_role a)) (bip_arcs net)).
Proof. exact keys_nodup_of_dicts. Qed.
Print Assumptions C19_dict_sides_distinct.

(** (29) in _complex_vectors the DIRECTION of an arc plays no part (the role says on which side a species stands): for ANY
         attributed graph, reversing any set of arcs — role and coefficient kept — changes neither a reactant / product vector
         of any reaction node nor the complex graph. *)
Theorem C19_direction_irrelevant : forall (ns : list rnode) (A A' : list rarc),
  Forall2 (fun x y => y = x \/ y = RArc (ra_v x) (ra_u x) (ra_role x) (ra_stoich x)) A A' ->
  (forall ro r, node_vec (RG ns A') ro r = node_vec (RG ns A) ro r) /\
  complex_graph_nodes (RG ns A') = complex_graph_nodes (RG ns A).
Proof. exact direction_irrelevant. Qed.
Print Assumptions C19_direction_irrelevant.

(** (30) the reading rules for node / arc attributes (utils._split_species_reactions, _complex_vectors), for ANY attributed graph:
         kind "species" (Some 0) or bipartite flag 0 makes a species even when the other attribute says reaction; a reaction
         needs kind "reaction" (Some 1) or flag 1 and must not be a species; nothing else is either.  An arc without a stoich
         attribute counts with coefficient 1; an arc without a known role, or whose other end is not a species node
         ([counts_for] false), contributes nothing to the vectors of a reaction node. *)
Theorem C19_attribute_rules :
  (forall n : rnode,
     (is_species n = true <-> rn_kind n = Some 0 \/ rn_bflag n = Some 0%Z) /\
     (is_reaction n = true <-> is_species n = false /\ (rn_kind n = Some 1 \/ rn_bflag n = Some 1%Z)) /\
     (is_species n = true -> is_reaction n = false)) /\
  (forall (ns : list rnode) (A : list rarc) (r : N),
     node_vecs (RG ns (map (fun a => RArc (ra_u a) (ra_v a) (ra_role a) (Some (match ra_stoich a with Some c => c | None => 1%Z end))) A)) r
       = node_vecs (RG ns A) r /\
     node_vecs (RG ns (filter (counts_for (RG ns A) r) A)) r = node_vecs (RG ns A) r).
Proof. exact attribute_rules. Qed.
Print Assumptions C19_attribute_rules.

(** (31) max_complex_size in terms of the reactions (unique edge ids): it is the largest total coefficient (molecularity) of a
         reactant or product side — attained by some side, and no side exceeds it. *)
Theorem C19_max_complex_size : forall (net : list rxn) (iso : list str), NoDup (map rid net) -> net <> [] ->
  let mx := max_complex_size (fst (complex_graph net iso)) in
  (exists e ro, In e net /\ side_total (side_of ro e) = mx) /\
  (forall e ro, In e net -> (side_total (side_of ro e) <= mx)%Z).
Proof. exact max_complex_size_molecularity. Qed.
Print Assumptions C19_max_complex_size.

(** (32) the last summary wins: a call that (re)computes the summary on a network with reactions — compute_summary,
         compute_crn_deficiency, run_deficiency_one_algorithm on an object without a summary — stores exactly the network it was
         handed, whatever the object held before (so, with (17), everything reported afterwards describes the CURRENT network until
         the next edit). *)
Theorem C19_api_summary_current : forall (o : opts) (c : call) (st : ast), hs_net (c_x c) <> [] ->
  (c_op c = OSummary \/ (exists f, c_op c = OCrn f) \/ (c_op c = OOne /\ s_sum st = None)) ->
  s_sum (fst (apply_op o c st)) = Some (snap_of o (c_x c)).
Proof. exact api_summary_current. Qed.
Print Assumptions C19_api_summary_current.

(** (33) identifier level, the rest of the observable: the species labels in index order and the node counts of the export are
         the species order / species count / reaction count of the label-level model (any identifier assignment). *)
Theorem C19_nodes_labels : forall (ids idr : str -> N) (net : list rxn) (iso : list str),
  map eff_label (species_sorted (raw_export ids idr net iso)) = species_order net iso /\
  length (species_nodes (raw_export ids idr net iso)) = length (species_order net iso) /\
  length (reaction_nodes (raw_export ids idr net iso)) = length (reaction_order net).
Proof. exact nodes_labels. Qed.
Print Assumptions C19_nodes_labels.

(** (34) nor does the ORDER of the arcs: for ANY attributed graph, permuting the arc list changes no vector and not the complex
         graph — with (29): they depend only on the multiset of (species end, reaction end, role, coefficient) incidences. *)
Theorem C19_arc_order_irrelevant : forall (ns : list rnode) (A A' : list rarc), Permutation.Permutation A A' ->
  (forall ro r, node_vec (RG ns A') ro r = node_vec (RG ns A) ro r) /\
  complex_graph_nodes (RG ns A') = complex_graph_nodes (RG ns A).
Proof. exact arc_order_irrelevant. Qed.
Print Assumptions C19_arc_order_irrelevant.

(** (35) (27) at full strength: the undirected (multi)graph may list the incidences of the export in ANY order and in either
         orientation (networkx's edge order is an implementation detail): the converted graph has the export's arcs up to order and
         gives the complex list and complex graph of the label-level model. *)
Theorem C19_undirected_refine_any_order : forall (ids idr : str -> N) (net : list rxn) (iso : list str),
  (forall s s', In s (species_set net iso) -> In s' (species_set net iso) -> ids s = ids s' -> s = s') ->
  (forall e e', In e net -> In e' net -> idr (rid e) = idr (rid e') -> rid e = rid e') ->
  (forall s e, In s (species_set net iso) -> In e net -> ids s <> idr (rid e)) ->
  NoDup (map (fun a => (a_species a, a_rxn a, a_role a)) (bip_arcs net)) ->
  forall E E0 : list rarc, Permutation.Permutation E E0 ->
  Forall2 (fun e x => ra_role e = ra_role x /\ ra_stoich e = ra_stoich x /\
                      ((ra_u e = ra_u x /\ ra_v e = ra_v x) \/ (ra_u e = ra_v x /\ ra_v e = ra_u x)))
          E0 (rg_arcs (raw_export ids idr net iso)) ->
  net <> [] -> species_set net iso <> [] ->
  complex_graph_nodes (as_bipartite_undirected (RG (rg_nodes (raw_export ids idr net iso)) E)) = Some (complex_graph net iso).
Proof. exact undirected_refine_perm. Qed.
Print Assumptions C19_undirected_refine_any_order.

(* ====================================================================================================================
   Relations between the answers (they hold for every network, so no two reported values can contradict each other)
   ==================================================================================================================== *)

(** (36) weak reversibility implies the coarse regularity (every strongly connected class has exactly one terminal strongly
         connected component); hence check_deficiency_zero true implies regular.  (The converse fails: A -> B.) *)
Theorem C19_weak_rev_regular : forall (net : list rxn) (iso : list str) (r : nat),
  let arcs := snd (complex_graph net iso) in
  let k := length (fst (complex_graph net iso)) in
  (weakly_rev (compute_summary net iso r) = true -> regular arcs k = true) /\
  (check_deficiency_zero (compute_summary net iso r) = true -> regular arcs k = true).
Proof. exact net_weak_rev_regular. Qed.
Print Assumptions C19_weak_rev_regular.

(** (37) bounds of every summary (network with at least one reaction): 1 <= linkage classes <= complexes <= 2 * reactions, and
         the complex graph has at most one arc per reaction. *)
Theorem C19_summary_bounds : forall (net : list rxn) (iso : list str) (r : nat), net <> [] ->
  let s := compute_summary net iso r in
  1 <= n_linkage s /\ n_linkage s <= n_complexes s /\ n_complexes s <= 2 * n_reactions s /\
  length (snd (complex_graph net iso)) <= n_reactions s.
Proof. exact summary_bounds. Qed.
Print Assumptions C19_summary_bounds.

(** (38) the two deficiency-one front ends: when check_deficiency_one passes, hypotheses_satisfied is exactly the regularity flag. *)
Theorem C19_check_one_hypotheses : forall (s : summary) (ld : list Z) (reg : bool),
  check_deficiency_one s ld = true -> deficiency_one_hypotheses s ld reg = reg.
Proof. exact check_one_hypotheses. Qed.
Print Assumptions C19_check_one_hypotheses.

(** (39) multigraph inputs: parallel arcs add up — a multiset written with a coefficient, as one arc per molecule, or in any
         batches is the same multiset: for ANY attributed graph, splitting an arc of coefficient c1 + c2 into two parallel arcs
         c1, c2 (same ends, same role) changes no vector and not the complex graph.  (A conversion that keeps only one of several
         parallel arcs — seeded change C19 wave 4 no. 1 — breaks exactly this.) *)
Theorem C19_parallel_arcs_add : forall (ns : list rnode) (pre post : list rarc) (u v : N) (role : option role) (c1 c2 : Z),
  let A := pre ++ RArc u v role (Some (c1 + c2)%Z) :: post in
  let A' := pre ++ RArc u v role (Some c1) :: RArc u v role (Some c2) :: post in
  (forall ro r, node_vec (RG ns A') ro r = node_vec (RG ns A) ro r) /\
  complex_graph_nodes (RG ns A') = complex_graph_nodes (RG ns A).
Proof. exact parallel_arcs_add. Qed.
Print Assumptions C19_parallel_arcs_add.

(** (40) frame: which stored groups a public call may write.  compute_linkage_deficiencies writes the class deficiencies only;
         nondegeneracy_test writes its own record only — in particular it leaves the stored complexes and complex graph alone (a
         nondegeneracy_test that reorders the stored complex list, seeded change C19 wave 4 no. 2, breaks exactly this); the three
         checks write nothing; run_deficiency_one_algorithm on an object with a summary keeps the summary, the nondegeneracy
         record, and class deficiencies that were already stored. *)
Theorem C19_api_frame : forall (o : opts) (c : call) (st : ast),
  let st' := fst (apply_op o c st) in
  (c_op c = OLinkage -> s_sum st' = s_sum st /\ s_one st' = s_one st /\ s_nd st' = s_nd st) /\
  (c_op c = ONondeg -> s_sum st' = s_sum st /\ s_ld st' = s_ld st /\ s_one st' = s_one st) /\
  (c_op c = OCheck0 \/ c_op c = OCheck1 \/ c_op c = OReg -> st' = st) /\
  (c_op c = OOne -> s_sum st <> None ->
     s_nd st' = s_nd st /\ s_sum st' = s_sum st /\ (s_ld st <> None -> s_ld st' = s_ld st)).
Proof. exact api_frame. Qed.
Print Assumptions C19_api_frame.

(** (41) the two state machines are one: the three routes of the staged machine of (15) (evaluated for the history populations)
         are the call scripts [compute_crn_deficiency] / [compute_summary; compute_linkage_deficiencies;
         run_deficiency_one_algorithm] / [compute_summary; run_deficiency_one_algorithm] of the API machine, from any state. *)
Theorem C19_routes_are_scripts : forall (style : nat) (x : hist_step) (st : ast), hs_net x <> [] ->
  to_old (run_calls default_opts (script_of style x) st) = route style x (to_old st).
Proof. exact routes_are_scripts. Qed.
Print Assumptions C19_routes_are_scripts.

(** (42) the text views (model/C19_Text.v; explain() and __repr__ are part of the dump compared after every call of a script):
         f"{int}" is the decimal printer dec_Z — reading the digits back gives the integer, so equal texts mean equal numbers; the
         digits of dec_N are digits; two __repr__ texts are equal only for equal deficiencies. *)
Theorem C19_text :
  (forall z, val_Z (dec_Z z) = z) /\ (forall z1 z2, dec_Z z1 = dec_Z z2 -> z1 = z2) /\
  (forall n d, In d (dec_N n) -> (48 <= d < 58)%N) /\
  (forall s1 s2, repr_str (Some s1) = repr_str (Some s2) -> deficiency s1 = deficiency s2).
Proof. exact text_spec. Qed.
Print Assumptions C19_text.

(** (43) the last clause of the property WITHOUT any certificate premise: for EVERY network, with the exact ranks over the
         rationals (MathComp \rank) of S and of each class's difference vectors,
             rank S + sum_c (n_c - 1 - rank D_c) + l <= n,
         i.e. the linkage-class deficiencies sum to at most n - l - rank S = the deficiency (every subtraction is exact:
         rank D_c + 1 <= n_c is (11b), rank S + l <= n is (7)).  (9) is this statement with the ranks read from accepted certificates. *)
Theorem C19_linkage_sum_exact : forall (net : list rxn) (iso : list str),
  let cs := fst (complex_graph net iso) in
  let arcs := snd (complex_graph net iso) in
  let L := linkage_classes arcs (length cs) in
  let m := length (species_order net iso) in
  let r := length (reaction_order net) in
  let F := mathcomp.algebra.rat.rat_fieldType in
  let rank_c (c : list N) := @mathcomp.algebra.mxalgebra.mxrank F (length (class_diffs cs arcs c)) m
                               (SK.lib.RankBridge.toM (length (class_diffs cs arcs c)) m (class_diffs cs arcs c)) in
  @mathcomp.algebra.mxalgebra.mxrank F m r (SK.lib.RankBridge.toM m r (build_S net iso)) +
  list_sum (map (fun c => length c - 1 - rank_c c) L) + length L <= length cs.
Proof. exact SK.proof.C19_SumExact.linkage_sum_exact_list. Qed.
Print Assumptions C19_linkage_sum_exact.

(** (44) the one-shot route with the nondegeneracy test: compute_crn_deficiency(run_nondegeneracy=True) that returns normally leaves,
         from ANY previous state, all four stored groups of the CURRENT network — its summary group, its class deficiencies, the
         deficiency-one record built from exactly these, and a nondegeneracy record whose nullity is (species - rank) and whose
         max_complex_size is the largest complex size of THIS network (cf. (23): only the separate call after an edit can mix). *)
Theorem C19_api_crn_nondeg_current : forall (o : opts) (x : hist_step) (mis : list nat) (st st' : ast),
  op_crn o x true mis st = (st', ROk) ->
  let sn := snap_of o x in
  s_sum st' = Some sn /\ s_ld st' = Some (stored_ld sn) /\ s_one st' = Some (stored_one sn (stored_ld sn)) /\
  exists d, s_nd st' = Some d /\
            nd_nullity d = length (species_order (hs_net x) (hs_iso x)) - rc_r (hs_rc x) /\
            nd_max d = max_complex_size (fst (complex_graph (hs_net x) (hs_iso x))).
Proof. exact api_crn_nondeg_current. Qed.
Print Assumptions C19_api_crn_nondeg_current.
