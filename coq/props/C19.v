From Coq Require Import List NArith ZArith.
From SK Require Import model.C17_Model model.C19_Model proof.C19_Proof.

Theorem C19_deficiency_formula : forall net iso r,
  let s := compute_summary net iso r in
  deficiency s = (Z.of_nat (n_complexes s) - Z.of_nat (n_linkage s) - Z.of_nat (stoich_rank s))%Z.
Proof. exact deficiency_formula. Qed.
Print Assumptions C19_deficiency_formula.
