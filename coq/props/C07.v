(** C07 — property theorems (statements in full; proofs are [exact] of lemmas in proof/C07_*.v). *)
From Coq Require Import List NArith Bool.
From SK Require Import lib.Tok lib.LGraph lib.Mono model.C07_Model proof.C07_Spec proof.C07_History.
Import ListNotations.

(** (6) No answer depends on earlier queries.  The engine is a state machine over the class-level WL-histogram cache
    (keyed by graph object AND node_attrs).  For EVERY list of graph objects, EVERY list of engines (arbitrary attribute
    selections / filter flags / limits), EVERY sequence of queries (isomorphic, get_mappings, _pre_check, the boolean
    subgraph tests, graph_isomorphism) and ANY VF2 behaviour whatsoever, the list of answers of the history started on
    the empty cache equals, query by query, the answer of a fresh engine on an empty cache. *)
Theorem C07_no_history :
  forall (vf2b : bool -> (attrs -> attrs -> bool) -> (attrs -> attrs -> bool) -> graph -> graph -> bool)
         (enum : (attrs -> attrs -> bool) -> (attrs -> attrs -> bool) -> graph -> graph -> list mapping)
         (gs : list graph) (es : list engine) (qs : list query),
    run_from vf2b enum gs es qs [] = map (fun q => fst (step vf2b enum gs es q [])) qs.
Proof. exact (fun vf2b enum gs es qs => no_history vf2b enum gs es qs [] (cache_inv_nil gs)). Qed.
Print Assumptions C07_no_history.
