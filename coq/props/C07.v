From Coq Require Import List NArith Bool.
From SK Require Import lib.LGraph lib.Mono model.C07_Model proof.C07_Proof.
Theorem C07_stub : forall x, opt_eqb x x = true. Proof. exact opt_eqb_refl. Qed.
Print Assumptions C07_stub.
