(** C07 — property theorems.  Statements in full; every proof is [exact] of a lemma of proof/C07_*.v.

    Vocabulary (proof/C07_Spec.v, definitions only):
      gwf g                      simple undirected graph: distinct node ids, edges join two distinct nodes, each unordered pair stored once
      emb ind nm em H P f        f maps the nodes of the pattern P injectively to nodes of the host H, nm(host attrs, pattern attrs)
                                 holds on every node, every pattern edge lies on a host edge with em(host edge, pattern edge), and
                                 (ind = true) every pattern non-edge lies on a host non-edge
      contained ind nm em H P    exists f, emb ind nm em H P f
      iso_map nm em G1 G2 f      emb true nm em G1 G2 f and f is onto the nodes of G1 (a bijection preserving adjacency both ways)
      mapping_valid .. H P m     m : list (pattern node, host node) has exactly the pattern's nodes as keys, once each, and is an emb
      vf2b_contract / enum_contract   what is assumed of networkx VF2 (decides containment / enumerates only valid embeddings and
                                 at least one when contained); monitored by the harness on every case against lib/Mono.v
      cache_inv gs c             every entry (graph index, node_attrs) of the WL cache c holds wl1_hash node_attrs (that graph)
                                 (proof/C07_History.v; holds for [] and is preserved by every query — C07_no_history)
    The comparators of the engine: C07_comparators (selected attributes equal, hcount host >= pattern). *)
From Coq Require Import List NArith Bool.
From SK Require Import lib.Tok lib.LGraph lib.Mono lib.Reach model.C07_Model model.C07_MCCS
  proof.C07_Spec proof.C07_History proof.C07_Filters proof.C07_Main proof.C07_WL proof.C07_Relabel proof.C07_Final proof.C07_Extra proof.C07_Final2
  proof.C07_Entry proof.C07_MCCS proof.C07_Sym proof.C07_Cache proof.C07_More proof.C07_QPF.
Import ListNotations.

(** the premises are satisfiable, and the instances the correspondence run evaluates ([run] = [run_from has_mono (monos_g true)])
    satisfy them: every theorem below applies to what is compared with the implementation *)
Theorem C07_contracts_hold_for_run : vf2b_contract has_mono /\ enum_contract (monos_g true).
Proof. exact (conj has_mono_contract monos_g_contract). Qed.
Print Assumptions C07_contracts_hold_for_run.

(** the engine's node / edge comparators: selected attributes equal (absent = None), hcount (absent = 0) host >= pattern *)
Theorem C07_comparators : forall e h p,
  (nm_eng e h p = true <-> (forall k, In k (e_na e) -> get k h = get k p) /\ (hc p <= hc h)%N) /\
  (em_eng e h p = true <-> (forall k, In k (e_ea e) -> get k h = get k p)).
Proof. exact comparators. Qed.
Print Assumptions C07_comparators.

(** (1) isomorphic(g_i, g_j) is true exactly when a bijection nodes(g_j) -> nodes(g_i) exists that preserves adjacency both ways,
    the selected node and edge attributes, with hcount(g_i node) >= hcount(g_j node) — for every engine configuration
    (filter on or off), every graph pair and every cache state reachable by earlier queries. *)
Theorem C07_iso_verdict :
  forall vf2b, vf2b_contract vf2b ->
  forall gs e i j c, cache_inv gs c -> gwf (gnth gs i) -> gwf (gnth gs j) ->
    (fst (isomorphic vf2b e i (gnth gs i) j (gnth gs j) c) = true <->
     exists f, iso_map (nm_eng e) (em_eng e) (gnth gs i) (gnth gs j) f).
Proof. exact iso_verdict. Qed.
Print Assumptions C07_iso_verdict.

(** graph_morphism.graph_isomorphism(use_defaults=True): element (default "*"), charge (default 0), order (default 1) *)
Theorem C07_giso_verdict :
  forall vf2b, vf2b_contract vf2b ->
  forall dstar dzero done g1 g2, gwf g1 -> gwf g2 ->
    (giso vf2b dstar dzero done g1 g2 = true <->
     exists f, iso_map (nm_sub [(1%N, dstar); (2%N, dzero)]) (fun h p => N.eqb (getd 4 done h) (getd 4 done p)) g1 g2 f).
Proof. exact giso_verdict. Qed.
Print Assumptions C07_giso_verdict.

(** (2a) the verdict is invariant under an injective renaming r of the nodes of either argument
    (gs' is gs with graph i, resp. j, renamed; caches arbitrary but consistent). *)
Theorem C07_relabel_invariant :
  forall vf2b, vf2b_contract vf2b ->
  forall e r gs gs' i j c c', cache_inv gs c -> cache_inv gs' c' -> gwf (gnth gs i) -> gwf (gnth gs j) ->
    (gnth gs' i = grelabel r (gnth gs i) /\ inj_on r (node_ids (gnth gs i)) /\ gnth gs' j = gnth gs j) \/
    (gnth gs' j = grelabel r (gnth gs j) /\ inj_on r (node_ids (gnth gs j)) /\ gnth gs' i = gnth gs i) ->
    fst (isomorphic vf2b e i (gnth gs' i) j (gnth gs' j) c') = fst (isomorphic vf2b e i (gnth gs i) j (gnth gs j) c).
Proof. exact relabel_invariant. Qed.
Print Assumptions C07_relabel_invariant.

(** (2b) symmetric when all hydrogen counts are equal or absent (absent counts as 0) *)
Theorem C07_symmetric :
  forall vf2b, vf2b_contract vf2b ->
  forall e gs i j c c' k, cache_inv gs c -> cache_inv gs c' -> gwf (gnth gs i) -> gwf (gnth gs j) ->
    hc_all k (gnth gs i) -> hc_all k (gnth gs j) ->
    fst (isomorphic vf2b e i (gnth gs i) j (gnth gs j) c) = fst (isomorphic vf2b e j (gnth gs j) i (gnth gs i) c').
Proof. exact symmetric. Qed.
Print Assumptions C07_symmetric.

(** (2b, full strength — round 5) symmetric whenever the two graphs carry the same TOTAL hydrogen count ([sum_hc], absent = 0): a graph
    and any relabelled copy, isomers, graphs without annotations, ... — not only graphs whose counts all equal one constant (C07_symmetric
    above is the special case: for equal orders constant counts give equal totals, for different orders both verdicts are False).
    A label-preserving bijection with hcount(pattern) <= hcount(host) everywhere and equal totals has equality everywhere, so its
    inverse is an isomorphism in the other direction.  Example ex_symmetric_sum: CH3-OH vs CH2-O (totals 4 and 2) is not symmetric. *)
Theorem C07_symmetric_equal_totals :
  forall vf2b, vf2b_contract vf2b ->
  forall gs e i j c c', cache_inv gs c -> cache_inv gs c' -> gwf (gnth gs i) -> gwf (gnth gs j) ->
    sum_hc (gnth gs i) = sum_hc (gnth gs j) ->
    fst (isomorphic vf2b e i (gnth gs i) j (gnth gs j) c) = fst (isomorphic vf2b e j (gnth gs j) i (gnth gs i) c').
Proof. exact symmetric_sum. Qed.
Print Assumptions C07_symmetric_equal_totals.

(** (3) the boolean subgraph test (SubgraphMatch.subgraph_isomorphism / is_subgraph / graph_morphism.subgraph_isomorphism) is the
    definition of induced (induced = true) resp. monomorphic (induced = false) containment of child in parent,
    with use_filter on or off, for the default comparators (CEq) and for custom node / edge comparators (nc, ec : accept-all,
    symmetric wildcard, pattern-side wildcard) *)
Theorem C07_subgraph_bool :
  forall vf2b, vf2b_contract vf2b ->
  forall use_filter induced nc ec names eattr child parent, gwf child -> gwf parent ->
    (sub_iso vf2b use_filter induced nc ec names eattr child parent = true <->
     contained induced (nm_subc nc names) (em_subc ec eattr) parent child).
Proof. exact subgraph_bool. Qed.
Print Assumptions C07_subgraph_bool.

(** (4) get_mappings(host, pattern): every returned dict is a valid pattern->host embedding, and at least one is returned whenever
    the pattern is contained — any sizes, in particular |pattern| < |host| — unless max_mappings = 0 *)
Theorem C07_embeddings :
  forall vf2b enum, vf2b_contract vf2b -> enum_contract enum ->
  forall gs e hi pi c, cache_inv gs c -> gwf (gnth gs hi) -> gwf (gnth gs pi) ->
    (forall m, In m (fst (get_mappings vf2b enum e hi (gnth gs hi) pi (gnth gs pi) c)) ->
               mapping_valid true (nm_eng e) (em_eng e) (gnth gs hi) (gnth gs pi) m) /\
    (contained true (nm_eng e) (em_eng e) (gnth gs hi) (gnth gs pi) -> e_mm e <> Some 0%N ->
     fst (get_mappings vf2b enum e hi (gnth gs hi) pi (gnth gs pi) c) <> []).
Proof. exact embeddings. Qed.
Print Assumptions C07_embeddings.

(** (5a) every pre-filter is a NECESSARY condition for containment: _pre_check (node count, edge count, WL-1 histogram
    containment on equal orders) and the use_filter checks (counts, node-label and edge-label existence).  No VF2 premise. *)
Theorem C07_filters_necessary :
  (forall gs e hi pi c, cache_inv gs c -> gwf (gnth gs hi) -> gwf (gnth gs pi) ->
     contained true (nm_eng e) (em_eng e) (gnth gs hi) (gnth gs pi) ->
     fst (pre_check e hi (gnth gs hi) pi (gnth gs pi) c) = true) /\
  (forall induced nc ec names eattr child parent, gwf child -> gwf parent ->
     contained induced (nm_subc nc names) (em_subc ec eattr) parent child -> sub_filter nc ec names eattr child parent = true).
Proof. exact filters_necessary. Qed.
Print Assumptions C07_filters_necessary.

(** (5b) hence: wl1_filter on/off changes neither the verdict of isomorphic nor the list returned by get_mappings, and use_filter
    on/off does not change the boolean subgraph test *)
Theorem C07_filters_transparent :
  forall vf2b enum, vf2b_contract vf2b -> enum_contract enum ->
  (forall gs e b i j c c', cache_inv gs c -> cache_inv gs c' -> gwf (gnth gs i) -> gwf (gnth gs j) ->
     fst (isomorphic vf2b (set_wl e b) i (gnth gs i) j (gnth gs j) c') = fst (isomorphic vf2b e i (gnth gs i) j (gnth gs j) c)) /\
  (forall gs e b hi pi c c', cache_inv gs c -> cache_inv gs c' -> gwf (gnth gs hi) -> gwf (gnth gs pi) ->
     fst (get_mappings vf2b enum (set_wl e b) hi (gnth gs hi) pi (gnth gs pi) c') =
     fst (get_mappings vf2b enum e hi (gnth gs hi) pi (gnth gs pi) c)) /\
  (forall induced nc ec names eattr child parent, gwf child -> gwf parent ->
     sub_iso vf2b true induced nc ec names eattr child parent = sub_iso vf2b false induced nc ec names eattr child parent).
Proof. exact filters_transparent. Qed.
Print Assumptions C07_filters_transparent.

(** (6) No answer depends on earlier queries.  The engine is a state machine over the class-level WL-histogram cache (keyed by
    graph object AND node_attrs).  For EVERY list of graph objects, EVERY list of engines (arbitrary attribute selections, filter
    flags, limits), EVERY sequence of queries (isomorphic, get_mappings, _pre_check, the boolean subgraph tests,
    graph_isomorphism) and ANY behaviour of VF2 whatsoever, each answer of the history equals the answer a fresh engine gives on
    an empty cache. *)
Theorem C07_no_history :
  forall (vf2b : bool -> (attrs -> attrs -> bool) -> (attrs -> attrs -> bool) -> graph -> graph -> bool)
         (enum : (attrs -> attrs -> bool) -> (attrs -> attrs -> bool) -> graph -> graph -> list mapping)
         (gs : list graph) (es : list engine) (qs : list query),
    run_from vf2b enum gs es qs [] = map (fun q => fst (step vf2b enum gs es q [])) qs.
Proof. exact no_history_fresh. Qed.
Print Assumptions C07_no_history.

(** the same from any consistent cache state, and consistency is preserved by every query *)
Theorem C07_no_history_any_state :
  forall vf2b enum gs es qs c, cache_inv gs c ->
    run_from vf2b enum gs es qs c = map (fun q => fst (step vf2b enum gs es q [])) qs /\
    (forall q, cache_inv gs (snd (step vf2b enum gs es q c))).
Proof. exact no_history_any. Qed.
Print Assumptions C07_no_history_any_state.

(** the cache content the correspondence observes after a history: every entry is the WL-1 histogram of ITS graph under ITS node_attrs *)
Theorem C07_cache_consistent :
  forall vf2b enum gs es qs gi na h,
    cache_get (gi, na) (end_cache vf2b enum gs es qs []) = Some h -> h = wl1_hash na (gnth gs gi).
Proof. exact cache_consistent. Qed.
Print Assumptions C07_cache_consistent.

(** ---------------------------------------------------------------- round 3 *)

(** graph_morphism.graph_isomorphism without matchers: structure only *)
Theorem C07_giso0_verdict :
  forall vf2b, vf2b_contract vf2b ->
  forall g1 g2, gwf g1 -> gwf g2 ->
    (giso0 vf2b g1 g2 = true <-> exists f, iso_map any_attrs any_attrs g1 g2 f).
Proof. exact giso0_spec. Qed.
Print Assumptions C07_giso0_verdict.

(** graph_morphism.find_graph_isomorphism returns a mapping (not None — possibly the EMPTY mapping for two empty graphs) exactly when
    an isomorphism exists under its matchers (use_defaults: element / atom_map / hcount EQUAL with defaults "*", 0, 0 and order
    equal with default 1; otherwise structure only), with or without the fast invariant check (node count, edge count, sorted
    degree sequence), which is therefore a necessary condition *)
Theorem C07_fgi_verdict :
  forall vf2b, vf2b_contract vf2b ->
  forall use_defaults fast dstar dzero done g1 g2, gwf g1 -> gwf g2 ->
    (fgi vf2b use_defaults fast dstar dzero done g1 g2 = true <->
     exists f, iso_map (fgi_nm use_defaults dstar dzero) (fgi_em use_defaults done) g1 g2 f).
Proof. exact fgi_spec. Qed.
Print Assumptions C07_fgi_verdict.

Theorem C07_fgi_fast_transparent :
  forall vf2b, vf2b_contract vf2b ->
  forall use_defaults dstar dzero done g1 g2, gwf g1 -> gwf g2 ->
    fgi vf2b use_defaults true dstar dzero done g1 g2 = fgi vf2b use_defaults false dstar dzero done g1 g2.
Proof. exact fgi_fast_transparent. Qed.
Print Assumptions C07_fgi_fast_transparent.

(** the enumerator the model run uses lists every embedding once *)
Theorem C07_enum_complete_for_run : enum_complete (monos_g true).
Proof. exact monos_g_complete_contract. Qed.
Print Assumptions C07_enum_complete_for_run.

(** unlimited get_mappings (max_mappings=None) outside the equal-size shortcut returns EVERY embedding of the pattern, none twice
    (premise: VF2 enumerates completely — [enum_complete], proved for the verified enumerator, monitored by comparing mapping sets) *)
Theorem C07_embeddings_complete :
  forall vf2b enum, enum_complete enum ->
  forall gs e hi pi c, cache_inv gs c -> gwf (gnth gs hi) -> gwf (gnth gs pi) ->
    e_mm e = None -> shortcut (gnth gs hi) (gnth gs pi) = false ->
    NoDup (fst (get_mappings vf2b enum e hi (gnth gs hi) pi (gnth gs pi) c)) /\
    (forall f, emb true (nm_eng e) (em_eng e) (gnth gs hi) (gnth gs pi) f ->
       exists m, In m (fst (get_mappings vf2b enum e hi (gnth gs hi) pi (gnth gs pi) c)) /\
                 forall u, In u (node_ids (gnth gs pi)) -> mfun m u = f u).
Proof. exact embeddings_complete. Qed.
Print Assumptions C07_embeddings_complete.

(** max_mappings = k returns exactly the first k mappings of the unlimited result (k >= 1, or outside the shortcut) — any VF2 *)
Theorem C07_max_mappings_slice :
  forall vf2b enum gs e k hi pi c c', cache_inv gs c -> cache_inv gs c' ->
    (shortcut (gnth gs hi) (gnth gs pi) = false \/ (1 <= N.to_nat k)%nat) ->
    fst (get_mappings vf2b enum (set_mm e (Some k)) hi (gnth gs hi) pi (gnth gs pi) c) =
    firstn (N.to_nat k) (fst (get_mappings vf2b enum (set_mm e None) hi (gnth gs hi) pi (gnth gs pi) c')).
Proof. exact max_mappings_slice. Qed.
Print Assumptions C07_max_mappings_slice.

(** histories in which the caller edits graph OBJECTS in place ([run_hist], what [run_h] evaluates): without edits they are ordinary
    histories; engines that do not use the WL filter answer every query like the cache-free functions on the CURRENT graph values
    from any cache state (the class documents that the cache of filtering engines goes stale under in-place mutation —
    example ex_edit_stale); an edit keeps the cache invariant iff the entries of the edited object are right for its new value *)
Theorem C07_hist_no_edits :
  forall vf2b enum gs0 cur es qs c,
    run_hist vf2b enum gs0 cur es (map HQ qs) c = (run_from vf2b enum cur es qs c, end_cache vf2b enum cur es qs c).
Proof. exact hist_no_edits. Qed.
Print Assumptions C07_hist_no_edits.

Theorem C07_edits_wl_off :
  forall vf2b enum gs0 es hs, Forall (fun e => e_wl e = false) es ->
  forall cur c, fst (run_hist vf2b enum gs0 cur es hs c) = hist_pure vf2b enum gs0 cur es hs.
Proof. exact edits_wl_off. Qed.
Print Assumptions C07_edits_wl_off.

Theorem C07_edit_keeps_inv :
  forall gs i g' c, cache_inv gs c ->
    (forall na h, cache_get (i, na) c = Some h -> h = wl1_hash na g') -> (i < length gs)%nat ->
    cache_inv (set_nth gs i g') c.
Proof. exact edit_keeps_inv. Qed.
Print Assumptions C07_edit_keeps_inv.

(** histories in which NEW graph objects appear ([HNew i k]: object i is replaced by a new object holding value k — derived from
    another object of the history with copy() / subgraph().copy() / relabel_nodes / deepcopy and then edited, or built from scratch;
    the old object's entries leave the weak table with it): the cache invariant survives whatever the new value is, and as long as no
    object is edited in place EVERY engine, filtering or not, answers every query like the cache-free functions on the current values *)
Theorem C07_new_objects :
  forall vf2b enum gs0 es hs, no_edits hs ->
  forall cur c, cache_inv cur c -> fst (run_hist vf2b enum gs0 cur es hs c) = hist_pure vf2b enum gs0 cur es hs.
Proof. exact new_objects_harmless. Qed.
Print Assumptions C07_new_objects.

Theorem C07_new_object_keeps_inv :
  forall gs i g' c, cache_inv gs c -> cache_inv (set_nth gs i g') (drop_obj i c).
Proof. exact new_object_keeps_inv. Qed.
Print Assumptions C07_new_object_keeps_inv.

(** the general rule (it contains C07_edit_uncached and C07_new_objects, and is the exemption rule of the oracle): a history with
    in-place edits AND new objects answers every query like the cache-free functions on the current values — for every engine — provided
    each in-place edit hits an object that has no cache entry at that moment ([edits_uncached], proof/C07_Extra.v: the cache is threaded
    through the history exactly as [run_hist] threads it) *)
Theorem C07_safe_edits :
  forall vf2b enum gs0 es hs cur c, cache_inv cur c -> edits_uncached vf2b enum gs0 cur es hs c ->
    fst (run_hist vf2b enum gs0 cur es hs c) = hist_pure vf2b enum gs0 cur es hs.
Proof. exact safe_edits_harmless. Qed.
Print Assumptions C07_safe_edits.

(** NOT a clause of the property (its histories contain no edits) but worth stating: for a FILTERING engine an in-place edit leaves
    stale histograms behind and an answer can differ from the cache-free one — the limitation the class documents
    (witness: C-O vs C-[O-] queried, the second object edited into C-O, queried again: False instead of True) *)
Theorem C07_edits_stale_cache_documented : exists gs es hs,
  fst (run_hist has_mono (monos_g true) gs gs es hs []) <> hist_pure has_mono (monos_g true) gs gs es hs.
Proof. exact edit_stale_witness. Qed.
Print Assumptions C07_edits_stale_cache_documented.

(** ... and an in-place edit of an object without cache entries (not yet queried by a filtering engine) is harmless for EVERY engine *)
Theorem C07_edit_uncached :
  forall vf2b enum gs es i g' c qs, cache_inv gs c -> (forall na, cache_get (i, na) c = None) -> (i < length gs)%nat ->
    run_from vf2b enum (set_nth gs i g') es qs c = map (fun q => fst (step vf2b enum (set_nth gs i g') es q [])) qs.
Proof. exact edit_uncached. Qed.
Print Assumptions C07_edit_uncached.

(** ---------------------------------------------------------------- round 5: the option layer, returned mappings, intermediate values *)

(** (3, as called) The three boolean subgraph entry points — SubgraphMatch.subgraph_isomorphism (FnSM), the facade
    SubgraphMatch.is_subgraph (FnIS), graph_morphism.subgraph_isomorphism (FnGM) — with their options AS THE CALLER PASSES THEM
    ([sub_opts]: parallel name / default lists that the code zips, edge attribute None / "" / a name, check_type as an interned string
    with code 0 = "induced", comparators possibly None, back-end name) answer a boolean whenever [entry_ok] (an edge attribute other
    than None for the two SubgraphMatch functions; back-end "nx" for the facade), and that boolean is the definition of induced
    (check_type == "induced") resp. monomorphic (ANY other string) containment of child in parent under
      the label selection   zip(names, defaults)                                    [o_sel],
      the comparators       the given ones, eq for None; none at all for the facade  [entry_nc / entry_ec],
      the edge attribute    the given name; SubgraphMatch compares "" like any other (absent) name, graph_morphism switches edge
                            matching off for "" and None                              [entry_em]
    with use_filter on or off. *)
Theorem C07_entry_spec :
  forall vf2b, vf2b_contract vf2b ->
  forall fn o child parent, gwf child -> gwf parent -> entry_ok fn o ->
    exists b, sub_entry vf2b fn o child parent = RB b /\
      (b = true <-> contained (o_induced o) (nm_subc (entry_nc fn o) (o_sel o)) (em_subc (entry_ec fn o) (entry_em fn o)) parent child).
Proof. exact entry_spec. Qed.
Print Assumptions C07_entry_spec.

(** (5, as called) use_filter on / off gives the same answer at every entry point for all option values that answer at all *)
Theorem C07_entry_filter_transparent :
  forall vf2b, vf2b_contract vf2b ->
  forall fn o child parent, gwf child -> gwf parent -> entry_ok fn o ->
    sub_entry vf2b fn (set_filter o true) child parent = sub_entry vf2b fn (set_filter o false) child parent.
Proof. exact entry_filter_transparent. Qed.
Print Assumptions C07_entry_filter_transparent.

(** the facade forwards correctly: is_subgraph(backend="nx") IS subgraph_isomorphism with default comparators for every value of
    the remaining options (any VF2); every other back-end name raises — ImportError (2) for the uninstalled "mod" (1), ValueError (3)
    otherwise — and never answers *)
Theorem C07_is_subgraph_facade :
  forall vf2b o pattern host,
    sub_entry vf2b FnIS o pattern host =
    if N.eqb (o_backend o) 0 then sub_entry vf2b FnSM (no_cmps o) pattern host
    else RErr (if N.eqb (o_backend o) 1 then 2 else 3)%N.
Proof. exact is_subgraph_facade. Qed.
Print Assumptions C07_is_subgraph_facade.

(** check_type: every string other than exactly "induced" behaves like "monomorphism" (any VF2, any options) *)
Theorem C07_check_type_spellings :
  forall vf2b fn o ct child parent, ct <> 0%N ->
    sub_entry vf2b fn (set_ctype o ct) child parent = sub_entry vf2b fn (set_ctype o 1%N) child parent.
Proof. exact check_type_spellings. Qed.
Print Assumptions C07_check_type_spellings.

(** the intermediate value the correspondence compares for every boolean subgraph query (was a GraphMatcher built — i.e. did the
    pre-filter let the call through —, and which method decided): no matcher => the answer is False; otherwise the method is
    subgraph_is_isomorphic (2) for check_type "induced" and subgraph_is_monomorphic (4) for everything else *)
Theorem C07_entry_trace :
  forall vf2b fn o child parent, entry_ok fn o ->
    (entry_trace fn o child parent = 0%N -> sub_entry vf2b fn o child parent = RB false) /\
    (entry_trace fn o child parent <> 0%N -> entry_trace fn o child parent = if o_induced o then 2%N else 4%N).
Proof. exact entry_trace_spec. Qed.
Print Assumptions C07_entry_trace.

(** find_graph_isomorphism returns None exactly when its verdict (C07_fgi_verdict) is negative, and a returned mapping has exactly the
    nodes of G1 as keys, once each, and is an isomorphism G1 -> G2: a bijection onto the nodes of G2 preserving adjacency both ways
    and matched by the node / edge matchers ([iso_map] with G2 as host of [mfun m]; the matchers receive (G1 attrs, G2 attrs) as
    networkx hands them over, hence [flip2]).  WHICH isomorphism is VF2's choice: the statement holds for every enumeration order. *)
Theorem C07_fgi_mapping :
  forall vf2b enum, vf2b_contract vf2b -> enum_contract enum ->
  forall use_defaults fast dstar dzero done g1 g2, gwf g1 -> gwf g2 ->
    (fgi_map vf2b enum use_defaults fast dstar dzero done g1 g2 = None <-> fgi vf2b use_defaults fast dstar dzero done g1 g2 = false) /\
    (forall m, fgi_map vf2b enum use_defaults fast dstar dzero done g1 g2 = Some m ->
       NoDup (map fst m) /\ (forall u, In u (map fst m) <-> In u (node_ids g1)) /\
       iso_map (flip2 (fgi_nm use_defaults dstar dzero)) (flip2 (fgi_em use_defaults done)) g2 g1 (mfun m)).
Proof. exact fgi_map_spec. Qed.
Print Assumptions C07_fgi_mapping.

(** intermediate values of isomorphic / get_mappings compared on every query: when the recorded _pre_check answer is False the verdict
    is False / the result list is empty (from any cache state, any VF2) *)
Theorem C07_engine_traces :
  forall vf2b enum e i g1 j g2 c,
    (nth 2 (iso_trace e i g1 j g2 c) 9%N = 0%N -> fst (isomorphic vf2b e i g1 j g2 c) = false) /\
    (nth 0 (maps_trace e i g1 j g2 c) 9%N = 0%N -> fst (get_mappings vf2b enum e i g1 j g2 c) = []).
Proof. exact (fun vf2b enum e i g1 j g2 c => conj (iso_trace_verdict vf2b e i g1 j g2 c) (maps_trace_verdict vf2b enum e i g1 j g2 c)). Qed.
Print Assumptions C07_engine_traces.

(** GraphMatcherEngine.__init__ (what [eng_of], through which every engine of every case is built, evaluates): exactly the
    case-insensitive spellings of "nx" are accepted (omitted = "nx"; with the mod package absent every other name raises ValueError,
    code 3), and the engine carries the normalised options — attribute lists given as None or omitted are empty, wl1_filter is a
    bool (default False), max_mappings defaults to 1 and None means no limit *)
Theorem C07_engine_ctor :
  forall r, (r_backend_lower r = s_nx -> eng_ctor r = inl (ctor_fields r)) /\ (r_backend_lower r <> s_nx -> eng_ctor r = inr 3%N).
Proof. exact eng_ctor_spec. Qed.
Print Assumptions C07_engine_ctor.

(** induced containment implies monomorphic containment, at the entry points: whenever a call with check_type "induced" answers True,
    the same call with any other check_type answers True *)
Theorem C07_induced_implies_mono :
  forall vf2b, vf2b_contract vf2b ->
  forall fn o ct child parent, gwf child -> gwf parent -> entry_ok fn o -> ct <> 0%N ->
    sub_entry vf2b fn (set_ctype o 0%N) child parent = RB true -> sub_entry vf2b fn (set_ctype o ct) child parent = RB true.
Proof. exact entry_induced_implies_mono. Qed.
Print Assumptions C07_induced_implies_mono.

(** (2, helpers) invariance under relabelling and symmetry beyond the engine: every boolean subgraph entry point (raw options) gives
    the same answer when the child or the parent is renamed by any r injective on its nodes ... *)
Theorem C07_entry_relabel_invariant :
  forall vf2b, vf2b_contract vf2b ->
  forall fn o r child parent, gwf child -> gwf parent -> entry_ok fn o ->
    (inj_on r (node_ids child) -> sub_entry vf2b fn o (grelabel r child) parent = sub_entry vf2b fn o child parent) /\
    (inj_on r (node_ids parent) -> sub_entry vf2b fn o child (grelabel r parent) = sub_entry vf2b fn o child parent).
Proof. exact entry_relabel. Qed.
Print Assumptions C07_entry_relabel_invariant.

(** ... graph_isomorphism (with the default matchers and without matchers) and the verdict of find_graph_isomorphism are symmetric in
    their two arguments (their matchers are equalities; no hcount orientation as in the engine) ... *)
Theorem C07_helpers_symmetric :
  forall vf2b, vf2b_contract vf2b ->
  forall g1 g2, gwf g1 -> gwf g2 ->
    (forall a b d, giso vf2b a b d g1 g2 = giso vf2b a b d g2 g1) /\
    giso0 vf2b g1 g2 = giso0 vf2b g2 g1 /\
    (forall ud fast a b d, fgi vf2b ud fast a b d g1 g2 = fgi vf2b ud fast a b d g2 g1).
Proof. exact helpers_symmetric. Qed.
Print Assumptions C07_helpers_symmetric.

(** ... and invariant under an injective renaming of either argument *)
Theorem C07_helpers_relabel_invariant :
  forall vf2b, vf2b_contract vf2b ->
  forall g1 g2 r, gwf g1 -> gwf g2 ->
    (inj_on r (node_ids g1) ->
       (forall a b d, giso vf2b a b d (grelabel r g1) g2 = giso vf2b a b d g1 g2) /\
       giso0 vf2b (grelabel r g1) g2 = giso0 vf2b g1 g2 /\
       (forall ud fast a b d, fgi vf2b ud fast a b d (grelabel r g1) g2 = fgi vf2b ud fast a b d g1 g2)) /\
    (inj_on r (node_ids g2) ->
       (forall a b d, giso vf2b a b d g1 (grelabel r g2) = giso vf2b a b d g1 g2) /\
       giso0 vf2b g1 (grelabel r g2) = giso0 vf2b g1 g2 /\
       (forall ud fast a b d, fgi vf2b ud fast a b d g1 (grelabel r g2) = fgi vf2b ud fast a b d g1 g2)).
Proof. exact helpers_relabel. Qed.
Print Assumptions C07_helpers_relabel_invariant.

(** the two engine entry points agree: on graphs with equally many nodes isomorphic(g_i, g_j) holds exactly when
    get_mappings(g_i, g_j) returns something (max_mappings <> 0), whatever the cache states *)
Theorem C07_iso_maps_consistent :
  forall vf2b enum, vf2b_contract vf2b -> enum_contract enum ->
  forall gs e i j c c', cache_inv gs c -> cache_inv gs c' -> gwf (gnth gs i) -> gwf (gnth gs j) ->
    n_nodes (gnth gs i) = n_nodes (gnth gs j) -> e_mm e <> Some 0%N ->
    (fst (isomorphic vf2b e i (gnth gs i) j (gnth gs j) c) = true <->
     fst (get_mappings vf2b enum e i (gnth gs i) j (gnth gs j) c') <> []).
Proof. exact iso_maps_consistent. Qed.
Print Assumptions C07_iso_maps_consistent.

(** get_mappings returns something EXACTLY when the pattern is contained (max_mappings <> 0): the converse of (4) *)
Theorem C07_embeddings_iff :
  forall vf2b enum, vf2b_contract vf2b -> enum_contract enum ->
  forall gs e hi pi c, cache_inv gs c -> gwf (gnth gs hi) -> gwf (gnth gs pi) -> e_mm e <> Some 0%N ->
    (fst (get_mappings vf2b enum e hi (gnth gs hi) pi (gnth gs pi) c) <> [] <->
     contained true (nm_eng e) (em_eng e) (gnth gs hi) (gnth gs pi)).
Proof. exact embeddings_iff. Qed.
Print Assumptions C07_embeddings_iff.

(** isomorphic never means "is a subgraph of": graphs with different numbers of nodes are not isomorphic, for any engine *)
Theorem C07_iso_unequal_orders :
  forall vf2b, vf2b_contract vf2b ->
  forall gs e i j c, cache_inv gs c -> gwf (gnth gs i) -> gwf (gnth gs j) ->
    n_nodes (gnth gs i) <> n_nodes (gnth gs j) -> fst (isomorphic vf2b e i (gnth gs i) j (gnth gs j) c) = false.
Proof. exact iso_unequal_orders. Qed.
Print Assumptions C07_iso_unequal_orders.

(** argument guards: an engine method handed a non-Graph argument raises TypeError (code 1) before anything else and leaves the cache
    alone; find_graph_isomorphism on two different networkx graph classes answers None (any VF2) *)
Theorem C07_argument_guards :
  forall vf2b enum gs es c,
  (forall mp e i j, (i = None \/ j = None) -> step vf2b enum gs es (QObj mp e i j) c = (L [tN 99; tN 1], c)) /\
  (forall t1 t2 i j ud fa a b d, t1 <> t2 -> step vf2b enum gs es (QFgiT t1 t2 i j ud fa a b d) c = (tbool false, c)).
Proof. exact argument_guards. Qed.
Print Assumptions C07_argument_guards.

(** (2, embeddings) whether get_mappings finds the pattern does not depend on the node numbering of the host or of the pattern *)
Theorem C07_maps_relabel_invariant :
  forall vf2b enum, vf2b_contract vf2b -> enum_contract enum ->
  forall e r gs gs' hi pi c c', cache_inv gs c -> cache_inv gs' c' -> gwf (gnth gs hi) -> gwf (gnth gs pi) -> e_mm e <> Some 0%N ->
    (gnth gs' hi = grelabel r (gnth gs hi) /\ inj_on r (node_ids (gnth gs hi)) /\ gnth gs' pi = gnth gs pi) \/
    (gnth gs' pi = grelabel r (gnth gs pi) /\ inj_on r (node_ids (gnth gs pi)) /\ gnth gs' hi = gnth gs hi) ->
    (fst (get_mappings vf2b enum e hi (gnth gs' hi) pi (gnth gs' pi) c') <> [] <->
     fst (get_mappings vf2b enum e hi (gnth gs hi) pi (gnth gs pi) c) <> []).
Proof. exact maps_relabel_invariant. Qed.
Print Assumptions C07_maps_relabel_invariant.

(** a non-empty get_mappings result implies that _pre_check passes on the same arguments (any cache states) *)
Theorem C07_maps_implies_pre_check :
  forall vf2b enum gs e hi pi c c', cache_inv gs c -> cache_inv gs c' -> gwf (gnth gs hi) -> gwf (gnth gs pi) ->
    fst (get_mappings vf2b enum e hi (gnth gs hi) pi (gnth gs pi) c) <> [] -> fst (pre_check e hi (gnth gs hi) pi (gnth gs pi) c') = true.
Proof. exact maps_implies_pre_check. Qed.
Print Assumptions C07_maps_implies_pre_check.

(** isomorphic is a preorder on graphs for every engine and all cache states: reflexive, and transitive (with C07_symmetric: an
    equivalence on graphs whose hydrogen counts are equal or absent) *)
Theorem C07_iso_preorder :
  forall vf2b, vf2b_contract vf2b ->
  forall gs e,
  (forall i c, cache_inv gs c -> gwf (gnth gs i) -> fst (isomorphic vf2b e i (gnth gs i) i (gnth gs i) c) = true) /\
  (forall i j k c1 c2 c3, cache_inv gs c1 -> cache_inv gs c2 -> cache_inv gs c3 -> gwf (gnth gs i) -> gwf (gnth gs j) -> gwf (gnth gs k) ->
     fst (isomorphic vf2b e i (gnth gs i) j (gnth gs j) c1) = true -> fst (isomorphic vf2b e j (gnth gs j) k (gnth gs k) c2) = true ->
     fst (isomorphic vf2b e i (gnth gs i) k (gnth gs k) c3) = true).
Proof. exact iso_preorder. Qed.
Print Assumptions C07_iso_preorder.

(** (6, the state itself) the class-level cache as the correspondence observes it after EVERY query ([cache_trace]): a query never
    removes a key and adds only keys whose attribute selection is the node_attrs of a FILTERING engine of the case; hence after any
    history from the empty cache every key belongs to a filtering engine, and the observed key sets form an increasing chain (any VF2) *)
Theorem C07_cache_keys :
  forall vf2b enum gs es,
  (forall q c, incl (keys c) (keys (snd (step vf2b enum gs es q c))) /\
               (forall k, In k (keys (snd (step vf2b enum gs es q c))) -> In k (keys c) \/ key_of_filtering_engine es k)) /\
  (forall qs k, In k (keys (end_cache vf2b enum gs es qs [])) -> key_of_filtering_engine es k) /\
  (forall qs c n k1 k2, nth_error (cache_trace vf2b enum gs es qs c) n = Some k1 ->
                        nth_error (cache_trace vf2b enum gs es qs c) (S n) = Some k2 -> incl k1 k2).
Proof. exact cache_keys_all. Qed.
Print Assumptions C07_cache_keys.

(** ... and exactly WHEN it is written: _pre_check touches the cache iff the engine filters, the two graphs have equally many nodes
    and the host has at least the pattern's number of edges — then both (graph, node_attrs) entries are present afterwards; in every
    other case the cache is returned unchanged *)
Theorem C07_cache_writes :
  forall e hi H pi P c,
  (e_wl e = true /\ n_nodes H = n_nodes P /\ n_edges P <= n_edges H ->
     In (hi, e_na e) (keys (snd (pre_check e hi H pi P c))) /\ In (pi, e_na e) (keys (snd (pre_check e hi H pi P c)))) /\
  (~ (e_wl e = true /\ n_nodes H = n_nodes P /\ n_edges P <= n_edges H) -> snd (pre_check e hi H pi P c) = c).
Proof. exact pre_check_writes. Qed.
Print Assumptions C07_cache_writes.

(** ---------------------------------------------------------------- round 5: the common-subgraph helpers of graph_morphism.py
    (outside the clauses of the property text; modelled, compared and proved because they are built from the same matcher calls)

    Vocabulary (proof/C07_MCCS.v): [reach g s x] = x is reachable from s along edges ([Reach.conn] over [nbrs]);
    [all_connected g] = every node is reachable from every node; [induced_sub small S] = the subgraph of [small] induced by the
    node list S; [mccs_pick g1 g2] = (smaller, larger) — graph_1 counts as the smaller one when the node counts are equal. *)

(** maximum_connected_common_subgraph(g1, g2, names, defaults, edge_attribute): the result
    (a) is the subgraph of the smaller input induced by a duplicate-free set S of its nodes (|S| = number of nodes of the result; the
        empty graph for S = []),
    (b) has at most one node or is connected,
    (c) occurs as an INDUCED subgraph of the larger input under the matchers (selected node labels with defaults equal, edge
        attribute with default 1 equal),
    (d) and is maximal: no duplicate-free node set S' of the smaller input whose induced subgraph is connected (or a single node) and
        occurs in the larger input has more nodes. *)
Theorem C07_mccs :
  forall vf2b, vf2b_contract vf2b ->
  forall names defaults eattr done g1 g2, gwf g1 -> gwf g2 ->
  let small := fst (mccs_pick g1 g2) in let large := snd (mccs_pick g1 g2) in
  let nm := mccs_nm names defaults in let em := mccs_em eattr done in
  let r := mccs vf2b names defaults eattr done g1 g2 in
  (exists S, NoDup S /\ incl S (node_ids small) /\ r = induced_sub small S /\ n_nodes r = length S) /\
  (n_nodes r <= 1 \/ all_connected r) /\
  contained true nm em large r /\
  (forall S', NoDup S' -> incl S' (node_ids small) ->
     (n_nodes (induced_sub small S') <= 1 \/ all_connected (induced_sub small S')) ->
     contained true nm em large (induced_sub small S') -> length S' <= n_nodes r).
Proof. exact mccs_spec. Qed.
Print Assumptions C07_mccs.

(** the SIZE of the result does not depend on the argument order (the matchers of the code are equalities, hence symmetric); for
    graphs of different orders the two calls return the same graph, for equal orders the node ids come from the first argument *)
Theorem C07_mccs_size_symmetric :
  forall vf2b, vf2b_contract vf2b ->
  forall names defaults eattr done g1 g2, gwf g1 -> gwf g2 ->
    n_nodes (mccs vf2b names defaults eattr done g1 g2) = n_nodes (mccs vf2b names defaults eattr done g2 g1) /\
    (n_nodes g1 <> n_nodes g2 -> mccs vf2b names defaults eattr done g1 g2 = mccs vf2b names defaults eattr done g2 g1).
Proof. exact mccs_size_symmetric. Qed.
Print Assumptions C07_mccs_size_symmetric.

(** the intermediate value compared for every common-subgraph call — the NUMBER of GraphMatcher objects built — follows the search:
    per subset size, [tries_in] reports success exactly when a candidate is found, counts at most one construction per subset and at
    least one when it reports success (any VF2) *)
Theorem C07_mccs_tries :
  forall vf2b nm em larger smaller l,
  (snd (tries_in vf2b nm em larger smaller l) = true <-> first_some (candidate vf2b nm em larger smaller) l <> None) /\
  fst (tries_in vf2b nm em larger smaller l) <= length l /\
  (snd (tries_in vf2b nm em larger smaller l) = true -> 1 <= fst (tries_in vf2b nm em larger smaller l)).
Proof. exact tries_in_spec. Qed.
Print Assumptions C07_mccs_tries.

(** the boolean connectivity test the model evaluates (nx.is_connected on a non-empty candidate) is connectedness *)
Theorem C07_connected_test :
  forall g, gwf g -> node_ids g <> [] -> (connected g = true <-> all_connected g).
Proof. exact connected_spec. Qed.
Print Assumptions C07_connected_test.

(** heuristics_MCCS: [] raises (None), one graph comes back as it is, two graphs give their mccs, more graphs fold from the left and
    stop at the first empty intermediate result (any VF2) *)
Theorem C07_heuristics_mccs :
  forall vf2b names defaults eattr done,
  hmccs vf2b names defaults eattr done [] = None /\
  (forall g, hmccs vf2b names defaults eattr done [g] = Some g) /\
  (forall g1 g2, hmccs vf2b names defaults eattr done [g1; g2] = Some (mccs vf2b names defaults eattr done g1 g2)) /\
  (forall g1 g2 g3 r, hmccs vf2b names defaults eattr done (g1 :: g2 :: g3 :: r) =
     let m := mccs vf2b names defaults eattr done g1 g2 in
     if Nat.eqb (n_nodes m) 0 then Some m else hmccs vf2b names defaults eattr done (m :: g3 :: r)).
Proof. exact hmccs_spec. Qed.
Print Assumptions C07_heuristics_mccs.

(** ---------------------------------------------------------------- round 5: the third anchored pre-filter, SubgraphSearchEngine._quick_pre_filter
    ([quick_pre_filter]; [find_all na ea thr pf H P] = find_subgraph_mappings(strategy="all", threshold=thr, pre_filter=pf)).

    (6, REFUTED for this pre-filter) "turning any cheap pre-filter on or off never changes a result set" does NOT hold for it: its
    estimate guard (product of candidate counts > threshold * 1e4) empties results that exist.  Witness: a chain of 6 carbon atoms in a
    chain of 12, element + order, threshold 20: 14 monomorphisms without the pre-filter, [] with it.  Documented behaviour of
    find_subgraph_mappings ("Empty if none or if any guard (pre-filter or enumeration) exceeds the threshold"), kept as it is:
    known finding C07:quick_pre_filter:estimate-guard:chain6-in-chain12 (known_findings.d/C07.json), replayed on the implementation by
    regress case corpus/regress/C07/qpf.json. *)
Theorem C07_quick_pre_filter_refuted : exists na ea thr H P, gwf H /\ gwf P /\
  find_all na ea thr false H P <> [] /\ find_all na ea thr true H P = [].
Proof. exact quick_pre_filter_refuted. Qed.
Print Assumptions C07_quick_pre_filter_refuted.

(** what DOES hold for all inputs: the pre-filter only ever empties a result ... *)
Theorem C07_quick_pre_filter_only_empties :
  forall na ea thr H P, find_all na ea thr true H P = find_all na ea thr false H P \/ find_all na ea thr true H P = [].
Proof. exact quick_pre_filter_only_empties. Qed.
Print Assumptions C07_quick_pre_filter_only_empties.

(** ... and it changes NOTHING whenever the estimate guard does not decide ([qpf_guard] = false): the only other reason for
    _quick_pre_filter to say "skip" is a pattern node without any candidate (selected attributes equal, hcount host >= pattern, degree
    host >= pattern), and then no monomorphism exists — a monomorphism cannot lower a degree *)
Theorem C07_quick_pre_filter_transparent_below_guard :
  forall na ea thr H P, gwf H -> gwf P ->
    qpf_guard na H P thr (node_ids P) 1 = false -> find_all na ea thr true H P = find_all na ea thr false H P.
Proof. exact quick_pre_filter_transparent_below_guard. Qed.
Print Assumptions C07_quick_pre_filter_transparent_below_guard.
