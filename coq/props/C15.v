(** C15 — reaction-network store stays consistent under every history of edits.
    Statements only; every proof is [exact <lemma of proof/C15_Proof.v>]. *)
From stdpp Require Import gmap strings sets pretty sorting.
From SK Require Import model.C15_Model proof.C15_Proof.
From SK Require Import model.C15_Ext proof.C15_Ext proof.C15_ExtQ proof.C15_ExtP proof.C15_ExtS proof.C15_ExtL proof.C15_ExtM proof.C15_ExtH proof.C15_ExtEx.
From SK Require Import model.C15_View proof.C15_View.
From SK Require Import model.C16_Model model.C15_ViewObs proof.C15_ViewGraph.
From SK Require Import proof.C16_Defs model.C15_Repr proof.C15_Repr.
From SK Require Import model.C15_Side proof.C15_Side model.C15_Bulk proof.C15_Bulk.
From SK Require Import proof.C15_Species proof.C15_Prune.
Local Open Scope string_scope.

(** ** 1. The store invariant *)

(** What [Inv] says, written out: both hand-maintained indices list exactly the
    producing / consuming reactions, the species set is exactly the occurring
    species plus explicitly kept ones, labels only for present species, the
    insertion-order list is a duplicate-free enumeration of the keys, no stored
    reaction is empty or has an empty rule name. *)
Theorem C15_inv_meaning : forall s : net,
  Inv s <->
  (forall x e, e ∈ default ∅ (s_in s !! x) <-> exists rx, edges s !! e = Some rx /\ x ∈ dom (r_rhs rx)) /\
  (forall x e, e ∈ default ∅ (s_out s !! x) <-> exists rx, edges s !! e = Some rx /\ x ∈ dom (r_lhs rx)) /\
  (forall x, x ∈ species s <->
     (exists e rx, edges s !! e = Some rx /\ x ∈ rxn_species rx) \/ (x ∈ kept s /\ x ∈ species s)) /\
  dom (mol s) ⊆ species s /\
  NoDup (order s) /\ (forall e, e ∈ order s <-> is_Some (edges s !! e)) /\
  (forall e rx, edges s !! e = Some rx -> rxn_empty rx = false /\ r_rule rx <> "").
Proof. exact Inv_unfold. Qed.
Print Assumptions C15_inv_meaning.

Theorem C15_inv_init : Inv empty_net.
Proof. exact Inv_init. Qed.
Print Assumptions C15_inv_init.

(** every operation, every outcome (including the error outcomes), any world *)
Theorem C15_inv_step : forall (w : world) (o : op), Forall Inv w -> Forall Inv (step w o).1.
Proof. exact step_Inv. Qed.
Print Assumptions C15_inv_step.

Theorem C15_inv_reachable : forall (n : nat) (ops : list op),
  Forall Inv (fold_left (fun w o => (step w o).1) ops (init_world n)).
Proof. exact reachable_Inv. Qed.
Print Assumptions C15_inv_reachable.

(** copy / merge independence: an operation changes at most the network it
    targets ([OCopy i j]: only [j]; [OMerge i j]: only [i]) *)
Theorem C15_frame : forall (w : world) (o : op) (k : nat),
  k <> match o with
       | OAdd i _ _ _ _ | ORemoveRxn i _ | ORemoveSpecies i _ _ | OMerge i _ _
       | OAssignMol i _ _ | OSetMolMap i _ _ _ => i
       | OCopy _ j => j
       end ->
  getn (step w o).1 k = getn w k.
Proof. exact step_frame. Qed.
Print Assumptions C15_frame.

(** ** 2. No internal error; generated ids are fresh; the id search never gives up *)

(** the stale-index branch of remove_species is unreachable *)
Theorem C15_no_internal_error : forall (s : net) (x : string) (prune : bool),
  Inv s -> (remove_species s x prune).2 <> Some InternalError.
Proof. exact remove_species_no_internal_error. Qed.
Print Assumptions C15_no_internal_error.

(** a generated id never names a stored reaction ("no id refers to two reactions") *)
Theorem C15_fresh_ok : forall (s : net) (rule : string) (c : N) (e : string),
  next_id s rule = Some (c, e) -> edges s !! e = None.
Proof. exact next_id_fresh. Qed.
Print Assumptions C15_fresh_ok.

(** the loop bound [S (size (edges s))] of the model's id search suffices *)
Theorem C15_fresh_total : forall (s : net) (rule : string), next_id s rule <> None.
Proof. exact next_id_total. Qed.
Print Assumptions C15_fresh_total.

(** ** 3. Refinement to the abstract store  id ↦ reaction  (the [edges] map) *)

Theorem C15_add_spec : forall (s : net) (l r : side) (rule : string) (eid : option string)
                              (s' : net) (er : option err) (e : string),
  add s l r rule eid = (s', er, e) ->
  (forall e0, eid = Some e0 -> e = e0) /\
  match er with
  | None => edges s !! e = None /\ rxn_empty (Rxn (norm_rule rule) l r) = false /\
            edges s' = <[e := Rxn (norm_rule rule) l r]> (edges s) /\
            order s' = (order s ++ [e])%list
  | Some er' => edges s' = edges s /\ order s' = order s /\
            (er' = KeyError <-> exists e0, eid = Some e0 /\ is_Some (edges s !! e0)) /\
            (er' = InternalError <-> eid = None /\ next_id s (norm_rule rule) = None)
  end.
Proof. exact add_spec. Qed.
Print Assumptions C15_add_spec.

Theorem C15_remove_rxn_spec : forall (s : net) (e : string) (s' : net) (er : option err),
  remove_rxn s e = (s', er) ->
  (er = None /\ is_Some (edges s !! e) /\ edges s' = delete e (edges s) /\
   order s' = filter (fun e' => e' <> e) (order s)) \/
  (er = Some KeyError /\ edges s !! e = None /\ s' = s).
Proof. exact remove_rxn_spec. Qed.
Print Assumptions C15_remove_rxn_spec.

Theorem C15_remove_species_spec : forall (s : net) (x : string) (prune : bool) (s' : net) (er : option err),
  Inv s -> remove_species s x prune = (s', er) ->
  (er = None /\ x ∈ species s /\
   edges s' = omap (fun rx => let rx' := Rxn (r_rule rx) (delete x (r_lhs rx)) (delete x (r_rhs rx)) in
                              if rxn_empty rx' then None else Some rx') (edges s)) \/
  (er = Some KeyError /\ x ∉ species s /\ s' = s).
Proof. exact remove_species_spec. Qed.
Print Assumptions C15_remove_species_spec.

(** ... in particular every other species keeps its coefficients in every reaction it occurs in *)
Theorem C15_remove_species_others : forall (s : net) (x : string) (prune : bool) (s' : net)
                                           (e : string) (rx : rxn) (y : string),
  Inv s -> remove_species s x prune = (s', None) -> edges s !! e = Some rx -> y <> x ->
  y ∈ rxn_species rx ->
  exists rx', edges s' !! e = Some rx' /\ r_rule rx' = r_rule rx /\
    (forall z, z <> x -> r_lhs rx' !! z = r_lhs rx !! z /\ r_rhs rx' !! z = r_rhs rx !! z) /\
    r_lhs rx' !! x = None /\ r_rhs rx' !! x = None.
Proof. exact remove_species_others. Qed.
Print Assumptions C15_remove_species_others.

(** merge never fails when the other network is well-formed; own reactions are
    kept under their own ids; every reaction of the other network is stored,
    unchanged, under an id that was free; nothing else appears; without
    prefixing and without collisions the ids are kept *)
Theorem C15_merge_spec : forall (s o : net) (prefix : bool) (s' : net) (er : option err),
  Inv o -> merge s o prefix = (s', er) ->
  er = None /\ edges s ⊆ edges s' /\
  (forall e rx, edges o !! e = Some rx -> exists e', edges s' !! e' = Some rx /\ edges s !! e' = None) /\
  (forall e' rx, edges s' !! e' = Some rx -> edges s !! e' = Some rx \/ exists e, edges o !! e = Some rx) /\
  (prefix = false -> dom (edges s) ## dom (edges o) ->
   edges s' = edges s ∪ edges o /\ order s' = (order s ++ order o)%list).
Proof. exact merge_spec. Qed.
Print Assumptions C15_merge_spec.

(** ** 4. Incidence = products − reactants *)

Theorem C15_incidence : forall (s : net) (x e : string) (v : Z),
  (x, e, v) ∈ incidence s <->
  exists rx, edges s !! e = Some rx /\ x ∈ rxn_species rx /\
             v = (coef (r_rhs rx) x - coef (r_lhs rx) x)%Z.
Proof. exact incidence_spec. Qed.
Print Assumptions C15_incidence.

Theorem C15_incidence_functional : forall (s : net) (x e : string) (v1 v2 : Z),
  (x, e, v1) ∈ incidence s -> (x, e, v2) ∈ incidence s -> v1 = v2.
Proof. exact incidence_functional. Qed.
Print Assumptions C15_incidence_functional.

(** ** 5. History level: "every reaction that was added and not removed is still
    present under its own id with its own stoichiometry" — one step of any
    history keeps every stored reaction of every network unchanged under its id,
    unless the operation removes exactly that reaction, strips one of its
    species, or overwrites the whole network by a copy; together with
    [C15_add_spec] (a successful add stores exactly the given reaction under a
    free id) and [C15_inv_reachable] this is the history statement. *)
Theorem C15_stored_kept : forall (w : world) (o : op) (k : nat) (e : string) (rx : rxn),
  Forall Inv w -> edges (getn w k) !! e = Some rx ->
  ~ match o with
    | ORemoveRxn i e' => i = k /\ e' = e
    | ORemoveSpecies i x _ => i = k /\ x ∈ rxn_species rx
    | OCopy _ j => j = k
    | _ => False
    end ->
  edges (getn (step w o).1 k) !! e = Some rx.
Proof. exact step_stored_kept. Qed.
Print Assumptions C15_stored_kept.

(** a copy is the copied network (and by [C15_frame] later edits of the original do not reach it) *)
Theorem C15_copy_spec : forall (w : world) (i j : nat),
  j < length w -> getn (step w (OCopy i j)).1 j = getn w i.
Proof. exact copy_spec. Qed.
Print Assumptions C15_copy_spec.

(** ** 6. (round 3) The whole public surface as a history language: [op2] / [step2]
    of model/C15_Ext.v — input forms of RXNSide.from_any, sides given as RXNSide
    OBJECTS (of another network, or caller-held and edited later), duck-typed
    merge, coefficient edits through a returned edge, and every read-only view. *)

(** RXNSide normalisation: the stored side is the positive integer multiset of
    the positive counts given per label (a bare label counts 1, an empty bare
    label is skipped); a label is a key exactly when its total is positive *)
Theorem C15_normalize_spec : forall (l : list item) (x : string),
  coef (normalize_items l) x =
  foldr (fun it acc =>
           (match it with
            | IPair s c => if decide (s = x) then Z.max 0 c else 0
            | ILabel s => if decide (s = x /\ s <> "") then 1 else 0
            end + acc)%Z) 0%Z l.
Proof. exact coef_normalize_items. Qed.
Print Assumptions C15_normalize_spec.

(** the pair form of the old history language is the all-pairs case *)
Theorem C15_normalize_pairs : forall l : list (string * Z),
  normalize l = normalize_items ((fun p => IPair p.1 p.2) <$> l).
Proof. exact normalize_as_items. Qed.
Print Assumptions C15_normalize_pairs.

(** the old history language is embedded unchanged *)
Theorem C15_step2_embeds : forall (w : world2) (o : op),
  nets (step2 w (OBase o)).1.1 = (step (nets w) o).1 /\ (step2 w (OBase o)).1.2 = (step (nets w) o).2 /\
  pool (step2 w (OBase o)).1.1 = pool w.
Proof. exact step2_base. Qed.
Print Assumptions C15_step2_embeds.

(** every operation of the extended language, every outcome, keeps the invariant *)
Theorem C15_inv_step2 : forall (w : world2) (o : op2),
  Forall Inv (nets w) -> Forall Inv (nets (step2 w o).1.1).
Proof. exact step2_Inv. Qed.
Print Assumptions C15_inv_step2.

Theorem C15_inv_reachable2 : forall (n k : nat) (ops : list op2),
  Forall Inv (nets (fold_left (fun w o => (step2 w o).1.1) ops (init_world2 n k))).
Proof. exact reachable2_Inv. Qed.
Print Assumptions C15_inv_reachable2.

(** an operation changes at most the network it targets; queries and edits of
    caller-held side objects change no network at all (the store owns copies of
    the sides it was given: [OAddFrom] / [OAddPool] store VALUES) *)
Theorem C15_frame2 : forall (w : world2) (o : op2) (k : nat),
  match o with
  | OBase (OAdd i _ _ _ _) | OBase (ORemoveRxn i _) | OBase (ORemoveSpecies i _ _) | OBase (OMerge i _ _)
  | OBase (OAssignMol i _ _) | OBase (OSetMolMap i _ _ _)
  | OAddItems i _ _ _ _ | OAddFrom i _ _ _ _ | OAddPool i _ _ _ _ | OMergeRaw i _ _
  | OSideSet i _ _ _ _ | OSideIncr i _ _ _ _ => Some i
  | OBase (OCopy _ j) => Some j
  | OPoolNew _ _ | OPoolEdit _ _ _ | OQuery _ _ | OPoolUpdate _ _ => None
  end <> Some k ->
  getn (nets (step2 w o).1.1) k = getn (nets w) k.
Proof. intros w o k H. apply step2_frame. destruct o as [[]| | | | | | | | | |]; exact H. Qed.
Print Assumptions C15_frame2.

(** queries never change the state (and never fail as mutators) *)
Theorem C15_query_pure : forall (w : world2) (i : nat) (q : query),
  (step2 w (OQuery i q)).1.1 = w /\ (step2 w (OQuery i q)).1.2 = None.
Proof. exact query_pure. Qed.
Print Assumptions C15_query_pure.

(** edits of caller-held side objects (before or after they were passed to
    add_rxn) change no network; RXNSide.update adds the normalised counts *)
Theorem C15_caller_objects : forall (w : world2) (k : nat) (x : string) (c : Z) (l : list item) (y : string),
  nets (step2 w (OPoolEdit k x c)).1.1 = nets w /\ nets (step2 w (OPoolNew k l)).1.1 = nets w /\
  nets (step2 w (OPoolUpdate k l)).1.1 = nets w /\
  coef (side_update (getp (pool w) k) l) y =
    (coef (getp (pool w) k) y +
     foldr (fun it acc =>
              (match it with
               | IPair s c => if decide (s = y) then Z.max 0 c else 0
               | ILabel s => if decide (s = y /\ s <> "") then 1 else 0
               end + acc)%Z) 0%Z l)%Z.
Proof.
  intros. split; [apply pool_edit_pure|]. split; [apply pool_new_pure|]. split; [apply pool_update_pure|].
  apply coef_side_update.
Qed.
Print Assumptions C15_caller_objects.

(** sides handed over as RXNSide objects are stored BY VALUE: a successful add
    stores, under a free id, exactly the sides the objects had at call time (and
    by [C15_frame2] / [C15_stored_kept2] / [C15_caller_objects] nothing done
    later to those objects or to the network they came from reaches it) *)
Theorem C15_added_objects_by_value :
  (forall (w : world2) (i kl kr : nat) (rule : string) (eid : option string),
     (i < length (nets w))%nat -> (step2 w (OAddPool i kl kr rule eid)).1.2 = None ->
     exists e, edges (getn (nets w) i) !! e = None /\
       edges (getn (nets (step2 w (OAddPool i kl kr rule eid)).1.1) i) !! e =
         Some (Rxn (norm_rule rule) (getp (pool w) kl) (getp (pool w) kr)) /\
       pool (step2 w (OAddPool i kl kr rule eid)).1.1 = pool w) /\
  (forall (w : world2) (i j : nat) (e0 rule : string) (eid : option string) (rx : rxn),
     (i < length (nets w))%nat -> edges (getn (nets w) j) !! e0 = Some rx ->
     (step2 w (OAddFrom i j e0 rule eid)).1.2 = None ->
     exists e, edges (getn (nets w) i) !! e = None /\
       edges (getn (nets (step2 w (OAddFrom i j e0 rule eid)).1.1) i) !! e =
         Some (Rxn (norm_rule rule) (r_lhs rx) (r_rhs rx))).
Proof. split; [exact add_pool_stores|exact add_from_stores]. Qed.
Print Assumptions C15_added_objects_by_value.

(** merge of a duck-typed other (plain sides, id possibly missing, raw rule): stops
    with ValueError at the first edge whose sides normalise to nothing (the edges
    before it stay merged) and otherwise succeeds — no other error; own reactions
    are kept; every raw edge is stored, normalised, under an id that was free;
    nothing else appears *)
Theorem C15_merge_raw_spec : forall (prefix : bool) (es : list raw_edge) (s s' : net) (er : option err),
  let raw := fun re : raw_edge => Rxn (norm_rule re.1.1.2) (normalize_items re.1.2) (normalize_items re.2) in
  merge_raw s es prefix = (s', er) ->
  (er = None \/ er = Some ValueError) /\
  (er = None <-> Forall (fun re => rxn_empty (raw re) = false) es) /\
  edges s ⊆ edges s' /\
  (er = None -> forall re, re ∈ es -> exists e', edges s' !! e' = Some (raw re) /\ edges s !! e' = None) /\
  (forall e' rx, edges s' !! e' = Some rx -> edges s !! e' = Some rx \/ exists re, re ∈ es /\ rx = raw re).
Proof. exact merge_raw_spec. Qed.
Print Assumptions C15_merge_raw_spec.

(** *** molecule labels: stored exactly for present species, never for reaction ids *)

Theorem C15_set_mol_map_spec : forall (s : net) (mp : list (string * string)) (strict clear : bool)
                                      (s' : net) (er : option err),
  set_mol_map s mp strict clear = (s', er) ->
  (er = Some KeyError /\ s' = s /\ strict = true /\ exists p, p ∈ mp /\ p.1 ∉ species s) \/
  (er = None /\ (strict = true -> forall p, p ∈ mp -> p.1 ∈ species s) /\
   (species s' = species s /\ edges s' = edges s /\ order s' = order s /\ s_in s' = s_in s /\
    s_out s' = s_out s /\ counters s' = counters s /\ kept s' = kept s) /\
   mol s' = list_to_map (reverse (filter (fun p => p.1 ∈ species s) mp)) ∪ (if clear then ∅ else mol s)).
Proof. exact set_mol_map_spec. Qed.
Print Assumptions C15_set_mol_map_spec.

(** a name that is not a present species — e.g. the id of a stored reaction, or a
    species pruned earlier — gets no label, and strict=True rejects the table *)
Theorem C15_set_mol_map_absent : forall (s : net) (mp : list (string * string)) (strict clear : bool)
                                        (s' : net) (er : option err) (x : string),
  Inv s -> set_mol_map s mp strict clear = (s', er) -> x ∉ species s ->
  mol s' !! x = None /\ (strict = true -> x ∈ mp.*1 -> er = Some KeyError).
Proof. exact set_mol_map_absent. Qed.
Print Assumptions C15_set_mol_map_absent.

(** a present species gets the LAST label the table gives for it, whatever the
    label is (no truthiness test) *)
Theorem C15_set_mol_map_present : forall (s : net) (mp : list (string * string)) (strict clear : bool)
                                         (s' : net) (x m : string),
  set_mol_map s mp strict clear = (s', None) -> x ∈ species s ->
  (exists l1 l2, mp = (l1 ++ (x, m) :: l2)%list /\ x ∉ l2.*1) -> mol s' !! x = Some m.
Proof. exact set_mol_map_present. Qed.
Print Assumptions C15_set_mol_map_present.

Theorem C15_assign_mol_spec : forall (s : net) (x m : string) (s' : net) (er : option err),
  assign_mol s x m = (s', er) ->
  (er = None /\ x ∈ species s /\
   (species s' = species s /\ edges s' = edges s /\ order s' = order s /\ s_in s' = s_in s /\
    s_out s' = s_out s /\ counters s' = counters s /\ kept s' = kept s) /\
   mol s' = <[ x := m ]> (mol s)) \/
  (er = Some KeyError /\ x ∉ species s /\ s' = s).
Proof. exact assign_mol_spec. Qed.
Print Assumptions C15_assign_mol_spec.

Theorem C15_get_mol_spec : forall (s : net) (x : string),
  match get_mol s x with
  | inr m => x ∈ species s /\ mol s !! x = Some m
  | inl QKeyError => x ∉ species s
  | inl QNoLabel => x ∈ species s /\ mol s !! x = None
  | inl QInternal => False
  end.
Proof. exact get_mol_spec. Qed.
Print Assumptions C15_get_mol_spec.

Theorem C15_get_after_assign : forall (s : net) (x m : string) (s' : net),
  assign_mol s x m = (s', None) -> get_mol s' x = inr m.
Proof. exact get_after_assign. Qed.
Print Assumptions C15_get_after_assign.

(** history level for labels: whatever the operation (old or extended language),
    unless it is a label operation on that species / table or a copy onto that
    network, a species that is still present keeps exactly the label it had
    (or none), and a name that is not present has none: a label is dropped only
    together with its species and never appears or changes as a side effect *)
Theorem C15_labels_kept : forall (w : world2) (o : op2) (k : nat) (x : string),
  Forall Inv (nets w) ->
  ~ match o with
    | OBase (OAssignMol i x' _) => i = k /\ x' = x
    | OBase (OSetMolMap i _ _ _) => i = k
    | OBase (OCopy _ j) => j = k
    | _ => False
    end ->
  mol (getn (nets (step2 w o).1.1) k) !! x =
    if decide (x ∈ species (getn (nets (step2 w o).1.1) k)) then mol (getn (nets w) k) !! x else None.
Proof.
  intros w o k x Hw Hn. apply step2_labels_kept; [exact Hw|].
  intros Hd. apply Hn. destruct o as [[]| | | | | | | | | |]; exact Hd.
Qed.
Print Assumptions C15_labels_kept.

(** *** caller-side coefficient edits through a returned edge *)

Theorem C15_coef_edit_spec : forall (sd : side) (x : string) (c b : Z) (y : string),
  dom (side_set_g sd x c) = dom sd /\ dom (side_incr_g sd x b) = dom sd /\
  coef (side_set_g sd x c) y = (if decide (y = x /\ x ∈ dom sd /\ (0 < c)%Z) then c else coef sd y) /\
  coef (side_incr_g sd x b) y =
    (if decide (y = x /\ x ∈ dom sd /\ (0 < coef sd x + b)%Z) then (coef sd x + b)%Z else coef sd y).
Proof.
  intros. split; [apply side_set_g_dom|]. split; [apply side_incr_g_dom|].
  split; [apply coef_side_set_g|apply coef_side_incr_g].
Qed.
Print Assumptions C15_coef_edit_spec.

Theorem C15_edit_side_spec : forall (s : net) (e : string) (lhs : bool) (f : side -> side) (s' : net) (er : option err),
  edit_side s e lhs f = (s', er) ->
  (er = Some KeyError /\ edges s !! e = None /\ s' = s) \/
  (er = None /\ exists rx, edges s !! e = Some rx /\
     edges s' = <[ e := if lhs then Rxn (r_rule rx) (f (r_lhs rx)) (r_rhs rx)
                        else Rxn (r_rule rx) (r_lhs rx) (f (r_rhs rx)) ]> (edges s) /\
     species s' = species s /\ order s' = order s /\ s_in s' = s_in s /\ s_out s' = s_out s /\
     mol s' = mol s /\ kept s' = kept s /\ counters s' = counters s).
Proof. exact edit_side_spec. Qed.
Print Assumptions C15_edit_side_spec.

(** history level for the extended language: a stored reaction stays under its id,
    unchanged, unless the operation removes it, strips one of its species,
    overwrites the network by a copy, or is a coefficient edit of exactly it *)
Theorem C15_stored_kept2 : forall (w : world2) (o : op2) (k : nat) (e : string) (rx : rxn),
  Forall Inv (nets w) -> edges (getn (nets w) k) !! e = Some rx ->
  ~ match o with
    | OBase (ORemoveRxn i e') => i = k /\ e' = e
    | OBase (ORemoveSpecies i x _) => i = k /\ x ∈ rxn_species rx
    | OBase (OCopy _ j) => j = k
    | OSideSet i e' _ _ _ | OSideIncr i e' _ _ _ => i = k /\ e' = e
    | _ => False
    end ->
  edges (getn (nets (step2 w o).1.1) k) !! e = Some rx.
Proof.
  intros w o k e rx Hw He Hn. apply step2_stored_kept; [exact Hw|exact He|].
  intros Hd. apply Hn. destruct o as [[]| | | | | | | | | |]; exact Hd.
Qed.
Print Assumptions C15_stored_kept2.

(** *** read-only views *)

(** species_list / the two order lists of incidence_matrix: Python's sorted() *)
Theorem C15_sorted_views : forall s : net,
  (StronglySorted (fun a b => String.leb a b = true) (species_list s) /\ NoDup (species_list s) /\
   forall x, x ∈ species_list s <-> x ∈ species s) /\
  (StronglySorted (fun a b => String.leb a b = true) (edge_ids_sorted s) /\ NoDup (edge_ids_sorted s) /\
   forall e, e ∈ edge_ids_sorted s <-> is_Some (edges s !! e)).
Proof. intros s. split; [exact (species_list_spec s)|exact (edge_ids_sorted_spec s)]. Qed.
Print Assumptions C15_sorted_views.

(** __len__, iteration / edge_list, __contains__ *)
Theorem C15_len_iter_contains : forall (s : net),
  Inv s ->
  len s = length (order s) /\
  (edge_seq s).*1 = order s /\ list_to_map (edge_seq s) = edges s /\
  forall x, contains s x = true <-> x ∈ species s \/ is_Some (edges s !! x).
Proof.
  intros s HI. split; [exact (len_spec s HI)|]. destruct (iter_spec s HI) as [H1 H2].
  split; [exact H1|]. split; [exact H2|]. intros x. exact (contains_spec s x).
Qed.
Print Assumptions C15_len_iter_contains.

(** neighbors: KeyError exactly for absent species, never an internal KeyError
    from a stale index; the answer is the set of products of the consuming reactions *)
Theorem C15_neighbors_spec : forall (s : net) (x : string),
  Inv s ->
  match neighbors s x with
  | inr N => x ∈ species s /\
             forall y, y ∈ N <-> exists e rx, edges s !! e = Some rx /\ x ∈ dom (r_lhs rx) /\ y ∈ dom (r_rhs rx)
  | inl QKeyError => x ∉ species s
  | inl _ => False
  end.
Proof. exact neighbors_spec. Qed.
Print Assumptions C15_neighbors_spec.

(** paths (soundness): every reported path starts at the source, ends at the
    target, visits no species twice, moves along neighbours, and has at most
    max_hops edges *)
Theorem C15_paths_sound : forall (s : net) (a b : string) (h : Z) (m : option Z) (ps : list (list string)) (p : list string),
  Inv s -> paths s a b h m = inr ps -> p ∈ ps ->
  exists rp, p = reverse rp /\ rpath s a rp /\ head rp = Some b /\ (Z.of_nat (length p) <= h + 1)%Z.
Proof. exact paths_sound. Qed.
Print Assumptions C15_paths_sound.

(** paths (completeness): without max_paths every such chain is reported.
    (Order and the max_paths cut: [C15_paths_order], [C15_paths_max_paths].) *)
Theorem C15_paths_complete : forall (s : net) (a b : string) (h : Z) (ps : list (list string)) (rp : list string),
  Inv s -> paths s a b h None = inr ps ->
  rpath s a rp -> head rp = Some b -> (Z.of_nat (length rp) <= h + 1)%Z -> reverse rp ∈ ps.
Proof. exact paths_complete. Qed.
Print Assumptions C15_paths_complete.

(** breadth-first order: the answers come shortest first *)
Theorem C15_paths_shortest_first : forall (s : net) (a b : string) (h : Z) (ps : list (list string)),
  Inv s -> paths s a b h None = inr ps ->
  StronglySorted (fun p q => (length p <= length q)%nat) ps.
Proof. exact paths_sorted. Qed.
Print Assumptions C15_paths_shortest_first.

(** the order of the answers: shorter first; equal length: lexicographic by
    species label (the first position where two answers differ decides) *)
Theorem C15_paths_order : forall (s : net) (a b : string) (h : Z) (ps : list (list string)),
  Inv s -> paths s a b h None = inr ps ->
  StronglySorted (fun p q => (length p < length q)%nat \/
                             (length p = length q /\
                              exists pre x y p' q', p = (pre ++ x :: p')%list /\ q = (pre ++ y :: q')%list /\
                                                    String.leb x y = true /\ x <> y)) ps.
Proof. exact paths_order_forward. Qed.
Print Assumptions C15_paths_order.

(** max_paths only cuts the answer list to its first max(1, max_paths) entries *)
Theorem C15_paths_max_paths : forall (s : net) (a b : string) (h m : Z) (ps : list (list string)),
  paths s a b h None = inr ps -> paths s a b h (Some m) = inr (take (Z.to_nat (Z.max 1 m)) ps).
Proof. exact paths_max_paths. Qed.
Print Assumptions C15_paths_max_paths.

(** what [rpath] says: built from [src] by steps to a neighbour not yet visited *)
Theorem C15_rpath_meaning : forall (s : net) (src : string) (rp : list string),
  rpath s src rp ->
  NoDup rp /\ last rp = Some src /\
  forall i n prev, rp !! i = Some n -> rp !! S i = Some prev ->
    exists e rx, edges s !! e = Some rx /\ prev ∈ dom (r_lhs rx) /\ n ∈ dom (r_rhs rx).
Proof. exact rpath_meaning. Qed.
Print Assumptions C15_rpath_meaning.

(** incidence_matrix(sparse=False): never fails; entry (x, e) = products − reactants;
    it agrees with the sparse mapping and is 0 wherever the sparse mapping has no key *)
Theorem C15_dense_spec : forall (s : net),
  Inv s ->
  exists m, dense s = Some m /\ length m = length (species_list s) /\
  (forall i j x e, species_list s !! i = Some x -> edge_ids_sorted s !! j = Some e ->
     m !! i ≫= (.!! j) = Some (dense_entry s x e)) /\
  (forall x e rx, edges s !! e = Some rx -> dense_entry s x e = (coef (r_rhs rx) x - coef (r_lhs rx) x)%Z) /\
  (forall x e v, (x, e, v) ∈ incidence s -> dense_entry s x e = v) /\
  (forall x e, (forall v, (x, e, v) ∉ incidence s) -> dense_entry s x e = 0%Z).
Proof. exact dense_full. Qed.
Print Assumptions C15_dense_spec.

(** *** whole histories *)

(** a stored reaction survives, under its id and with its stoichiometry, every
    continuation of the history that does not remove it, strip one of its
    species, overwrite its network by a copy, or coefficient-edit it *)
Theorem C15_history_stored_kept : forall (ops : list op2) (w : world2) (k : nat) (e : string) (rx : rxn),
  Forall Inv (nets w) -> edges (getn (nets w) k) !! e = Some rx ->
  Forall (fun o => ~ match o with
                     | OBase (ORemoveRxn i e') => i = k /\ e' = e
                     | OBase (ORemoveSpecies i x _) => i = k /\ x ∈ rxn_species rx
                     | OBase (OCopy _ j) => j = k
                     | OSideSet i e' _ _ _ | OSideIncr i e' _ _ _ => i = k /\ e' = e
                     | _ => False
                     end) ops ->
  edges (getn (nets (fold_left (fun w o => (step2 w o).1.1) ops w)) k) !! e = Some rx.
Proof.
  intros ops w k e rx Hw He Hall. apply run2_stored_kept; [exact Hw|exact He|].
  eapply Forall_impl; [exact Hall|]. intros o Hn Hd. apply Hn. destruct o as [[]| | | | | | | | | |]; exact Hd.
Qed.
Print Assumptions C15_history_stored_kept.

(** the property's first clause, literally: after ANY history [pre] from empty
    networks, a successful add (any input form, generated or caller-chosen id)
    hands back the id [e] under which the reaction is stored — the caller's id if
    one was given, an id that named no reaction otherwise — and after ANY
    continuation [post] that does not name that reaction it is still stored
    under [e] with exactly the normalised stoichiometry it was given *)
Theorem C15_history_added_kept : forall (n p : nat) (pre post : list op2) (i : nat) (l r : list item)
                                        (rule : string) (eid : option string),
  (i < n)%nat ->
  (step2 (fold_left (fun w o => (step2 w o).1.1) pre (init_world2 n p)) (OAddItems i l r rule eid)).1.2 = None ->
  exists e, (forall e0, eid = Some e0 -> e = e0) /\
    (step2 (fold_left (fun w o => (step2 w o).1.1) pre (init_world2 n p)) (OAddItems i l r rule eid)).2 = Tok.tstr e /\
    edges (getn (nets (fold_left (fun w o => (step2 w o).1.1) pre (init_world2 n p))) i) !! e = None /\
    (Forall (fun o => ~ match o with
                       | OBase (ORemoveRxn i' e') => i' = i /\ e' = e
                       | OBase (ORemoveSpecies i' x _) =>
                           i' = i /\ x ∈ rxn_species (Rxn (norm_rule rule) (normalize_items l) (normalize_items r))
                       | OBase (OCopy _ j) => j = i
                       | OSideSet i' e' _ _ _ | OSideIncr i' e' _ _ _ => i' = i /\ e' = e
                       | _ => False
                       end) post ->
     edges (getn (nets (fold_left (fun w o => (step2 w o).1.1) post
              (step2 (fold_left (fun w o => (step2 w o).1.1) pre (init_world2 n p)) (OAddItems i l r rule eid)).1.1)) i) !! e
     = Some (Rxn (norm_rule rule) (normalize_items l) (normalize_items r))).
Proof.
  intros n p pre post i l r rule eid Hi Her.
  destruct (history_added_kept n p pre post i l r rule eid Hi Her) as (e & H1 & H2 & H3 & H4).
  exists e. split; [exact H1|]. split; [exact H2|]. split; [exact H3|].
  intros Hall. apply H4. eapply Forall_impl; [exact Hall|].
  intros o Hn Hd. apply Hn. destruct o as [[]| | | | | | | | | |]; exact Hd.
Qed.
Print Assumptions C15_history_added_kept.

(** ** 7. (round 4) Cached graph views of a network — _CRNGraphBackend.G (the base of
    CRNCanonicalizer / CRNAutomorphism / WLCanonicalizer), model/C15_View.v:
    [op3]/[step3] = the store language + backend objects that hold a reference to a
    network and a cached view with the network's version count at build time. *)

(** what [VInv] says: a cached view never carries a version from the future, and
    one whose version is the network's current version was built from a store
    with exactly the current content (everything but the id counters) *)
Theorem C15_view_inv_meaning : forall w : world3,
  VInv w <->
  length (vers w) = length (nets (w2 w)) /\
  forall b be v snap, backends w !! b = Some be -> b_cache be = Some (v, snap) ->
    (v <= getv (vers w) (b_net be))%N /\
    (v = getv (vers w) (b_net be) ->
     let cur := getn (nets (w2 w)) (b_net be) in
     species snap = species cur /\ edges snap = edges cur /\ order snap = order cur /\ s_in snap = s_in cur /\
     s_out snap = s_out cur /\ mol snap = mol cur /\ kept snap = kept cur).
Proof. exact VInv_unfold. Qed.
Print Assumptions C15_view_inv_meaning.

(** every op that goes through the methods of the store — every [op2] except the
    caller-side coefficient edits of a returned side — and every backend op keeps it *)
Theorem C15_view_inv_step : forall (w : world3) (o : op3),
  match o with O2 (OSideSet _ _ _ _ _) | O2 (OSideIncr _ _ _ _ _) => False | _ => True end ->
  VInv w -> VInv (step3 w o).1.1.
Proof. exact step3_VInv. Qed.
Print Assumptions C15_view_inv_step.

(** the store part of [step3] IS the round-3 language; reading a view never changes the store *)
Theorem C15_view_store : forall (w : world3) (o2 : op2) (b : nat),
  (w2 (step3 w (O2 o2)).1.1 = (step2 (w2 w) o2).1.1 /\ (step3 w (O2 o2)).1.2 = (step2 (w2 w) o2).1.2 /\
   (step3 w (O2 o2)).2 = (step2 (w2 w) o2).2) /\
  w2 (step3 w (OView b)).1.1 = w2 w /\ w2 (step3 w (OViewType b)).1.1 = w2 w.
Proof. intros w o2 b. split; [exact (step3_store w o2)|exact (step3_view_store w b)]. Qed.
Print Assumptions C15_view_store.

(** C15_view_current: after ANY history of such ops from empty networks, whatever
    backends were created when, the graph a backend hands out on access was built
    from a store that agrees with the network AS IT IS NOW on everything the export
    with the backend's options reads (species; reactions with rule and sides —
    coefficients where exported; two-sided reactions only for the species graph);
    the answer of the model's [OView] says so ([tbool true]) *)
Theorem C15_view_current : forall (n k nb : nat) (ops : list op3) (b : nat),
  Forall (fun o => match o with O2 (OSideSet _ _ _ _ _) | O2 (OSideIncr _ _ _ _ _) => False | _ => True end) ops ->
  let w := fold_left (fun w o => (step3 w o).1.1) ops (init_world3 n k nb) in
  let be := getb (backends w) b in
  vproj (b_opts be) (access w b).2 = vproj (b_opts be) (getn (nets (w2 w)) (b_net be)) /\
  (step3 w (OView b)).2 = Tok.L [Tok.tstr (graph_type (b_opts be)); Tok.tbool (access w b).1.2; Tok.tbool true].
Proof.
  intros n k nb ops b Hs w be. apply view_current_inv. apply run3_VInv; [exact Hs|apply VInv_init].
Qed.
Print Assumptions C15_view_current.

(** the clause "… after every operation of the extended language" fails for the
    caller-side coefficient edit: the version count cannot see an edit made
    through a returned edge object; a view that reads coefficients (species
    graph) is then served stale from the cache, one that does not (bipartite
    without stoichiometry) is unaffected.  Known finding C15:view-stale-after-inplace-coefficient-edit. *)
Theorem C15_view_coef_edit_refuted :
  exists (ops : list op3) (b : nat),
    (access (fold_left (fun w o => (step3 w o).1.1) ops (init_world3 1 0 2)) b).1.2 = false /\
    vproj (b_opts (getb (backends (fold_left (fun w o => (step3 w o).1.1) ops (init_world3 1 0 2))) b))
          (access (fold_left (fun w o => (step3 w o).1.1) ops (init_world3 1 0 2)) b).2 <>
    vproj (b_opts (getb (backends (fold_left (fun w o => (step3 w o).1.1) ops (init_world3 1 0 2))) b))
          (getn (nets (w2 (fold_left (fun w o => (step3 w o).1.1) ops (init_world3 1 0 2))))
                (b_net (getb (backends (fold_left (fun w o => (step3 w o).1.1) ops (init_world3 1 0 2))) b))).
Proof. exact view_coef_edit_refuted. Qed.
Print Assumptions C15_view_coef_edit_refuted.

(** ** 8. (round 5) The cached view IS the export of the current network.
    [C15_view_current] speaks through the abstraction [vproj]; here the snapshot is pushed through the Gallina models of the
    export functions themselves (C16: model/C16_Model.v — [backend_bipartite] = hypergraph_to_bipartite with the backend's
    flags, [hypergraph_to_species_graph]), i.e. through exactly what _CRNGraphBackend._build_graph calls: after ANY history
    of store-method calls and backend operations from empty networks, the graph a backend hands out on access equals the
    graph exported from the network as it is now — for the bipartite view (string or integer ids, with or without
    coefficients) and for the species graph. *)
Theorem C15_view_graph_current : forall (n k nb : nat) (ops : list op3) (b : nat),
  Forall (fun o => match o with O2 (OSideSet _ _ _ _ _) | O2 (OSideIncr _ _ _ _ _) => False | _ => True end) ops ->
  let w := fold_left (fun w o => (step3 w o).1.1) ops (init_world3 n k nb) in
  let be := getb (backends w) b in
  let snap := (access w b).2 in
  let cur := getn (nets (w2 w)) (b_net be) in
  (if include_rule (b_opts be)
   then inl (backend_bipartite (integer_ids (b_opts be)) (include_stoich (b_opts be)) snap)
   else inr (hypergraph_to_species_graph false snap) : bgraph + sgraph)
  = (if include_rule (b_opts be)
     then inl (backend_bipartite (integer_ids (b_opts be)) (include_stoich (b_opts be)) cur)
     else inr (hypergraph_to_species_graph false cur)).
Proof. exact view_graph_current. Qed.
Print Assumptions C15_view_graph_current.

(** the runner the correspondence evaluates ([run3g], model/C15_ViewObs.v) steps with [step3g]: the worlds and errors of
    [step3], and for a view access the answer of [step3] followed by the graph built from the cached snapshot
    ([tview (view_graph …)]: every node, arc and attribute — compared with the graph object the implementation hands out) *)
Theorem C15_view_observed : forall (w : world3) (o : op3),
  (step3g w o).1 = (step3 w o).1 /\
  match o with
  | OView b => (step3g w o).2 = Tok.L [(step3 w o).2;
                 tview (if include_rule (b_opts (getb (backends w) b))
                        then inl (backend_bipartite (integer_ids (b_opts (getb (backends w) b))) (include_stoich (b_opts (getb (backends w) b))) (access w b).2)
                        else inr (hypergraph_to_species_graph false (access w b).2))]
  | _ => (step3g w o).2 = (step3 w o).2
  end.
Proof. exact step3g_spec. Qed.
Print Assumptions C15_view_observed.

(** EVERY store operation either counts itself ([bumps]: which network's `_version` moves — add after the edge is stored,
    remove_rxn after the pop, remove_species / assign_mol / set_mol_map after their KeyError test, WHATEVER their options, merge
    through add_rxn) or leaves every export of every network unchanged, for every flag combination of the bipartite export and
    for the species graph.  Hence a cached view whose version is current is the current export (C15_view_graph_current).
    Excluded: the copy into a slot (the slot is re-bound to a new object whose backends are re-created) and the caller-side
    coefficient edits (the known finding).  The class of seeded change C16-w4-1 (remove_species counting itself only on the
    prune_orphans=True path): the model counts on both paths, so the correspondence and the `view-current` oracle clause break. *)
Theorem C15_version_or_unchanged : forall (w : world2) (o : op2),
  match o with OSideSet _ _ _ _ _ | OSideIncr _ _ _ _ _ => False | _ => True end ->
  (forall i j, o <> OBase (OCopy i j)) ->
  bumps w o (step2 w o).1.1 (step2 w o).1.2 = None ->
  forall (k : nat) (fl : bflags) (b : bool),
    hypergraph_to_bipartite fl (getn (nets (step2 w o).1.1) k) = hypergraph_to_bipartite fl (getn (nets w) k) /\
    hypergraph_to_species_graph b (getn (nets (step2 w o).1.1) k) = hypergraph_to_species_graph b (getn (nets w) k).
Proof. exact version_or_unchanged. Qed.
Print Assumptions C15_version_or_unchanged.

(** the cache works: right after an access of an existing backend, a second access hands out the same graph WITHOUT
    rebuilding and changes nothing (and so on until a store method is called on the network: [C15_view_store], [bumps]) *)
Theorem C15_view_cached : forall (w : world3) (b : nat), (b < length (backends w))%nat ->
  (access (access w b).1.1 b).1.2 = false /\ (access (access w b).1.1 b).2 = (access w b).2 /\
  (access (access w b).1.1 b).1.1 = (access w b).1.1.
Proof. exact access_cached. Qed.
Print Assumptions C15_view_cached.

(** the exports never read the per-rule id counters (the only part of the store a snapshot with the current version may
    differ in, [C15_view_inv_meaning]): same content, same graphs — for EVERY flag combination of the bipartite export *)
Theorem C15_exports_ignore_counters : forall (fl : bflags) (b : bool) (s s' : net),
  species s' = species s -> edges s' = edges s -> order s' = order s -> s_in s' = s_in s -> s_out s' = s_out s ->
  mol s' = mol s -> kept s' = kept s ->
  hypergraph_to_bipartite fl s' = hypergraph_to_bipartite fl s /\
  hypergraph_to_species_graph b s' = hypergraph_to_species_graph b s.
Proof. exact exports_ignore_counters. Qed.
Print Assumptions C15_exports_ignore_counters.

(** ** 9. (round 5) The three __repr__ methods (model/C15_Repr.v): RXNSide, HyperEdge, CRNHyperGraph.
    [repr_net s] = the lines [repr_lines s] joined by newlines; the reaction lines are [repr_edge] of [sorted_edges s]
    (sorted(edge_list(), key=_edge_key): key = (id without its digits, int(the digits)), Python's stable sort). *)

(** repr(side) is a faithful rendering: RXNSide.from_str reads it back, for every side whose labels are in the label domain of
    the text format ([side_labels_ok]: a letter, then anything but white space and + * | >; the known limit of the format,
    finding C16:strings-label-domain) — RXNSide.__repr__ IS the side printer of the reaction-string export *)
Theorem C15_repr_side_parses : forall (sd : side), side_labels_ok sd = true -> from_str (repr_side sd) = Some sd.
Proof. exact repr_side_parses. Qed.
Print Assumptions C15_repr_side_parses.

(** the reaction lines: a permutation of the stored reactions in insertion order (nothing lost, nothing twice), sorted by the
    key, and — stability — reactions with the same key (e.g. ids "r_1" and "r1_") stay in insertion order *)
Theorem C15_repr_order : forall (s : net),
  sorted_edges s ≡ₚ edge_seq s /\
  StronglySorted (fun p q => ekey_le (edge_key p.1) (edge_key q.1) = true) (sorted_edges s) /\
  forall k, filter (fun p => edge_key p.1 = k) (sorted_edges s) = filter (fun p => edge_key p.1 = k) (edge_seq s).
Proof. exact sorted_edges_spec. Qed.
Print Assumptions C15_repr_order.

(** under the store invariant every stored reaction has exactly one line, and no line shows anything else *)
Theorem C15_repr_complete : forall (s : net), Inv s ->
  (forall e rx, (e, rx) ∈ sorted_edges s <-> edges s !! e = Some rx) /\ NoDup (sorted_edges s).*1.
Proof. exact sorted_edges_stored. Qed.
Print Assumptions C15_repr_complete.

(** the key order is a total preorder that identifies only equal keys (so "sorted" above is meaningful) *)
Theorem C15_repr_key_order : forall a b c : string * N,
  (ekey_le a b = true \/ ekey_le b a = true) /\
  (ekey_le a b = true -> ekey_le b c = true -> ekey_le a c = true) /\
  (ekey_le a b = true -> ekey_le b a = true -> a = b).
Proof. exact (fun a b c => conj (ekey_le_total a b) (conj (ekey_le_trans a b c) (ekey_le_antisym a b))). Qed.
Print Assumptions C15_repr_key_order.

(** shape of the text: header, the reaction lines, then the species line and — exactly when labels exist — the label line *)
Theorem C15_repr_shape : forall (s : net),
  exists tail, repr_lines s = "CRNHyperGraph:" :: ((fun p => "  " +:+ repr_edge p.1 p.2) <$> sorted_edges s) ++ tail /\
               length tail = (if decide (mol s = ∅) then 1 else 2)%nat.
Proof. exact repr_lines_shape. Qed.
Print Assumptions C15_repr_shape.

(** ** 10. (round 5) The mapping API of RXNSide on caller-held objects (model/C15_Side.v): what every mutator does to the
    coefficient function [coef sd y] (0 = absent).  Sides are maps to POSITIVE counts in the model, so "a side is always a positive
    integer multiset" holds by construction; the correspondence and the oracle check it on the implementation after every op. *)
Theorem C15_side_ops_spec : forall (p : list side) (o : sop) (k : nat), (k < length p)%nat ->
  let sd := getp p k in let sd' := getp (sstep p o).1 k in
  match o with
  | SNew k0 l => k0 = k -> forall y, coef sd' y = total y l
  | SSet k0 x c => k0 = k -> forall y, coef sd' y = if decide (y = x) then Z.max 0 c else coef sd y
  | SIncr k0 x b => k0 = k -> forall y, coef sd' y = if decide (y = x) then Z.max 0 (coef sd x + b) else coef sd y
  | SPop k0 x d => k0 = k -> (forall y, coef sd' y = if decide (y = x) then 0%Z else coef sd y) /\
                            (sstep p o).2 = topz (match sd !! x with Some c => Some (Z.pos c) | None => d end)
  | SUpdate k0 l => k0 = k -> forall y, coef sd' y = (coef sd y + total y l)%Z
  | SCopy k0 k' => k' = k -> sd' = getp p k0
  | SQuery _ _ => sd' = sd
  end.
Proof. exact sstep_spec. Qed.
Print Assumptions C15_side_ops_spec.

(** an operation on one side object changes no other (copy() shares nothing: later edits of the original never reach the copy) *)
Theorem C15_side_frame : forall (p : list side) (o : sop) (j : nat),
  match o with SNew k _ | SSet k _ _ | SIncr k _ _ | SPop k _ _ | SUpdate k _ => j <> k | SCopy _ k' => j <> k' | SQuery _ _ => True end ->
  (sstep p o).1 !! j = p !! j.
Proof. exact sstep_frame. Qed.
Print Assumptions C15_side_frame.

(** ** 11. (round 5) The BULK entry points as operations of the history language (model/C15_Bulk.v: [op6] = [op2] + parse_rxns in
    all its input forms + add_rxn_from_str; their models are those of C16).  A bulk call IS the sequence of individual additions it
    stands for (seeded change C15-w4-2: `rules=` zipped through a dict dropped repeated lines). *)

(** parse_rxns item by item: one add_rxn_from_str per item, in order, stopping at the first item that raises (the items before
    it stay stored) *)
Theorem C15_bulk_is_fold : forall (s : net) (it : string * option string) (items : list (string * option string))
    (dr : string) (ps pf : bool),
  parse_items s [] dr ps pf = (s, None) /\
  parse_items s (it :: items) dr ps pf =
    match parse_item s it.1 it.2 dr ps pf with
    | (s', None) => parse_items s' items dr ps pf
    | (s', Some e) => (s', Some e)
    end /\
  exists rule' ps', parse_item s it.1 it.2 dr ps pf = add_from_str s it.1 rule' ps'.
Proof.
  exact (fun s it items dr ps pf => conj (parse_items_nil s dr ps pf) (conj (parse_items_cons s it items dr ps pf)
           (parse_item_is_add_from_str s it.1 it.2 dr ps pf))).
Qed.
Print Assumptions C15_bulk_is_fold.

(** NO DEDUPLICATION: a parse_rxns that raises nothing stores exactly one reaction per item — repeated lines, repeated reactions
    under different rules, lines equal to stored reactions included — after the reactions that were there (ids appended) *)
Theorem C15_bulk_one_reaction_per_item : forall (items : list (string * option string)) (s : net) (dr : string) (ps pf : bool) (s' : net),
  parse_items s items dr ps pf = (s', None) ->
  length (order s') = (length (order s) + length items)%nat /\ order s `prefix_of` order s'.
Proof. exact parse_items_count. Qed.
Print Assumptions C15_bulk_one_reaction_per_item.

(** a successful add_rxn_from_str stores exactly one new reaction, at the end, under an id that was free *)
Theorem C15_add_from_str_one : forall (s : net) (line : string) (rule : option string) (ps : bool) (s' : net),
  add_from_str s line rule ps = (s', None) ->
  exists e rx, edges s !! e = None /\ edges s' = <[ e := rx ]> (edges s) /\ order s' = (order s ++ [e])%list.
Proof. exact add_from_str_one. Qed.
Print Assumptions C15_add_from_str_one.

(** the store invariant holds in every world reachable through the extended language PLUS the bulk operations, whatever the
    text (also after a bulk call that raised midway); a bulk call changes only its target network *)
Theorem C15_inv_reachable_bulk : forall (n k : nat) (ops : list op6),
  Forall Inv (nets (fold_left (fun w o => (step6 w o).1.1) ops (init_world2 n k))).
Proof. exact run6_Inv. Qed.
Print Assumptions C15_inv_reachable_bulk.
Theorem C15_bulk_frame : forall (w : world2) (o : op6) (j : nat),
  match o with B2 _ => False | BParse i _ _ _ _ | BAddStr i _ _ _ => j <> i end ->
  nets (step6 w o).1.1 !! j = nets w !! j /\ pool (step6 w o).1.1 = pool w.
Proof. exact step6_frame. Qed.
Print Assumptions C15_bulk_frame.

(** ** 12. (round 5, audit A3-1) The species clause, operation by operation.
    Conjunct 3 of [C15_inv_meaning] reads "every species occurs in a stored reaction or was, at some point, explicitly kept"
    (the ghost field [kept] only grows: it means EVER kept).  The other direction — a species the caller chose to keep is still
    there — is proved here for the primitive operations: the species set shrinks only where the text allows.
      remove_species(x, prune_orphans=False)  drops NOTHING (x stays);  with prune_orphans=True it may drop x, and nothing else;
      remove_rxn(e)                           may drop species of the removed reaction only;
      add_rxn / merge / assign_mol / set_mol_map drop nothing.
    This bounds what a step MAY drop.  That an orphaned species of a removed reaction IS dropped (the must-drop direction) is
    C15_remove_rxn_prunes / C15_remove_species_prunes below; the three together with [Inv] give: a species is present after a step
    iff it occurs in a stored reaction, or it was present before, does not occur, and the step was not a removal touching it.
    Reading adopted by code, model and oracle: a kept species that ENTERS A REACTION AGAIN is an ordinary species — it goes when its
    last reaction goes ([ex_species_nonvacuous]). *)
Theorem C15_species_shrink_only_where_allowed :
  (forall s l r rule eid, species s ⊆ species (add s l r rule eid).1.1) /\
  (forall s e s' rx, remove_rxn s e = (s', None) -> edges s !! e = Some rx ->
     species s ∖ rxn_species rx ⊆ species s' /\ species s' ⊆ species s) /\
  (forall s x prune s', remove_species s x prune = (s', None) ->
     species s ∖ {[ x ]} ⊆ species s' /\ species s' ⊆ species s /\ (prune = false -> species s' = species s)) /\
  (forall s o prefix, species s ⊆ species (merge s o prefix).1) /\
  (forall s x m, species (assign_mol s x m).1 = species s) /\
  (forall s mp st cl, species (set_mol_map s mp st cl).1 = species s).
Proof.
  exact (conj add_species_mono (conj remove_rxn_species (conj remove_species_species
          (conj merge_species_mono (conj assign_mol_species set_mol_map_species))))).
Qed.
Print Assumptions C15_species_shrink_only_where_allowed.

(** the must-drop direction (audit A3-1): after remove_rxn, a species of the removed reaction is still in the species set IF AND
    ONLY IF it still occurs in a stored reaction — whether or not it was ever kept ([ex_prunes_nonvacuous]: A -> B; remove_species A
    keep; add A -> C as e2; remove_rxn e2 drops A and C, keeps B); after remove_species(x, prune_orphans=True), x is gone *)
Theorem C15_remove_rxn_prunes : forall (s : net) (e : string) (s' : net) (rx : rxn),
  Inv s -> edges s !! e = Some rx -> remove_rxn s e = (s', None) ->
  forall x, x ∈ rxn_species rx -> (x ∈ species s' <-> exists e' rx', edges s' !! e' = Some rx' /\ x ∈ rxn_species rx').
Proof. exact remove_rxn_prunes. Qed.
Print Assumptions C15_remove_rxn_prunes.
Theorem C15_remove_species_prunes : forall (s : net) (x : string) (s' : net),
  remove_species s x true = (s', None) -> x ∉ species s'.
Proof. exact remove_species_prunes. Qed.
Print Assumptions C15_remove_species_prunes.
