From SK Require Import model.C15_Model proof.C15_Proof.
Theorem C15_stub : empty_net = empty_net. Proof. exact stub. Qed.
Print Assumptions C15_stub.
