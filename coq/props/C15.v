(** C15 — reaction-network store stays consistent under every history of edits.
    Statements only; every proof is [exact <lemma of proof/C15_Proof.v>]. *)
From stdpp Require Import gmap strings sets pretty.
From SK Require Import model.C15_Model proof.C15_Proof.
Local Open Scope string_scope.

(** ** 1. The store invariant *)

(** What [Inv] says, written out: both hand-maintained indices list exactly the
    producing / consuming reactions, the species set is exactly the occurring
    species plus explicitly kept ones, labels only for present species, the
    insertion-order list is a duplicate-free enumeration of the keys, no stored
    reaction is empty or has an empty rule name. *)
Theorem C15_inv_meaning : forall s : net,
  Inv s <->
  (forall x e, e ∈ default ∅ (s_in s !! x) <-> exists rx, edges s !! e = Some rx /\ x ∈ dom (r_rhs rx)) /\
  (forall x e, e ∈ default ∅ (s_out s !! x) <-> exists rx, edges s !! e = Some rx /\ x ∈ dom (r_lhs rx)) /\
  (forall x, x ∈ species s <->
     (exists e rx, edges s !! e = Some rx /\ x ∈ rxn_species rx) \/ (x ∈ kept s /\ x ∈ species s)) /\
  dom (mol s) ⊆ species s /\
  NoDup (order s) /\ (forall e, e ∈ order s <-> is_Some (edges s !! e)) /\
  (forall e rx, edges s !! e = Some rx -> rxn_empty rx = false /\ r_rule rx <> "").
Proof. exact Inv_unfold. Qed.
Print Assumptions C15_inv_meaning.

Theorem C15_inv_init : Inv empty_net.
Proof. exact Inv_init. Qed.
Print Assumptions C15_inv_init.

(** every operation, every outcome (including the error outcomes), any world *)
Theorem C15_inv_step : forall (w : world) (o : op), Forall Inv w -> Forall Inv (step w o).1.
Proof. exact step_Inv. Qed.
Print Assumptions C15_inv_step.

Theorem C15_inv_reachable : forall (n : nat) (ops : list op),
  Forall Inv (fold_left (fun w o => (step w o).1) ops (init_world n)).
Proof. exact reachable_Inv. Qed.
Print Assumptions C15_inv_reachable.

(** copy / merge independence: an operation changes at most the network it
    targets ([OCopy i j]: only [j]; [OMerge i j]: only [i]) *)
Theorem C15_frame : forall (w : world) (o : op) (k : nat),
  k <> match o with
       | OAdd i _ _ _ _ | ORemoveRxn i _ | ORemoveSpecies i _ _ | OMerge i _ _
       | OAssignMol i _ _ | OSetMolMap i _ _ _ => i
       | OCopy _ j => j
       end ->
  getn (step w o).1 k = getn w k.
Proof. exact step_frame. Qed.
Print Assumptions C15_frame.

(** ** 2. No internal error; generated ids are fresh; the id search never gives up *)

(** the stale-index branch of remove_species is unreachable *)
Theorem C15_no_internal_error : forall (s : net) (x : string) (prune : bool),
  Inv s -> (remove_species s x prune).2 <> Some InternalError.
Proof. exact remove_species_no_internal_error. Qed.
Print Assumptions C15_no_internal_error.

(** a generated id never names a stored reaction ("no id refers to two reactions") *)
Theorem C15_fresh_ok : forall (s : net) (rule : string) (c : N) (e : string),
  next_id s rule = Some (c, e) -> edges s !! e = None.
Proof. exact next_id_fresh. Qed.
Print Assumptions C15_fresh_ok.

(** the loop bound [S (size (edges s))] of the model's id search suffices *)
Theorem C15_fresh_total : forall (s : net) (rule : string), next_id s rule <> None.
Proof. exact next_id_total. Qed.
Print Assumptions C15_fresh_total.

(** ** 3. Refinement to the abstract store  id ↦ reaction  (the [edges] map) *)

Theorem C15_add_spec : forall (s : net) (l r : side) (rule : string) (eid : option string)
                              (s' : net) (er : option err) (e : string),
  add s l r rule eid = (s', er, e) ->
  (forall e0, eid = Some e0 -> e = e0) /\
  match er with
  | None => edges s !! e = None /\ rxn_empty (Rxn (norm_rule rule) l r) = false /\
            edges s' = <[e := Rxn (norm_rule rule) l r]> (edges s) /\
            order s' = (order s ++ [e])%list
  | Some er' => edges s' = edges s /\ order s' = order s /\
            (er' = KeyError <-> exists e0, eid = Some e0 /\ is_Some (edges s !! e0)) /\
            (er' = InternalError <-> eid = None /\ next_id s (norm_rule rule) = None)
  end.
Proof. exact add_spec. Qed.
Print Assumptions C15_add_spec.

Theorem C15_remove_rxn_spec : forall (s : net) (e : string) (s' : net) (er : option err),
  remove_rxn s e = (s', er) ->
  (er = None /\ is_Some (edges s !! e) /\ edges s' = delete e (edges s) /\
   order s' = filter (fun e' => e' <> e) (order s)) \/
  (er = Some KeyError /\ edges s !! e = None /\ s' = s).
Proof. exact remove_rxn_spec. Qed.
Print Assumptions C15_remove_rxn_spec.

Theorem C15_remove_species_spec : forall (s : net) (x : string) (prune : bool) (s' : net) (er : option err),
  Inv s -> remove_species s x prune = (s', er) ->
  (er = None /\ x ∈ species s /\
   edges s' = omap (fun rx => let rx' := Rxn (r_rule rx) (delete x (r_lhs rx)) (delete x (r_rhs rx)) in
                              if rxn_empty rx' then None else Some rx') (edges s)) \/
  (er = Some KeyError /\ x ∉ species s /\ s' = s).
Proof. exact remove_species_spec. Qed.
Print Assumptions C15_remove_species_spec.

(** ... in particular every other species keeps its coefficients in every reaction it occurs in *)
Theorem C15_remove_species_others : forall (s : net) (x : string) (prune : bool) (s' : net)
                                           (e : string) (rx : rxn) (y : string),
  Inv s -> remove_species s x prune = (s', None) -> edges s !! e = Some rx -> y <> x ->
  y ∈ rxn_species rx ->
  exists rx', edges s' !! e = Some rx' /\ r_rule rx' = r_rule rx /\
    (forall z, z <> x -> r_lhs rx' !! z = r_lhs rx !! z /\ r_rhs rx' !! z = r_rhs rx !! z) /\
    r_lhs rx' !! x = None /\ r_rhs rx' !! x = None.
Proof. exact remove_species_others. Qed.
Print Assumptions C15_remove_species_others.

(** merge never fails when the other network is well-formed; own reactions are
    kept under their own ids; every reaction of the other network is stored,
    unchanged, under an id that was free; nothing else appears; without
    prefixing and without collisions the ids are kept *)
Theorem C15_merge_spec : forall (s o : net) (prefix : bool) (s' : net) (er : option err),
  Inv o -> merge s o prefix = (s', er) ->
  er = None /\ edges s ⊆ edges s' /\
  (forall e rx, edges o !! e = Some rx -> exists e', edges s' !! e' = Some rx /\ edges s !! e' = None) /\
  (forall e' rx, edges s' !! e' = Some rx -> edges s !! e' = Some rx \/ exists e, edges o !! e = Some rx) /\
  (prefix = false -> dom (edges s) ## dom (edges o) ->
   edges s' = edges s ∪ edges o /\ order s' = (order s ++ order o)%list).
Proof. exact merge_spec. Qed.
Print Assumptions C15_merge_spec.

(** ** 4. Incidence = products − reactants *)

Theorem C15_incidence : forall (s : net) (x e : string) (v : Z),
  (x, e, v) ∈ incidence s <->
  exists rx, edges s !! e = Some rx /\ x ∈ rxn_species rx /\
             v = (coef (r_rhs rx) x - coef (r_lhs rx) x)%Z.
Proof. exact incidence_spec. Qed.
Print Assumptions C15_incidence.

Theorem C15_incidence_functional : forall (s : net) (x e : string) (v1 v2 : Z),
  (x, e, v1) ∈ incidence s -> (x, e, v2) ∈ incidence s -> v1 = v2.
Proof. exact incidence_functional. Qed.
Print Assumptions C15_incidence_functional.

(** ** 5. History level: "every reaction that was added and not removed is still
    present under its own id with its own stoichiometry" — one step of any
    history keeps every stored reaction of every network unchanged under its id,
    unless the operation removes exactly that reaction, strips one of its
    species, or overwrites the whole network by a copy; together with
    [C15_add_spec] (a successful add stores exactly the given reaction under a
    free id) and [C15_inv_reachable] this is the history statement. *)
Theorem C15_stored_kept : forall (w : world) (o : op) (k : nat) (e : string) (rx : rxn),
  Forall Inv w -> edges (getn w k) !! e = Some rx ->
  ~ match o with
    | ORemoveRxn i e' => i = k /\ e' = e
    | ORemoveSpecies i x _ => i = k /\ x ∈ rxn_species rx
    | OCopy _ j => j = k
    | _ => False
    end ->
  edges (getn (step w o).1 k) !! e = Some rx.
Proof. exact step_stored_kept. Qed.
Print Assumptions C15_stored_kept.

(** a copy is the copied network (and by [C15_frame] later edits of the original do not reach it) *)
Theorem C15_copy_spec : forall (w : world) (i j : nat),
  j < length w -> getn (step w (OCopy i j)).1 j = getn w i.
Proof. exact copy_spec. Qed.
Print Assumptions C15_copy_spec.
