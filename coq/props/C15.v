(** C15 — reaction-network store stays consistent under every history of edits.
    Statements only; every proof is [exact <lemma of proof/C15_Proof.v>]. *)
From stdpp Require Import gmap strings sets pretty.
From SK Require Import model.C15_Model proof.C15_Proof.
Local Open Scope string_scope.

(** ** 1. The store invariant *)

(** What [Inv] says, written out: both hand-maintained indices list exactly the
    producing / consuming reactions, the species set is exactly the occurring
    species plus explicitly kept ones, labels only for present species, the
    insertion-order list is a duplicate-free enumeration of the keys, no stored
    reaction is empty or has an empty rule name. *)
Theorem C15_inv_meaning : forall s : net,
  Inv s <->
  (forall x e, e ∈ default ∅ (s_in s !! x) <-> exists rx, edges s !! e = Some rx /\ x ∈ dom (r_rhs rx)) /\
  (forall x e, e ∈ default ∅ (s_out s !! x) <-> exists rx, edges s !! e = Some rx /\ x ∈ dom (r_lhs rx)) /\
  (forall x, x ∈ species s <->
     (exists e rx, edges s !! e = Some rx /\ x ∈ rxn_species rx) \/ (x ∈ kept s /\ x ∈ species s)) /\
  dom (mol s) ⊆ species s /\
  NoDup (order s) /\ (forall e, e ∈ order s <-> is_Some (edges s !! e)) /\
  (forall e rx, edges s !! e = Some rx -> rxn_empty rx = false /\ r_rule rx <> "").
Proof. exact Inv_unfold. Qed.
Print Assumptions C15_inv_meaning.

Theorem C15_inv_init : Inv empty_net.
Proof. exact Inv_init. Qed.
Print Assumptions C15_inv_init.

(** every operation, every outcome (including the error outcomes), any world *)
Theorem C15_inv_step : forall (w : world) (o : op), Forall Inv w -> Forall Inv (step w o).1.
Proof. exact step_Inv. Qed.
Print Assumptions C15_inv_step.

Theorem C15_inv_reachable : forall (n : nat) (ops : list op),
  Forall Inv (fold_left (fun w o => (step w o).1) ops (init_world n)).
Proof. exact reachable_Inv. Qed.
Print Assumptions C15_inv_reachable.

(** copy / merge independence: an operation changes at most the network it
    targets ([OCopy i j]: only [j]; [OMerge i j]: only [i]) *)
Theorem C15_frame : forall (w : world) (o : op) (k : nat),
  k <> match o with
       | OAdd i _ _ _ _ | ORemoveRxn i _ | ORemoveSpecies i _ _ | OMerge i _ _
       | OAssignMol i _ _ | OSetMolMap i _ _ _ => i
       | OCopy _ j => j
       end ->
  getn (step w o).1 k = getn w k.
Proof. exact step_frame. Qed.
Print Assumptions C15_frame.
