From Coq Require Import List NArith ZArith Permutation Relations.
From SK Require Import lib.LGraph lib.StrJoin model.C08_Model proof.C08_Spec proof.C08_Faithful proof.C08_Nauty proof.C08_SigFun proof.C08_Sound proof.C08_Invariant proof.C08_Value proof.C08_GraphSig proof.C08_Auts proof.C08_GenIdem proof.C08_Select proof.C08_Orbits.
From SK Require Import model.C08_Digraph proof.C08_DSpec proof.C08_DSer proof.C08_DNauty proof.C08_DInvariant proof.C08_MaxDepth proof.C08_DValue proof.C08_DGraphSig proof.C08_OrbitsAut proof.C08_DAuts proof.C08_DOrbitsAut.
From SK Require Import model.C08_Obs proof.C08_Order model.C08_Sel proof.C08_SelNauty proof.C08_SelEquiv proof.C08_MaxDepth2 proof.C08_Pattern proof.C08_RuleJoint.
From SK Require Import model.C08_Rule2 proof.C08_Rule2Spec proof.C08_Rule2 proof.C08_Rule2Derived.
Import ListNotations.

(** 1. Faithfulness: the canonical graph is the input relabelled by a map that is injective on its nodes;
       [relabel] keeps every node/edge attribute record, so all attributes are preserved.
       wl / morgan: for ANY ranking returned by the colour / label oracle. *)
Theorem C08_faithful_generic : forall g : graph, NoDup (node_ids g) ->
  exists f, inj_on f (node_ids g) /\ Permutation (gnodes (canon_generic g)) (gnodes (relabel f g))
            /\ gedges (canon_generic g) = gedges (relabel f g).
Proof. exact faithful_generic. Qed.
Print Assumptions C08_faithful_generic.

Theorem C08_faithful_wl_morgan : forall (ranks : list (N * Z)) (g : graph), NoDup (node_ids g) ->
  exists f, inj_on f (node_ids g) /\ Permutation (gnodes (canon_rank ranks g)) (gnodes (relabel f g))
            /\ gedges (canon_rank ranks g) = gedges (relabel f g).
Proof. exact faithful_rank. Qed.
Print Assumptions C08_faithful_wl_morgan.

Theorem C08_faithful_nauty : forall g : graph, NoDup (node_ids g) ->
  exists f, inj_on f (node_ids g) /\ Permutation (gnodes (canon_nauty g)) (gnodes (relabel f g))
            /\ gedges (canon_nauty g) = gedges (relabel f g).
Proof. exact faithful_nauty. Qed.
Print Assumptions C08_faithful_nauty.

(** 2. The canonical node ids are exactly 1..N (nauty: after the repair of the duplicated prefix; this includes
       termination of the search within its fuel and "every leaf is a permutation of the node set"). *)
Theorem C08_onto_1N_generic : forall g : graph, NoDup (node_ids g) ->
  Permutation (node_ids (canon_generic g)) (map N.of_nat (seq 1 (length (gnodes g)))).
Proof. exact onto_generic. Qed.
Print Assumptions C08_onto_1N_generic.

Theorem C08_onto_1N_wl_morgan : forall (ranks : list (N * Z)) (g : graph), NoDup (node_ids g) ->
  Permutation (node_ids (canon_rank ranks g)) (map N.of_nat (seq 1 (length (gnodes g)))).
Proof. exact onto_rank. Qed.
Print Assumptions C08_onto_1N_wl_morgan.

Theorem C08_onto_1N_nauty : forall g : graph, NoDup (node_ids g) ->
  Permutation (node_ids (canon_nauty g)) (map N.of_nat (seq 1 (length (gnodes g)))).
Proof. exact onto_nauty. Qed.
Print Assumptions C08_onto_1N_nauty.

(** 3. The signature (digest of the serialisation of the canonical graph) is a deterministic function of the graph
       as a mathematical object: two presentations with the same labelled node set and the same labelled set of
       unordered edges on the covered attributes (whatever the insertion order of nodes and edges, the orientation
       in which an edge is stored, and the uncovered attributes such as atom_map) get the same signature.
       [geq_cov g h] = Permutation (cov_nodes g) (cov_nodes h) /\ Permutation (cov_edges g) (cov_edges h).
       wl / morgan: for any ranking (the colours are a function of the graph; oracle input of the model). *)
Theorem C08_signature_function_generic : forall (D : Type) (digest : str -> D) (g h : graph),
  wf g -> wf h -> geq_cov g h ->
  digest (serialise (canon_generic g)) = digest (serialise (canon_generic h)).
Proof. exact signature_function_generic. Qed.
Print Assumptions C08_signature_function_generic.

Theorem C08_signature_function_wl_morgan : forall (D : Type) (digest : str -> D) (ranks : list (N * Z)) (g h : graph),
  wf g -> wf h -> geq_cov g h ->
  digest (serialise (canon_rank ranks g)) = digest (serialise (canon_rank ranks h)).
Proof. exact signature_function_rank. Qed.
Print Assumptions C08_signature_function_wl_morgan.

(** 4. Soundness: equal signatures make the two graphs isomorphic on the attributes the signature covers
       (element, charge, aromatic, hcount; order, standard_order): there is a map, injective on the nodes of [g],
       that carries the covered node set and covered edge set of [g] onto those of [h].
       Premises: both graphs well formed (networkx.Graph without self-loops), element symbols alphanumeric
       ([els_ok]: the serialisation quotes them without escaping), and the digest does not collide on the two
       strings compared (SHA-256 truncated to 128 bits; monitored on every run).  From injectivity of the
       serialisation (separator parsing, lib/StrJoin.v) and faithfulness.  wl / morgan: whatever the rankings. *)
Theorem C08_signature_sound_generic : forall (D : Type) (digest : str -> D) (g h : graph),
  wf g -> wf h -> els_ok g -> els_ok h ->
  (digest (serialise (canon_generic g)) = digest (serialise (canon_generic h)) ->
   serialise (canon_generic g) = serialise (canon_generic h)) ->
  digest (serialise (canon_generic g)) = digest (serialise (canon_generic h)) ->
  exists f, inj_on f (node_ids g) /\ geq_cov (relabel f g) h.
Proof. exact signature_sound_generic. Qed.
Print Assumptions C08_signature_sound_generic.

Theorem C08_signature_sound_wl_morgan : forall (D : Type) (digest : str -> D) (r r' : list (N * Z)) (g h : graph),
  wf g -> wf h -> els_ok g -> els_ok h ->
  (digest (serialise (canon_rank r g)) = digest (serialise (canon_rank r' h)) ->
   serialise (canon_rank r g) = serialise (canon_rank r' h)) ->
  digest (serialise (canon_rank r g)) = digest (serialise (canon_rank r' h)) ->
  exists f, inj_on f (node_ids g) /\ geq_cov (relabel f g) h.
Proof. exact signature_sound_rank. Qed.
Print Assumptions C08_signature_sound_wl_morgan.

Theorem C08_signature_sound_nauty : forall (D : Type) (digest : str -> D) (g h : graph),
  wf g -> wf h -> els_ok g -> els_ok h ->
  (digest (serialise (canon_nauty g)) = digest (serialise (canon_nauty h)) ->
   serialise (canon_nauty g) = serialise (canon_nauty h)) ->
  digest (serialise (canon_nauty g)) = digest (serialise (canon_nauty h)) ->
  exists f, inj_on f (node_ids g) /\ geq_cov (relabel f g) h.
Proof. exact signature_sound_nauty. Qed.
Print Assumptions C08_signature_sound_nauty.

(** 5. The exact back-end is invariant: any two graphs that are isomorphic on the covered attributes - however
       their nodes are numbered, in whatever order nodes and edges were inserted, whichever way round an edge is
       stored, whatever the atom maps (which only steer the order in which the search visits children) - receive
       the same canonical graph on the covered attributes and the same serialisation, hence the same signature.
       Proof: the individualisation-refinement search of the model is an instance of lib/IRCore + lib/IRSearch
       (pruned search = fold over the unpruned leaf enumeration; the leaf enumerations of isomorphic graphs
       correspond up to order; the minimum label is order-independent), the label string determines the
       position-indexed covered graph (two leaves with equal labels differ by an automorphism), and the
       serialisation is a function of the covered graph.  Includes termination within the fuel. *)
Theorem C08_nauty_invariant : forall (D : Type) (digest : str -> D) (g h : graph),
  wf g -> wf h -> els_ok g ->
  (exists f, inj_on f (node_ids g) /\ geq_cov (relabel f g) h) ->
  geq_cov (canon_nauty g) (canon_nauty h) /\
  digest (serialise (canon_nauty g)) = digest (serialise (canon_nauty h)).
Proof. exact signature_invariant_nauty. Qed.
Print Assumptions C08_nauty_invariant.

(** 3 (nauty). The signature of the exact back-end is a function of the graph (special case of 5). *)
Theorem C08_signature_function_nauty : forall (D : Type) (digest : str -> D) (g h : graph),
  wf g -> wf h -> els_ok g -> geq_cov g h ->
  digest (serialise (canon_nauty g)) = digest (serialise (canon_nauty h)).
Proof. exact signature_function_nauty. Qed.
Print Assumptions C08_signature_function_nauty.

(** 6. Value objects built on signatures compare equal exactly for isomorphic content (exact back-end), and only
       for isomorphic content (every back-end: that is 4).  SynGraph compares the signature of the raw graph,
       CanonicalGraph the signature of its canonical graph, SynRule (after repair 6662066) the signatures of the
       left and right fragments and of the reaction-centre graph.  Stated for the digests under the premise that
       the digest does not collide on the strings compared, and for the digest-free verdicts
       [syngraph_eqb] / [cangraph_eqb] / [synrule_eqb] of the model that the correspondence evaluates against
       the wrappers' __eq__ on every run.  A rule is modelled as its three fragment graphs (rc, left, right);
       the decomposition of an ITS graph into them is outside the model.
       SynRule (audit finding A2-1): comparing the three signatures characterises three INDEPENDENT isomorphisms (the two
       _componentwise theorems below: true, but weaker than "isomorphic content", which is ONE map for rc, left and right) -
       see 25 for the joint statement: joint => equal is proved, equal => joint is REFUTED for the three-signature comparison. *)
Theorem C08_value_objects_syngraph : forall (D : Type) (digest : str -> D) (g h : graph),
  wf g -> wf h -> els_ok g -> els_ok h ->
  (digest (ser_nauty g) = digest (ser_nauty h) -> ser_nauty g = ser_nauty h) ->
  (digest (ser_nauty g) = digest (ser_nauty h) <-> iso_cov g h).
Proof. exact syngraph_nauty. Qed.
Print Assumptions C08_value_objects_syngraph.

Theorem C08_value_objects_canonicalgraph : forall (D : Type) (digest : str -> D) (g h : graph),
  wf g -> wf h -> els_ok g -> els_ok h ->
  (digest (ser_nauty (canon_nauty g)) = digest (ser_nauty (canon_nauty h)) ->
   ser_nauty (canon_nauty g) = ser_nauty (canon_nauty h)) ->
  (digest (ser_nauty (canon_nauty g)) = digest (ser_nauty (canon_nauty h)) <-> iso_cov g h).
Proof. exact cangraph_nauty. Qed.
Print Assumptions C08_value_objects_canonicalgraph.

Theorem C08_value_objects_synrule_componentwise : forall (D : Type) (digest : str -> D) (rc l r rc' l' r' : graph),
  wf rc -> wf l -> wf r -> wf rc' -> wf l' -> wf r' ->
  els_ok rc -> els_ok l -> els_ok r -> els_ok rc' -> els_ok l' -> els_ok r' ->
  (forall g h, digest (ser_nauty g) = digest (ser_nauty h) -> ser_nauty g = ser_nauty h) ->
  ((digest (ser_nauty l), digest (ser_nauty r)) = (digest (ser_nauty l'), digest (ser_nauty r'))
   /\ digest (ser_nauty rc) = digest (ser_nauty rc')
   <-> iso_cov l l' /\ iso_cov r r' /\ iso_cov rc rc').
Proof. exact synrule_nauty_flat. Qed.
Print Assumptions C08_value_objects_synrule_componentwise.

Theorem C08_value_objects_model_verdicts : forall g h : graph, wf g -> wf h -> els_ok g -> els_ok h ->
  (syngraph_eqb ser_nauty g h = true <-> iso_cov g h) /\
  (cangraph_eqb canon_nauty ser_nauty g h = true <-> iso_cov g h) /\
  (syngraph_eqb ser_generic g h = true -> iso_cov g h) /\
  (cangraph_eqb canon_generic ser_generic g h = true -> iso_cov g h).
Proof. exact vo_model_verdicts. Qed.
Print Assumptions C08_value_objects_model_verdicts.

Theorem C08_value_objects_model_synrule_componentwise : forall rc l r rc' l' r' : graph,
  wf rc -> wf l -> wf r -> wf rc' -> wf l' -> wf r' ->
  els_ok rc -> els_ok l -> els_ok r -> els_ok rc' -> els_ok l' -> els_ok r' ->
  (synrule_eqb ser_nauty (rc, l, r) (rc', l', r') = true <-> iso_cov l l' /\ iso_cov r r' /\ iso_cov rc rc').
Proof. exact synrule_eqb_nauty_flat. Qed.
Print Assumptions C08_value_objects_model_synrule_componentwise.

(** 7. Corollary of 5 (fixed point): canonicalising a canonical graph with the exact back-end changes nothing on the
       covered attributes, and the signature of the canonical graph (what CanonicalGraph hashes) is the signature
       of the raw graph (what SynGraph hashes). *)
Theorem C08_nauty_idempotent : forall g : graph, wf g -> els_ok g ->
  geq_cov (canon_nauty g) (canon_nauty (canon_nauty g)) /\
  serialise (canon_nauty (canon_nauty g)) = serialise (canon_nauty g).
Proof. exact nauty_idempotent. Qed.
Print Assumptions C08_nauty_idempotent.

(** 8. NautyCanonicalizer.graph_signature (the digest of the label of the canonical graph read in the order 1..N;
       model: [graph_sig_label]) is exact: equal exactly for graphs that are isomorphic on the covered attributes -
       including ITS / reaction-centre graphs whose orders are (before, after) pairs, where a pair and its mirror image
       are different values.  The label it hashes is the minimal label found by the search. *)
Theorem C08_graph_signature_exact : forall (D : Type) (digest : str -> D) (g h : graph),
  wf g -> wf h -> els_ok g -> els_ok h ->
  (digest (graph_sig_label g) = digest (graph_sig_label h) -> graph_sig_label g = graph_sig_label h) ->
  (digest (graph_sig_label g) = digest (graph_sig_label h) <-> iso_cov g h).
Proof. exact graph_signature_spec. Qed.
Print Assumptions C08_graph_signature_exact.

Theorem C08_graph_signature_is_min_label : forall g : graph, wf g ->
  graph_sig_label g = nlabel g (nauty_perm g) /\ nauty_label g = Some (nlabel g (nauty_perm g)).
Proof. exact graph_sig_label_min_both. Qed.
Print Assumptions C08_graph_signature_is_min_label.

(** 9. The automorphism output of the exact back-end (canonical_form(return_aut=True); input of compute_orbits):
       the permutations reported next to the best one are exactly the leaves with the minimal label.
       Sound: each is a permutation of the node set with the label of the best one, and renumbering by it gives the same
       covered canonical graph - best_i |-> reported_i is an automorphism on the covered attributes.
       Complete: every automorphism sigma of the covered graph carries the best permutation to a reported one
       (pruning never drops a leaf with the minimal label). *)
Theorem C08_nauty_automorphisms_sound : forall g : graph, wf g -> els_ok g -> forall q, In q (snd (nauty_acc g)) ->
  Permutation q (node_ids g) /\ nlabel g q = nlabel g (nauty_perm g) /\
  geq_cov (relabel (apply_map (mapping_of (nauty_perm g))) g) (relabel (apply_map (mapping_of q)) g).
Proof. exact nauty_auts_sound. Qed.
Print Assumptions C08_nauty_automorphisms_sound.

Theorem C08_nauty_automorphisms_complete : forall (g : graph) (sigma : N -> N), wf g ->
  (forall x y, sigma x = sigma y -> x = y) -> geq_cov (relabel sigma g) g ->
  In (map sigma (nauty_perm g)) (snd (nauty_acc g)).
Proof. exact nauty_auts_complete. Qed.
Print Assumptions C08_nauty_automorphisms_complete.

(** 10. The attribute-sort back-end is idempotent: canonicalising a generic canonical graph changes nothing on the
        covered attributes (its nodes are already numbered in sorted order; the sort keys are prefix-free, so replacing
        the id tie-breaker by the rank keeps the order), hence the signature of the twin - what CanonicalGraph hashes -
        is the signature of the raw graph - what SynGraph hashes - also for the generic back-end. *)
Theorem C08_generic_idempotent : forall g : graph, wf g ->
  geq_cov (canon_generic (canon_generic g)) (canon_generic g) /\
  serialise (canon_generic (canon_generic g)) = serialise (canon_generic g).
Proof. exact generic_idempotent. Qed.
Print Assumptions C08_generic_idempotent.

(** 11. NautyCanonicalizer with edge_attrs = ["order"] (standard_order not selected) is modelled as the search on
        [strip_std g] (every standard_order forgotten; the canonical permutation is compared with the implementation's
        on every run).  It is exact on the attributes it selects: invariant canonical graph, and its graph_signature
        is equal exactly for graphs isomorphic once standard_order is forgotten. *)
Theorem C08_nauty_order_only_exact : forall (D : Type) (digest : str -> D) (g h : graph),
  wf g -> wf h -> els_ok g -> els_ok h ->
  (iso_cov (strip_std g) (strip_std h) -> geq_cov (canon_nauty (strip_std g)) (canon_nauty (strip_std h))) /\
  ((digest (graph_sig_label (strip_std g)) = digest (graph_sig_label (strip_std h)) ->
    graph_sig_label (strip_std g) = graph_sig_label (strip_std h)) ->
   (digest (graph_sig_label (strip_std g)) = digest (graph_sig_label (strip_std h)) <-> iso_cov (strip_std g) (strip_std h))).
Proof. exact nauty_order_only_exact. Qed.
Print Assumptions C08_nauty_order_only_exact.

(** 12. compute_orbits (canonical_form(return_orbits=True); model [nauty_orbits], a union-find over the reported
        permutations): the orbits partition the node set, and two nodes lie in one orbit exactly when they are linked
        by a chain of pairs (best_i, q_i), q a reported permutation - by 9 each such pair is the image of a node under
        an automorphism, and every automorphism contributes its pairs. *)
Theorem C08_nauty_orbits : forall g : graph, NoDup (node_ids g) ->
  Permutation (concat (nauty_orbits g)) (node_ids g) /\
  (forall c x y, In c (nauty_orbits g) -> In x c -> In y c ->
     clos_refl_sym_trans N (fun a b => exists q, In q (snd (nauty_acc g)) /\ In (a, b) (combine (nauty_perm g) q)) x y) /\
  (forall x y, In x (node_ids g) -> In y (node_ids g) ->
     clos_refl_sym_trans N (fun a b => exists q, In q (snd (nauty_acc g)) /\ In (a, b) (combine (nauty_perm g) q)) x y ->
     exists c, In c (nauty_orbits g) /\ In x c /\ In y c).
Proof. exact nauty_orbits_spec. Qed.
Print Assumptions C08_nauty_orbits.

(** 13. Directed inputs (round 5).  GraphCanonicaliser documents that the class of the input is preserved, and
        _serialise has a branch for directed graphs; a networkx.DiGraph is modelled by the same [lgraph] with the edge list
        read as the list of ARCS u -> v (model/C08_Digraph.v).  Theorems 1 and 2 for the attribute-sort and wl / morgan
        back-ends already cover digraphs: [canon_generic] / [canon_rank] are the model of both cases ([degree] = in-degree +
        out-degree = DiGraph.degree) and [gedges (canon ...) = gedges (relabel f g)] keeps the direction of every arc.
        What differs is the serialisation ([dserialise]: end points printed as stored; sort key (_edge_key, (u, v)) after
        repair R5a) and the exact back-end ([dsigN]: successors only; [dnlabel]: both triangles of the matrix after repair R5b).
        [dwf] = distinct node ids, arcs join two distinct nodes of the graph, at most one arc per ORDERED pair;
        [dgeq_cov] = same covered node set and same covered ARC set; [diso_cov] = isomorphic AS DIGRAPHS. *)
Theorem C08_digraph_faithful_nauty : forall g : graph, NoDup (node_ids g) ->
  exists f, inj_on f (node_ids g) /\ Permutation (gnodes (dcanon_nauty g)) (gnodes (relabel f g))
            /\ gedges (dcanon_nauty g) = gedges (relabel f g).
Proof. exact faithful_dnauty. Qed.
Print Assumptions C08_digraph_faithful_nauty.

Theorem C08_digraph_onto_1N_nauty : forall g : graph, NoDup (node_ids g) ->
  Permutation (node_ids (dcanon_nauty g)) (map N.of_nat (seq 1 (length (gnodes g)))).
Proof. exact onto_dnauty. Qed.
Print Assumptions C08_digraph_onto_1N_nauty.

(** the signature of a digraph is a function of the digraph: insertion order of nodes and arcs and uncovered attributes
    do not matter (before repair R5a false for the exact back-end: antiparallel arcs with equal attributes tied in the
    sort key and were printed in insertion order) *)
Theorem C08_digraph_signature_function_generic : forall (D : Type) (digest : str -> D) (g h : graph),
  dwf g -> dwf h -> dgeq_cov g h ->
  digest (dserialise (canon_generic g)) = digest (dserialise (canon_generic h)).
Proof. exact dsignature_function_generic. Qed.
Print Assumptions C08_digraph_signature_function_generic.

Theorem C08_digraph_signature_function_wl_morgan : forall (D : Type) (digest : str -> D) (ranks : list (N * Z)) (g h : graph),
  dwf g -> dwf h -> dgeq_cov g h ->
  digest (dserialise (canon_rank ranks g)) = digest (dserialise (canon_rank ranks h)).
Proof. exact dsignature_function_rank. Qed.
Print Assumptions C08_digraph_signature_function_wl_morgan.

(** equal signatures make two digraphs isomorphic as digraphs - the direction of every arc is covered (seeded change
    C08-w3-2 printed the end points smallest first: u -> v and v -> u got one signature) *)
Theorem C08_digraph_signature_sound_generic : forall (D : Type) (digest : str -> D) (g h : graph),
  dwf g -> dwf h -> els_ok g -> els_ok h ->
  (digest (dserialise (canon_generic g)) = digest (dserialise (canon_generic h)) ->
   dserialise (canon_generic g) = dserialise (canon_generic h)) ->
  digest (dserialise (canon_generic g)) = digest (dserialise (canon_generic h)) ->
  exists f, inj_on f (node_ids g) /\ dgeq_cov (relabel f g) h.
Proof. exact dsignature_sound_generic. Qed.
Print Assumptions C08_digraph_signature_sound_generic.

Theorem C08_digraph_signature_sound_wl_morgan : forall (D : Type) (digest : str -> D) (r r' : list (N * Z)) (g h : graph),
  dwf g -> dwf h -> els_ok g -> els_ok h ->
  (digest (dserialise (canon_rank r g)) = digest (dserialise (canon_rank r' h)) ->
   dserialise (canon_rank r g) = dserialise (canon_rank r' h)) ->
  digest (dserialise (canon_rank r g)) = digest (dserialise (canon_rank r' h)) ->
  exists f, inj_on f (node_ids g) /\ dgeq_cov (relabel f g) h.
Proof. exact dsignature_sound_rank. Qed.
Print Assumptions C08_digraph_signature_sound_wl_morgan.

Theorem C08_digraph_signature_sound_nauty : forall (D : Type) (digest : str -> D) (g h : graph),
  dwf g -> dwf h -> els_ok g -> els_ok h ->
  (digest (dserialise (dcanon_nauty g)) = digest (dserialise (dcanon_nauty h)) ->
   dserialise (dcanon_nauty g) = dserialise (dcanon_nauty h)) ->
  digest (dserialise (dcanon_nauty g)) = digest (dserialise (dcanon_nauty h)) ->
  exists f, inj_on f (node_ids g) /\ dgeq_cov (relabel f g) h.
Proof. exact dsignature_sound_nauty. Qed.
Print Assumptions C08_digraph_signature_sound_nauty.

(** the exact back-end is invariant on digraphs: isomorphic digraphs, however numbered and inserted, get the same
    canonical digraph and the same signature (before repair R5b false: the label read only the arcs p_i -> p_j with
    i < j, two leaves with equal labels could give different canonical digraphs) *)
Theorem C08_digraph_nauty_invariant : forall (D : Type) (digest : str -> D) (g h : graph),
  dwf g -> dwf h -> els_ok g ->
  (exists f, inj_on f (node_ids g) /\ dgeq_cov (relabel f g) h) ->
  dgeq_cov (dcanon_nauty g) (dcanon_nauty h) /\
  digest (dserialise (dcanon_nauty g)) = digest (dserialise (dcanon_nauty h)).
Proof. exact dsignature_invariant_nauty. Qed.
Print Assumptions C08_digraph_nauty_invariant.

(** value objects on digraphs (SynGraph / CanonicalGraph compare this digest): equal exactly for isomorphic digraphs *)
Theorem C08_digraph_signature_exact_nauty : forall (D : Type) (digest : str -> D) (g h : graph),
  dwf g -> dwf h -> els_ok g -> els_ok h ->
  (digest (dser_nauty g) = digest (dser_nauty h) -> dser_nauty g = dser_nauty h) ->
  (digest (dser_nauty g) = digest (dser_nauty h) <-> (exists f, inj_on f (node_ids g) /\ dgeq_cov (relabel f g) h)).
Proof. exact dsignature_exact_nauty. Qed.
Print Assumptions C08_digraph_signature_exact_nauty.

(** 14. canonical_form(max_depth = md) of the exact back-end (model [canon_md]: None = RuntimeError, else (perm, early_stop);
        compared with the implementation for md = 0, 1, 2 and the number of nodes on every run).
        Exact: with md >= number of nodes the depth guard never fires - the result is the unbounded search's permutation and
        early_stop = False.  Faithful: whatever md, a returned permutation is a leaf of the search tree, so the returned graph
        is the input relabelled by a map injective on its nodes onto 1..N (not necessarily the canonical one). *)
Theorem C08_nauty_max_depth_exact : forall (md : nat) (g : graph), length (gnodes g) <= md -> NoDup (node_ids g) ->
  canon_md md g = Some (nauty_perm g, false).
Proof. exact canon_md_exact. Qed.
Print Assumptions C08_nauty_max_depth_exact.

Theorem C08_nauty_max_depth_faithful : forall (md : nat) (g : graph) (p : list N) (b : bool), NoDup (node_ids g) ->
  canon_md md g = Some (p, b) ->
  (exists f, inj_on f (node_ids g) /\ Permutation (gnodes (relabel (apply_map (mapping_of p)) g)) (gnodes (relabel f g))
             /\ gedges (relabel (apply_map (mapping_of p)) g) = gedges (relabel f g)) /\
  Permutation (node_ids (relabel (apply_map (mapping_of p)) g)) (map N.of_nat (seq 1 (length (gnodes g)))).
Proof. exact canon_md_faithful. Qed.
Print Assumptions C08_nauty_max_depth_faithful.

(** 15. Directed inputs, fixed point and wrappers: canonicalising a canonical digraph with the exact back-end changes nothing on
        the covered attributes (so CanonicalGraph's hash = SynGraph's signature on DiGraphs too); CanonicalGraph wrappers of
        DiGraphs are equal exactly for isomorphic digraphs; the digest-free verdicts the correspondence evaluates on every
        digraph case ([drun_vo]): exact back-end <=> isomorphic as digraphs, attribute-sort back-end => isomorphic as digraphs. *)
Theorem C08_digraph_nauty_idempotent : forall g : graph, dwf g -> els_ok g ->
  dgeq_cov (dcanon_nauty g) (dcanon_nauty (dcanon_nauty g)) /\
  dserialise (dcanon_nauty (dcanon_nauty g)) = dserialise (dcanon_nauty g).
Proof. exact dnauty_idempotent. Qed.
Print Assumptions C08_digraph_nauty_idempotent.

Theorem C08_digraph_value_objects_canonicalgraph : forall (D : Type) (digest : str -> D) (g h : graph),
  dwf g -> dwf h -> els_ok g -> els_ok h ->
  (digest (dser_nauty (dcanon_nauty g)) = digest (dser_nauty (dcanon_nauty h)) ->
   dser_nauty (dcanon_nauty g) = dser_nauty (dcanon_nauty h)) ->
  (digest (dser_nauty (dcanon_nauty g)) = digest (dser_nauty (dcanon_nauty h)) <->
   (exists f, inj_on f (node_ids g) /\ dgeq_cov (relabel f g) h)).
Proof. exact dcangraph_nauty. Qed.
Print Assumptions C08_digraph_value_objects_canonicalgraph.

Theorem C08_digraph_value_objects_model_verdicts : forall g h : graph, dwf g -> dwf h -> els_ok g -> els_ok h ->
  (syngraph_eqb dser_nauty g h = true <-> diso_cov g h) /\
  (cangraph_eqb dcanon_nauty dser_nauty g h = true <-> diso_cov g h) /\
  (syngraph_eqb dser_generic g h = true -> diso_cov g h) /\
  (cangraph_eqb canon_generic dser_generic g h = true -> diso_cov g h).
Proof. exact dvo_model_verdicts. Qed.
Print Assumptions C08_digraph_value_objects_model_verdicts.

(** 16. NautyCanonicalizer.graph_signature on a DiGraph (model [dgraph_sig_label]: the two-triangle label of the canonical
        digraph read in the order 1..N; compared with the implementation per presentation on every digraph case): it hashes
        the minimal label of the search and is equal exactly for digraphs that are isomorphic as digraphs. *)
Theorem C08_digraph_graph_signature_exact : forall (D : Type) (digest : str -> D) (g h : graph),
  dwf g -> dwf h -> els_ok g -> els_ok h ->
  (digest (dgraph_sig_label g) = digest (dgraph_sig_label h) -> dgraph_sig_label g = dgraph_sig_label h) ->
  (digest (dgraph_sig_label g) = digest (dgraph_sig_label h) <-> diso_cov g h).
Proof. exact dgraph_signature_spec. Qed.
Print Assumptions C08_digraph_graph_signature_exact.

Theorem C08_digraph_graph_signature_is_min_label : forall g : graph, dwf g ->
  dgraph_sig_label g = dnlabel g (dnauty_perm g) /\ dnauty_label g = Some (dnlabel g (dnauty_perm g)).
Proof. exact dgraph_sig_label_min_both. Qed.
Print Assumptions C08_digraph_graph_signature_is_min_label.

(** 17. compute_orbits returns the orbits of the automorphism group (closes the gap left by 12): two nodes lie in one class
        of [nauty_orbits] exactly when an automorphism of the covered graph - a map injective on the nodes with
        [geq_cov (relabel s g) g] - carries one to the other.  (12 gives the classes generated by the reported pairs, 9 makes
        every reported pair an automorphism image and every automorphism a reported permutation; the automorphisms form a
        group: identity, composition, inverse on the node set.) *)
Theorem C08_nauty_orbits_are_automorphism_orbits : forall g : graph, wf g -> els_ok g ->
  forall x y, In x (node_ids g) -> In y (node_ids g) ->
  ((exists c, In c (nauty_orbits g) /\ In x c /\ In y c) <->
   (exists s, (inj_on s (node_ids g) /\ geq_cov (relabel s g) g) /\ s x = y)).
Proof. exact nauty_orbits_aut. Qed.
Print Assumptions C08_nauty_orbits_are_automorphism_orbits.

(** 18. Directed inputs: automorphism and orbit outputs of the exact back-end on a DiGraph (9, 12 and 17 for digraphs; the
        reported permutations and the orbits are compared with the implementation on every digraph case). *)
Theorem C08_digraph_nauty_automorphisms_sound : forall g : graph, dwf g -> els_ok g -> forall q, In q (snd (dnauty_acc g)) ->
  Permutation q (node_ids g) /\ dnlabel g q = dnlabel g (dnauty_perm g) /\
  dgeq_cov (relabel (apply_map (mapping_of (dnauty_perm g))) g) (relabel (apply_map (mapping_of q)) g).
Proof. exact dnauty_auts_sound. Qed.
Print Assumptions C08_digraph_nauty_automorphisms_sound.

Theorem C08_digraph_nauty_automorphisms_complete : forall (g : graph) (sigma : N -> N), dwf g ->
  (forall x y, sigma x = sigma y -> x = y) -> dgeq_cov (relabel sigma g) g ->
  In (map sigma (dnauty_perm g)) (snd (dnauty_acc g)).
Proof. exact dnauty_auts_complete. Qed.
Print Assumptions C08_digraph_nauty_automorphisms_complete.

Theorem C08_digraph_nauty_orbits_are_automorphism_orbits : forall g : graph, dwf g -> els_ok g ->
  forall x y, In x (node_ids g) -> In y (node_ids g) ->
  ((exists c, In c (dnauty_orbits g) /\ In x c /\ In y c) <->
   (exists s, (inj_on s (node_ids g) /\ dgeq_cov (relabel s g) g) /\ s x = y)).
Proof. exact dnauty_orbits_aut. Qed.
Print Assumptions C08_digraph_nauty_orbits_are_automorphism_orbits.

(** 19. The canonical node order compared with the implementation on every run ([generic_order], [rank_order]: old ids in the
        order of their new ids) is the order the canonical graphs of the attribute-sort / wl / morgan back-ends are built from, it
        enumerates the nodes, and the new id of a node is its position in it. *)
Theorem C08_canonical_node_order : forall (ranks : list (N * Z)) (g : graph),
  canon_generic g = rebuild g (generic_order g) /\ Permutation (generic_order g) (node_ids g) /\
  canon_rank ranks g = rebuild g (rank_order ranks g) /\ Permutation (rank_order ranks g) (node_ids g) /\
  (NoDup (node_ids g) -> forall v, In v (node_ids g) ->
     nth_error (generic_order g) (N.to_nat (apply_map (mapping_of (generic_order g)) v) - 1) = Some v).
Proof. exact canonical_orders. Qed.
Print Assumptions C08_canonical_node_order.

(** 20. NautyCanonicalizer(node_attrs, edge_attrs) used directly with ANY attribute selection, in any order, also empty (model
        model/C08_Sel.v: the selected attributes form the cell key, the signature, the label fields and the partial label; four
        selections are compared with the implementation - permutation, best label, reported permutations, graph_signature
        pattern - on a quarter of the cases): canonical_form returns the input relabelled by a map injective on its nodes onto
        1..N (the search terminates, the partial label stays a lower bound whatever is printed).  The selection
        GraphCanonicaliser passes gives the label of 8.  (Exactness on the selected attributes: proved for the default selection
        (5, 8) and for edge_attrs = [order] (11); other selections: oracle.) *)
Theorem C08_nauty_selection_faithful : forall (na : list nsel) (ea : list esel) (g : graph), NoDup (node_ids g) ->
  exists f, inj_on f (node_ids g) /\ Permutation (gnodes (canon_nauty_sel na ea g)) (gnodes (relabel f g))
            /\ gedges (canon_nauty_sel na ea g) = gedges (relabel f g).
Proof. exact faithful_nauty_sel. Qed.
Print Assumptions C08_nauty_selection_faithful.

Theorem C08_nauty_selection_onto_1N : forall (na : list nsel) (ea : list esel) (g : graph), NoDup (node_ids g) ->
  Permutation (node_ids (canon_nauty_sel na ea g)) (map N.of_nat (seq 1 (length (gnodes g)))).
Proof. exact onto_nauty_sel. Qed.
Print Assumptions C08_nauty_selection_onto_1N.

Theorem C08_nauty_selection_default_label : forall (g : graph) (p : list N),
  nlabel_sel [SEl; SAr; SCh; SHc] [SOrd; SStd] g p = nlabel g p.
Proof. exact nlabel_sel_default. Qed.
Print Assumptions C08_nauty_selection_default_label.

(** 21. REFUTED clause (known finding nauty-empty-selection:graph_signature:n0-vs-n1): NautyCanonicalizer.graph_signature with NO
        node attribute selected is not sound on the pair (empty graph, single node): both labels are "||".  With the default
        selection the two labels differ (8 holds there).  Kept as it is: making the label carry the node count would change
        every stored graph_signature digest. *)
Theorem C08_nauty_empty_selection_graph_signature_refuted : exists g h : graph,
  graph_sig_label_sel [] [] g = graph_sig_label_sel [] [] h /\ length (gnodes g) <> length (gnodes h)
  /\ graph_sig_label_sel [SEl; SAr; SCh; SHc] [SOrd; SStd] g <> graph_sig_label_sel [SEl; SAr; SCh; SHc] [SOrd; SStd] h.
Proof. exact empty_selection_refuted. Qed.
Print Assumptions C08_nauty_empty_selection_graph_signature_refuted.

(** 22. Every attribute selection: isomorphic graphs (on the covered attributes, however numbered / inserted / oriented) get the same
        NautyCanonicalizer.graph_signature, and the label it hashes is the minimal label of the selection's search.  (The converse
        on the SELECTED attributes: default selection 8, order-only 11; refuted for the empty node selection, 21.) *)
Theorem C08_nauty_selection_graph_signature_invariant : forall (D : Type) (digest : str -> D) (na : list nsel) (ea : list esel) (g h : graph),
  wf g -> wf h -> iso_cov g h ->
  digest (graph_sig_label_sel na ea g) = digest (graph_sig_label_sel na ea h).
Proof. exact graph_signature_sel_invariant. Qed.
Print Assumptions C08_nauty_selection_graph_signature_invariant.

Theorem C08_nauty_selection_graph_signature_is_min_label : forall (na : list nsel) (ea : list esel) (g : graph), wf g ->
  graph_sig_label_sel na ea g = nlabel_sel na ea g (nauty_perm_sel na ea g).
Proof. exact graph_sig_label_sel_min. Qed.
Print Assumptions C08_nauty_selection_graph_signature_is_min_label.

(** 23. canonical_form(max_depth): whenever early_stop is reported False the search was complete - the returned permutation is the
        canonical one, for every bound (the flag is sticky).  With 14: early_stop = False <=> nothing was cut off as far as the
        result is concerned; early_stop = True still returns a faithful relabelling. *)
Theorem C08_nauty_max_depth_no_early_stop : forall (md : nat) (g : graph) (p : list N), NoDup (node_ids g) ->
  canon_md md g = Some (p, false) -> p = nauty_perm g.
Proof. exact canon_md_no_early_stop. Qed.
Print Assumptions C08_nauty_max_depth_no_early_stop.

(** 24. The monitored digest premise.  The correspondence compares the equality pattern of the implementation's digests with
        [pattern [] strings] of the model's serialisations ([run_case], [run_batch], [run_sel], ...).  Two positions of the pattern
        agree exactly when the two strings are equal - so a run without mismatch has checked, on every pair of strings it compared,
        "digests equal <=> strings equal": the premise of the soundness theorems. *)
Theorem C08_pattern_observable : forall (l : list str) (i j : nat) (s t : str),
  nth_error l i = Some s -> nth_error l j = Some t ->
  (nth_error (pattern [] l) i = nth_error (pattern [] l) j <-> s = t).
Proof. exact pattern_eq_iff. Qed.
Print Assumptions C08_pattern_observable.

(** 25. SynRule and ONE bijection.  Isomorphic content of a rule = a single map f carrying left, right and reaction-centre graph
        simultaneously.  Such rules compare equal ([synrule_eqb]: the three signatures agree) - full.  The converse is REFUTED for the
        comparison of the three signatures of the single-sided graphs (what SynRule.__eq__ did before repair 4537ada): two double
        bonds 1=2, 3=4 closing to the four-ring 1-2-3-4 with product-side charge +1 on {1,2} resp. {1,4}; the right fragment alone
        has the reflection exchanging the two pairs, the reaction-centre graph (whose node attributes were the reactant side only)
        does not see the charges, no single map works.  The repaired code signs the reaction-centre graph with both sides of
        typesGH; that graph is outside the model and the repaired behaviour is judged by the oracle on rules built from ITS graphs
        (case kind itsrule: one bijection preserving both sides of typesGH and the (before, after) orders). *)
Theorem C08_value_objects_synrule_joint_complete : forall rc l r rc' l' r' : graph,
  wf rc -> wf l -> wf r -> wf rc' -> wf l' -> wf r' ->
  els_ok rc -> els_ok l -> els_ok r -> els_ok rc' -> els_ok l' -> els_ok r' ->
  (exists f, inj_on f (node_ids rc) /\ inj_on f (node_ids l) /\ inj_on f (node_ids r) /\
             geq_cov (relabel f l) l' /\ geq_cov (relabel f r) r' /\ geq_cov (relabel f rc) rc') ->
  synrule_eqb ser_nauty (rc, l, r) (rc', l', r') = true.
Proof. exact synrule_joint_complete_flat. Qed.
Print Assumptions C08_value_objects_synrule_joint_complete.

Theorem C08_value_objects_synrule_refuted : exists rc l r rc' l' r' : graph,
  (wf rc /\ wf l /\ wf r /\ wf rc' /\ wf l' /\ wf r') /\
  (els_ok rc /\ els_ok l /\ els_ok r /\ els_ok rc' /\ els_ok l' /\ els_ok r') /\
  synrule_eqb ser_nauty (rc, l, r) (rc', l', r') = true /\
  ~ (exists f, inj_on f (node_ids rc) /\ inj_on f (node_ids l) /\ inj_on f (node_ids r) /\
               geq_cov (relabel f l) l' /\ geq_cov (relabel f r) r' /\ geq_cov (relabel f rc) rc').
Proof. exact synrule_joint_refuted_flat. Qed.
Print Assumptions C08_value_objects_synrule_refuted.

(** 26. The REPAIRED SynRule equality (/repo 4537ada; model/C08_Rule2.v; round 6).  A rule = (its, left, right): [its : graph2] is the
        ITS graph with a two-sided node attribute (reactant, product) and (before, after) bond orders; __eq__ / __hash__ compare
        left.signature, right.signature and the signature of the two-sided reaction-centre graph ([rule2_eqb]; the verdict matrix of
        every itsrule and rule case is compared with SynRule.__eq__ and hash equality on every run, with and without implicit_h).
        [geq2] = same set of atoms with (element, charge, aromatic, hcount) BEFORE AND AFTER, same set of bonds with (before, after,
        standard_order); [els2_ok] = element symbols are ASCII letters / digits.
        a. the two-sided rc signature is exact: equal <=> ONE bijection preserving the two-sided labels of atoms and bonds;
        b. equal rules are isomorphic as rules (that bijection exists) - the clause audit A2-1 found violated, now full;
        c. for rules whose stored fragments are the its_decompose projections of their stored ITS graph ([left_of]: reactant-side atom
           labels, bonds with before > 0 and order := before; [right_of]: product side / after; the constructor's hydrogen handling
           edits the three graphs consistently - the model checks [derived_b] on the implementation's values of EVERY rule of every
           case, and [derived_b_sound] turns the check into the premise): equal <=> isomorphic as rules, full strength;
        d. without that premise: equal <=> ITS-isomorphic and fragmentwise isomorphic. *)
Theorem C08_synrule_repaired_rc_signature_exact : forall g h : graph2, wf g -> wf h -> els2_ok g -> els2_ok h ->
  (rc2_sig g = rc2_sig h <-> exists f, inj_on f (node_ids g) /\ geq2 (relabel f g) h).
Proof. exact rc2_sig_exact. Qed.
Print Assumptions C08_synrule_repaired_rc_signature_exact.

Theorem C08_synrule_repaired_eq_sound : forall (its its' : graph2) (l r l' r' : graph),
  wf its -> wf l -> wf r -> wf its' -> wf l' -> wf r' -> els2_ok its -> els_ok l -> els_ok r -> els2_ok its' -> els_ok l' -> els_ok r' ->
  rule2_eqb (its, l, r) (its', l', r') = true ->
  exists f, inj_on f (node_ids its) /\ geq2 (relabel f its) its'.
Proof. exact rule2_eq_sound_flat. Qed.
Print Assumptions C08_synrule_repaired_eq_sound.

Theorem C08_synrule_repaired_eq_exact : forall (its its' : graph2) (l r l' r' : graph),
  wf its -> wf l -> wf r -> wf its' -> wf l' -> wf r' -> els2_ok its -> els_ok l -> els_ok r -> els2_ok its' -> els_ok l' -> els_ok r' ->
  geq_cov l (left_of its) -> geq_cov r (right_of its) -> geq_cov l' (left_of its') -> geq_cov r' (right_of its') ->
  (rule2_eqb (its, l, r) (its', l', r') = true <-> exists f, inj_on f (node_ids its) /\ geq2 (relabel f its) its').
Proof. exact rule2_exact_flat. Qed.
Print Assumptions C08_synrule_repaired_eq_exact.

Theorem C08_synrule_repaired_eq_componentwise : forall (its its' : graph2) (l r l' r' : graph),
  wf its -> wf l -> wf r -> wf its' -> wf l' -> wf r' -> els2_ok its -> els_ok l -> els_ok r -> els2_ok its' -> els_ok l' -> els_ok r' ->
  (rule2_eqb (its, l, r) (its', l', r') = true <->
   (exists f, inj_on f (node_ids its) /\ geq2 (relabel f its) its') /\ iso_cov l l' /\ iso_cov r r').
Proof. exact rule2_eqb_spec_flat. Qed.
Print Assumptions C08_synrule_repaired_eq_componentwise.

(** 26e. the check the correspondence evaluates on the implementation's values of every rule ([derived_b]: the serialisations of the
         stored fragments equal those of the projections) implies the premise of 26c. *)
Theorem C08_synrule_repaired_derived_check : forall (its : graph2) (l r : graph), els2_ok its -> els_ok l -> els_ok r ->
  derived_b (its, l, r) = true -> geq_cov l (left_of its) /\ geq_cov r (right_of its).
Proof. exact derived_b_sound_flat. Qed.
Print Assumptions C08_synrule_repaired_derived_check.
