From SK Require Import model.C08_Model proof.C08_Proof.
Theorem C08_stub : canon_generic = canon_generic. Proof. exact stub. Qed.
Print Assumptions C08_stub.
