(** C10 — changing representation loses nothing: the obligations, written out in full. *)
From Coq Require Import List NArith ZArith String.
From SK Require Import lib.LGraph lib.StrJoin model.C10_Model proof.C10_Proof.
Import ListNotations.
Local Open Scope Z_scope.

(** GML node labels: for every element symbol in [A-Za-z*]+ and EVERY integer charge, the label written by
    NXToGML (element ++ _charge_to_string charge) is read back by GMLToNX._extract_element_and_charge as
    exactly (element, charge). *)
Theorem C10_label_roundtrip :
  forall (el : str) (c : Z),
    el <> [] -> Forall (fun ch => is_elem_char ch = true) el ->
    extract_element_and_charge (el ++ charge_to_string c) = (el, c).
Proof. exact label_roundtrip_full. Qed.
Print Assumptions C10_label_roundtrip.
