(** C10 — changing representation loses nothing: the obligations, written out in full. *)
From Coq Require Import List NArith ZArith String.
From SK Require Import lib.LGraph lib.StrJoin model.C10_Model model.C10_Text model.C10_Rxn model.C10_Dfs proof.C10_Dfs proof.C10_Rxn proof.C10_ImpH proof.C10_HRoundIts proof.C10_GmlEHFull proof.C10_ReindexEHFull proof.C10_Renumber proof.C10_G2MSpec proof.C10_G2MExt proof.C10_IndexIds proof.C10_MolMapped proof.C10_RenumberRec proof.C10_Text proof.C10_Proof proof.C10_Hydrogen proof.C10_Routes proof.C10_GmlWrite proof.C10_HRound proof.C10_Routes2 proof.C10_Reindex proof.C10_MolGraph proof.C10_Smart proof.C10_GmlEH proof.C10_Select proof.C10_MolOk proof.C10_Full proof.C10_Attrs proof.C10_Light proof.C10_ReindexEH.
Import ListNotations.
Local Open Scope Z_scope.

(** GML node labels: for every element symbol in [A-Za-z*]+ and EVERY integer charge, the label written by
    NXToGML (element ++ _charge_to_string charge) is read back by GMLToNX._extract_element_and_charge as
    exactly (element, charge). *)
Theorem C10_label_roundtrip :
  forall (el : str) (c : Z),
    el <> [] -> Forall (fun ch => is_elem_char ch = true) el ->
    extract_element_and_charge (el ++ charge_to_string c) = (el, c).
Proof. exact label_roundtrip_full. Qed.
Print Assumptions C10_label_roundtrip.

(** Hydrogen count, explicit direction: h_to_explicit never changes the total hydrogen count
    (sum of hcount + number of H nodes) — any graph (no well-formedness needed), any node list, both modes. *)
Theorem C10_h_total_explicit :
  forall (g : gr) (nodes : option (list N)) (its : bool),
    total_h (h_to_explicit g nodes its) = total_h g.
Proof. exact h_total_explicit. Qed.
Print Assumptions C10_h_total_explicit.

(** Hydrogen count, implicit direction: on a networkx graph ([gwfb]) in the domain [h_dom] (every explicit H has hcount 0
    and at most one heavy neighbour; H2 / H+ / lone H are inside: the repaired code keeps them) h_to_implicit keeps the
    total.  Outside the domain the count changes (proof/C10_Hydrogen.v: h_total_implicit_bridge, h_total_implicit_hh).
    ([h_dom] does not depend on the adjacency order networkx iterates: proof/C10_HRound.v h_dom_copy.) *)
Theorem C10_h_total_implicit :
  forall g : gr, gwfb g = true -> h_dom g = true -> total_h (h_to_implicit g) = total_h g.
Proof. exact h_total_implicit_wf. Qed.
Print Assumptions C10_h_total_implicit.

(** Two routes, reaction string vs ITS: after the RDKit half (r, p = rsmi_to_graph(smart); eo = the iteration
    artefact of ITSGraph) smart_to_gml(core=True) and its_to_gml(ITSGraph(r, p), core=True) are the same record. *)
Theorem C10_two_routes_string_its :
  forall (r p : gr) (eo : list (N * N)) (reindex explicit_h : bool),
    smart_to_gml r p eo true reindex explicit_h = its_to_gml (its_construct r p eo) true reindex explicit_h.
Proof. exact two_routes_string_its. Qed.
Print Assumptions C10_two_routes_string_its.

(** ITS -> GML -> ITS (full export of the graph given, ids kept: core=False, reindex=False, explicit_hydrogen=False).
    For every reaction-centre-shaped ITS graph c ([its_ok]: unique ids, one entry per bond, typesGH present with the
    same element in both halves and an element symbol in [A-Za-z*]+, element/charge attributes = reactant half, bond
    orders (before, after) from {absent, 1, 1.5, 2, 3} not both absent, standard_order = before - after) the graph read
    back from the written rule has
      - exactly the same atoms (node ids),
      - at every atom the same element and the same charge on BOTH sides (typesGH), and
      - exactly the same bond dictionary ((before, after) orders and standard_order) at every pair of atoms.
    What changes, stated explicitly by [gml_node]: hcount becomes 0 and aromatic False (GML carries neither), atom_map
    becomes the node id, 'neighbors' is not modelled.  Node and adjacency ORDER are not claimed. *)
Theorem C10_gml_roundtrip :
  forall c : gr, its_ok c = true ->
    let I' := gml_to_its (its_to_gml c false false false) in
    (forall n, has_node I' n = has_node c n) /\
    (forall n a, label c n = Some a ->
       label I' n = Some (gml_node n (tg_el (tG_of a)) (tg_ch (tG_of a)) (tg_ch (tH_of a)))) /\
    (forall u v, adj I' u v = adj c u v).
Proof. exact gml_roundtrip. Qed.
Print Assumptions C10_gml_roundtrip.

(** Hydrogen round trip: for every networkx graph g (unique ids, one entry per bond, end points are nodes: [gwfb])
    without explicit hydrogens, h_to_implicit (h_to_explicit g) has the same nodes in the same order, the same bond
    dictionary at every pair, and at every node the same dictionary except that the reactant-half hcount inside
    typesGH (if the node carries typesGH and had implicit hydrogens) stays lowered ([h_restore]).
    Adjacency ORDER is not claimed (networkx copy() re-inserts edges).  New hydrogens are numbered from max id + 1
    and all disappear again, so no renumbering remains.  Outside the domain (explicit H already present) the graph is
    not restored — those hydrogens are folded too (proof/C10_HRound.v: h_roundtrip_outside); the molecule and the
    count are (C10_h_total_explicit, C10_h_total_implicit). *)
Theorem C10_h_roundtrip :
  forall g : gr, gwfb g = true -> no_H g = true ->
    let g' := h_to_implicit (h_to_explicit g None false) in
    node_ids g' = node_ids g /\
    (forall n a, label g n = Some a -> label g' n = Some (h_restore a)) /\
    (forall u v, adj g' u v = adj g u v).
Proof. exact h_roundtrip. Qed.
Print Assumptions C10_h_roundtrip.

(** ... and for molecule graphs (no typesGH) every node dictionary is restored exactly. *)
Theorem C10_h_roundtrip_mol :
  forall g : gr, gwfb g = true -> no_H g = true -> no_tgh g = true ->
    let g' := h_to_implicit (h_to_explicit g None false) in
    node_ids g' = node_ids g /\ (forall n, label g' n = label g n) /\ (forall u v, adj g' u v = adj g u v).
Proof. exact h_roundtrip_mol. Qed.
Print Assumptions C10_h_roundtrip_mol.

(** Heavy-atom skeleton, explicit direction: for every networkx graph (explicit hydrogens allowed) h_to_explicit keeps
    every old node with element, aromaticity, charge, atom_map untouched and hcount lowered ([h_lowered]), keeps the
    bond dictionary between old nodes, and every new node is a hydrogen (H_att) bonded by a single bond to exactly
    one old node and to nothing else. *)
Theorem C10_h_explicit_skeleton :
  forall g : gr, gwfb g = true ->
    let E := h_to_explicit g None false in
    (forall n a, label g n = Some a -> label E n = Some (h_lowered a)) /\
    (forall u v, In u (node_ids g) -> In v (node_ids g) -> adj E u v = adj g u v) /\
    (forall h, In h (node_ids E) -> ~ In h (node_ids g) ->
       label E h = Some H_att /\
       exists m, In m (node_ids g) /\ forall w, adj E h w = if N.eqb w m then Some e_single else None).
Proof. exact h_explicit_skeleton. Qed.
Print Assumptions C10_h_explicit_skeleton.

(** Two routes, full ITS vs its centre: for every ITS graph I (a networkx graph whose nodes all carry typesGH) whose
    reaction centre get_rc I is in the domain of the round trip ([its_ok]), the rule exported from the FULL graph with
    core=True and the rule exported from the CENTRE (core=True again, as a caller holding only the centre would do)
    read back to the same ITS — same node dictionaries, same bond dictionaries — and that ITS has exactly the atoms and
    the (before, after) bonds of the centre.  (ids kept: reindex=False, explicit_hydrogen=False.  The proof goes through
    get_rc (get_rc I) ~ get_rc I on both lookups: proof/C10_Routes2.v rc_idem_label / rc_idem_adj.)
    Before repair c14a0f1 the full-graph export wrote the whole ITS as context (known_findings.d/C10.json). *)
Theorem C10_two_routes_centre :
  forall I : gr, gwfb I = true -> all_tgh I = true -> its_ok (get_rc I) = true ->
    let A := gml_to_its (its_to_gml I true false false) in
    let B := gml_to_its (its_to_gml (get_rc I) true false false) in
    (forall n, label A n = label B n) /\ (forall u v, adj A u v = adj B u v) /\
    (forall n, has_node A n = has_node (get_rc I) n) /\ (forall u v, adj A u v = adj (get_rc I) u v).
Proof. exact two_routes_centre. Qed.
Print Assumptions C10_two_routes_centre.

(** ITS -> GML -> ITS with reindex=True (the default of its_to_gml): the same round trip up to the documented
    renumbering f = old id |-> position (counted from 1) of the node in the node order of the graph.  f is injective on
    the nodes; the graph read back has exactly the nodes f n, at f n the element and both charges of n, and between
    f u and f v exactly the bond dictionary of (u, v); nothing else. *)
Theorem C10_gml_roundtrip_reindex :
  forall c : gr, its_ok c = true ->
    let f := mapget (enum_from 1%N (node_ids c)) in
    let I' := gml_to_its (its_to_gml c false true false) in
    (forall a b, In a (node_ids c) -> In b (node_ids c) -> f a = f b -> a = b) /\
    (forall k, has_node I' k = true <-> exists n, In n (node_ids c) /\ k = f n) /\
    (forall n a, label c n = Some a ->
       label I' (f n) = Some (gml_node (f n) (tg_el (tG_of a)) (tg_ch (tG_of a)) (tg_ch (tH_of a)))) /\
    (forall u v, In u (node_ids c) -> In v (node_ids c) -> adj I' (f u) (f v) = adj c u v) /\
    (forall k l x, adj I' k l = Some x ->
       exists u v, In u (node_ids c) /\ In v (node_ids c) /\ k = f u /\ l = f v /\ adj c u v = Some x).
Proof. exact gml_roundtrip_reindex. Qed.
Print Assumptions C10_gml_roundtrip_reindex.

(** ... and with reindex=True (the default of its_to_gml): both rules read back as renumberings fA / fB of the centre
    c = get_rc I — same element and charges at fA n and fB n, same bond dictionary between (fA u, fA v) and (fB u, fB v),
    no other atoms.  (The two numberings may differ: the node order of the centre of the centre need not be the node
    order of the centre; the rules are then equivalent, not equal.) *)
Theorem C10_two_routes_centre_reindex :
  forall I : gr, gwfb I = true -> all_tgh I = true -> its_ok (get_rc I) = true ->
    let c := get_rc I in
    let fA := mapget (enum_from 1%N (node_ids c)) in
    let fB := mapget (enum_from 1%N (node_ids (get_rc c))) in
    let A := gml_to_its (its_to_gml I true true false) in
    let B := gml_to_its (its_to_gml c true true false) in
    (forall n a, label c n = Some a ->
       let e := tg_el (tG_of a) in let q := tg_ch (tG_of a) in let q' := tg_ch (tH_of a) in
       label A (fA n) = Some (gml_node (fA n) e q q') /\ label B (fB n) = Some (gml_node (fB n) e q q')) /\
    (forall u v, has_node c u = true -> has_node c v = true ->
       adj A (fA u) (fA v) = adj c u v /\ adj B (fB u) (fB v) = adj c u v) /\
    (forall k, has_node A k = true <-> exists n, has_node c n = true /\ k = fA n) /\
    (forall k, has_node B k = true <-> exists n, has_node c n = true /\ k = fB n).
Proof. exact two_routes_centre_reindex. Qed.
Print Assumptions C10_two_routes_centre_reindex.

(** Molecule -> graph -> molecule, the part that is logic (attribute copying in MolToGraph.transform and
    GraphToMol.graph_to_mol, default flags).  For every molecule as the code reads it from RDKit (atoms in index order:
    symbol, aromatic flag, total H count, formal charge, atom map; bonds between two different existing atoms, one per
    pair: [wf_mol]) the RWMol handed back to RDKit has exactly those atoms in the same order — symbol, charge, atom map,
    and the total H count as explicit no-implicit count — and between every pair of atom indices exactly the bond that
    was read, with the type get_bond_type_from_order gives (aromatic flags are NOT handed back: RDKit re-perceives them
    from the AROMATIC bonds when it sanitises).  Bond list ORDER / orientation is not claimed. *)
Theorem C10_mol_graph_roundtrip :
  forall m : rmol, wf_mol m = true ->
    exists bonds', graph_to_mol (mol_to_graph m false false) = Some (map atom_back (fst m), bonds') /\
                   forall i j, bond_find i j bonds' = option_map bond_type (bond_find i j (snd m)).
Proof. exact mol_graph_roundtrip. Qed.
Print Assumptions C10_mol_graph_roundtrip.

(** SMILES -> graph -> SMILES.  RDKit is not modelled: [read] stands for MolFromSmiles + SanitizeMol + the getters,
    [write] for SanitizeMol + MolToSmiles on the rebuilt RWMol, [canon] for RDKit's canonical SMILES without stereo.
    Under the two contracts spelled out as premises (RDKit molecules are well formed with bond types single / aromatic /
    double / triple; rebuilding a molecule from the same atoms — total H count explicit — and the same bonds, in any bond
    order, writes the canonical SMILES), graph_to_smi (smiles_to_graph s) is the canonical SMILES.
    Both premises are monitored: oracle clause smiles-roundtrip on every molecule case (TESTED_NOT_PROVED). *)
Theorem C10_smiles_roundtrip_under_rdkit_contract :
  forall (Smi : Type) (read : Smi -> option rmol) (write : list watom * list (N * N * Z) -> option Smi) (canon : Smi -> Smi),
    (forall s m, read s = Some m -> wf_mol m = true /\ forall b e o, In (b, e, o) (snd m) -> bond_type o = o) ->
    (forall s m bonds', read s = Some m -> (forall i j, bond_find i j bonds' = bond_find i j (snd m)) ->
                        write (map atom_back (fst m), bonds') = Some (canon s)) ->
    forall s m, read s = Some m ->
      match graph_to_mol (mol_to_graph m false false) with Some w => write w | None => None end = Some (canon s).
Proof. exact smiles_roundtrip_under_contract. Qed.
Print Assumptions C10_smiles_roundtrip_under_rdkit_contract.

(** Heavy-atom skeleton, implicit direction: for EVERY networkx graph (any explicit hydrogens, also outside [h_dom])
    h_to_implicit keeps every non-hydrogen node with element, aromaticity, charge, atom_map and typesGH untouched (only
    hcount may change) and keeps the bond dictionary between any two nodes that are not hydrogens. *)
Theorem C10_h_implicit_skeleton :
  forall g : gr, gwfb g = true ->
    let F := h_to_implicit g in
    (forall n a, label g n = Some a -> el_is_H a = false -> exists a', label F n = Some a' /\ same_but_hc a' a) /\
    (forall u v, is_H g u = false -> is_H g v = false -> adj F u v = adj g u v).
Proof. exact h_implicit_skeleton. Qed.
Print Assumptions C10_h_implicit_skeleton.

(** From the reaction string to the rule and back (end to end after RDKit).  For every pair of molecule graphs r, p as
    MolToGraph writes them ([mol_ok]) on the same atoms with the same elements ([balanced]: an atom-balanced mapped
    reaction) and every enumeration eo of the union of their bonds ([eo_covers]; the set-iteration artefact of ITSGraph),
    the rule written by smart_to_gml(core=True) reads back as the reaction centre c of ITSGraph(r, p): exactly its atoms,
    element and both charges at each, exactly its (before, after) bond dictionaries.  In particular the centre of an
    ITS built from molecule graphs always lies in the domain [its_ok]-as-a-proposition of C10_gml_roundtrip. *)
Theorem C10_smart_roundtrip :
  forall (r p : gr) (eo : list (N * N)),
    mol_ok r = true -> mol_ok p = true -> balanced r p = true -> eo_covers r p eo = true ->
    let c := get_rc (its_construct r p eo) in
    let I' := gml_to_its (smart_to_gml r p eo true false false) in
    (forall n, has_node I' n = has_node c n) /\
    (forall n a, label c n = Some a ->
       label I' n = Some (gml_node n (tg_el (tG_of a)) (tg_ch (tG_of a)) (tg_ch (tH_of a)))) /\
    (forall u v, adj I' u v = adj c u v).
Proof. intros r p eo Hr Hp Hb He. apply smart_roundtrip; auto. apply eo_covers_spec. exact He. Qed.
Print Assumptions C10_smart_roundtrip.

(** ITS -> GML -> ITS with explicit_hydrogen=True, for an ITS without implicit hydrogens ([hc_free]: what get_rc returns —
    the hcount key is dropped — so this is the core export of any reaction): the context section then also lists the
    unchanged bonds (all written with label "-", whatever their order) and h_to_explicit is run on the context, and the
    rule still reads back to exactly the atoms, charges and (before, after) bond dictionaries of c.  (With implicit
    hydrogens present the export adds hydrogen atoms on purpose; that case is covered by the correspondence only.) *)
Theorem C10_gml_roundtrip_explicit_h :
  forall c : gr, its_ok c = true -> hc_free c = true ->
    let I' := gml_to_its (its_to_gml c false false true) in
    (forall n, has_node I' n = has_node c n) /\
    (forall n a, label c n = Some a ->
       label I' n = Some (gml_node n (tg_el (tG_of a)) (tg_ch (tG_of a)) (tg_ch (tH_of a)))) /\
    (forall u v, adj I' u v = adj c u v).
Proof. exact gml_roundtrip_eh. Qed.
Print Assumptions C10_gml_roundtrip_explicit_h.

(** Hydrogen round trip and skeleton for an ARBITRARY node list (partial / staged expansion: a subset of the atoms, a
    single reactive atom as the reactor does, duplicates, ids that are not atoms).  [exp_nodes g nodes] = the atoms
    visited (all of them for None / []).  The new hydrogens are numbered above EVERY id of the graph
    ((max_id g < h): fresh ids avoid all existing ids, whatever subset was selected), old atoms are never overwritten:
    atoms outside the subset keep their dictionary, atoms inside have hcount lowered; folding back restores the graph
    as in C10_h_roundtrip, at the selected atoms. *)
Theorem C10_h_explicit_skeleton_nodes :
  forall (g : gr) (nodes : option (list N)), gwfb g = true ->
    let E := h_to_explicit g nodes false in
    (forall n a, label g n = Some a -> label E n = Some (if mem n (exp_nodes g nodes) then h_lowered a else a)) /\
    (forall u v, In u (node_ids g) -> In v (node_ids g) -> adj E u v = adj g u v) /\
    (forall h, In h (node_ids E) -> ~ In h (node_ids g) ->
       (max_id g < h)%N /\ label E h = Some H_att /\
       exists m, In m (node_ids g) /\ forall w, adj E h w = if N.eqb w m then Some e_single else None).
Proof. exact h_explicit_skeleton_nodes. Qed.
Print Assumptions C10_h_explicit_skeleton_nodes.

Theorem C10_h_roundtrip_nodes :
  forall (g : gr) (nodes : option (list N)), gwfb g = true -> no_H g = true ->
    let g' := h_to_implicit (h_to_explicit g nodes false) in
    node_ids g' = node_ids g /\
    (forall n a, label g n = Some a ->
       label g' n = Some (if mem n (exp_nodes g nodes) then h_restore a else a)) /\
    (forall u v, adj g' u v = adj g u v).
Proof. exact h_roundtrip_nodes. Qed.
Print Assumptions C10_h_roundtrip_nodes.

(** Options: attribute selections (node_attrs / edge_attrs of smiles_to_graph, rsmi_to_graph, MolToGraph).  The model is a
    pure function of (molecule, flags, selection): a conversion cannot depend on what was converted before (the history
    cases of the harness test exactly this of the implementation).  Keeping every key is the unselected conversion;
    selecting twice is selecting the intersection, in either order; and every selection that keeps element, hcount, charge
    and atom_map (the default one does; 'aromatic' and 'neighbors' may go) hands RDKit back exactly the same molecule. *)
Theorem C10_select_all :
  forall (m : rmol) (drop ui : bool), mol_to_graph_sel m drop ui asel_all true = mol_to_graph m drop ui.
Proof. exact select_all. Qed.
Print Assumptions C10_select_all.

Theorem C10_select_twice :
  forall (s t : asel) (ks kt : bool) (g : gr),
    sel_graph s ks (sel_graph t kt g) =
    sel_graph (AS (k_el s && k_el t) (k_ar s && k_ar t) (k_hc s && k_hc t) (k_ch s && k_ch t) (k_am s && k_am t)) (ks && kt) g.
Proof. exact select_twice. Qed.
Print Assumptions C10_select_twice.

Theorem C10_graph_to_mol_selection :
  forall (s : asel) (g : gr), k_el s = true -> k_hc s = true -> k_ch s = true -> k_am s = true ->
    graph_to_mol (sel_graph s true g) = graph_to_mol g.
Proof. exact graph_to_mol_sel. Qed.
Print Assumptions C10_graph_to_mol_selection.

(** The graphs rsmi_to_graph builds (drop_non_aam=True, use_index_as_atom_map=True) from an RDKit molecule with element
    symbols in [A-Za-z*]+, RDKit bond types and distinct map numbers ([rdmol_ok], a contract about RDKit output monitored per
    case) are molecule graphs without standard_order: the premises [mol_ok] of C10_smart_roundtrip and [mol_ok], [std_free] of
    C10_two_routes_full hold for them. *)
Theorem C10_rsmi_graph_mol_ok :
  forall m : rmol, rdmol_ok m = true ->
    mol_ok (mol_to_graph m true true) = true /\ std_free (mol_to_graph m true true) = true.
Proof. intros m H. split; [exact (rsmi_graph_mol_ok m H)|exact (rsmi_graph_std_free m H)]. Qed.
Print Assumptions C10_rsmi_graph_mol_ok.

(** implicit_hydrogen / graph_to_smi with a preserve list, repaired code 3ba7a77 (finding
    graph_to_smi:preserve_atom_maps:bare-hydrogen-dropped, fixed): a hydrogen all of whose neighbours are hydrogens (H2, H+, a
    lone H) is an atom of implicit_hydrogen(graph, preserve) whatever the preserve list — for every networkx graph.  The code as
    it was is kept as implicit_hydrogen_old; with it H2 was handed to RDKit as the empty molecule
    (proof/C10_Select.v preserve_bare_h_old_refuted). *)
Theorem C10_implicit_hydrogen_keeps_bare_h :
  forall (g : gr) (l : list Z) (n : N), gwfb g = true ->
    is_H g n = true -> (forall w, adj g n w <> None -> is_H g w = true) -> has_node (implicit_hydrogen g l) n = true.
Proof. exact implicit_hydrogen_keeps_bare. Qed.
Print Assumptions C10_implicit_hydrogen_keeps_bare_h.

(** NXToGML.transform(attributes=[...]): with the default ["charge"] the generalised writer of the model is the writer the
    round-trip theorems are about. *)
Theorem C10_changed_attributes_default :
  forall (Lg Rg Kg : gr) (reindex explicit_h : bool),
    nx_to_gml_sel asel_charge Lg Rg Kg reindex explicit_h = nx_to_gml Lg Rg Kg reindex explicit_h.
Proof. exact nx_to_gml_sel_charge. Qed.
Print Assumptions C10_changed_attributes_default.

(** Two routes, FULL export (core=False).  For an atom-balanced pair of molecule graphs r, p (no standard_order on their
    bonds: [std_free]) the rule written from the reaction string (smart_to_gml core=False: left / right = r / p themselves)
    and the rule written from the ITS (its_to_gml core=False: left / right = its_decompose of the ITS) read back to the same
    graph: the whole ITS I = ITSGraph(r, p) — same atoms, element and both charges at each, same (before, after) bond
    dictionaries.  In particular the full ITS of molecule graphs lies in the domain of C10_gml_roundtrip. *)
Theorem C10_two_routes_full :
  forall (r p : gr) (eo : list (N * N)),
    mol_ok r = true -> mol_ok p = true -> balanced r p = true -> eo_covers r p eo = true ->
    std_free r = true -> std_free p = true ->
    let I := its_construct r p eo in
    let A := gml_to_its (smart_to_gml r p eo false false false) in
    let B := gml_to_its (its_to_gml I false false false) in
    (forall n, has_node A n = has_node I n /\ has_node B n = has_node I n) /\
    (forall n a, label I n = Some a ->
       let x := Some (gml_node n (tg_el (tG_of a)) (tg_ch (tG_of a)) (tg_ch (tH_of a))) in label A n = x /\ label B n = x) /\
    (forall u v, adj A u v = adj I u v /\ adj B u v = adj I u v).
Proof. exact two_routes_full_b. Qed.
Print Assumptions C10_two_routes_full.

(** NXToGML.transform(attributes=[...]) with any list that contains "charge": more atoms may move from the context section to
    left/right (because their hcount, aromaticity, element or atom_map differ between the two sides) but the rule still reads
    back to exactly the atoms, charges and (before, after) bond dictionaries of c. *)
Theorem C10_changed_attributes_roundtrip :
  forall (c : gr) (s : asel), its_ok c = true -> k_ch s = true ->
    let I' := snd (gml_to_nx (nx_to_gml_sel s (fst (its_decompose c)) (snd (its_decompose c)) c false false)) in
    (forall n, has_node I' n = has_node c n) /\
    (forall n a, label c n = Some a ->
       label I' n = Some (gml_node n (tg_el (tG_of a)) (tg_ch (tG_of a)) (tg_ch (tH_of a)))) /\
    (forall u v, adj I' u v = adj c u v).
Proof. exact attributes_roundtrip. Qed.
Print Assumptions C10_changed_attributes_roundtrip.

(** The light-weight builder MolToGraph.mol_to_graph(mol, light_weight=True) — one loop in which every atom adds its own
    node and then its own bonds, so that neighbours may enter the graph before their turn — builds the same graph as
    MolToGraph.transform (default flags): the same node dictionary at every id and the same bond dictionary at every pair.
    Premises about RDKit (monitored: oracle clause rdkit-contract): [ab] lists for every atom exactly its bonds
    (atom.GetBonds()), i.e. it agrees with the bond list of the molecule in both directions. *)
Theorem C10_light_weight_same_graph :
  forall (m : rmol) (ab : list (list (N * Z))),
    wf_mol m = true -> List.length ab = List.length (fst m) ->
    (forall i bs nb o, nth_error ab i = Some bs -> In (nb, o) bs -> bond_find (N.of_nat i) nb (snd m) = Some o) ->
    (forall i nb o, bond_find i nb (snd m) = Some o -> exists bs, nth_error ab (N.to_nat i) = Some bs /\ In (nb, o) bs) ->
    let g := mol_to_graph_light m ab false false in
    let g' := mol_to_graph m false false in
    (forall n, label g n = label g' n) /\ (forall u v, adj g u v = adj g' u v).
Proof. exact light_eq. Qed.
Print Assumptions C10_light_weight_same_graph.

(** reindex=True together with explicit_hydrogen=True (graphs without implicit hydrogens, i.e. every core export): the last
    cell of the (reindex, explicit_hydrogen) matrix of its_to_gml — the round trip holds up to the renumbering f. *)
Theorem C10_gml_roundtrip_reindex_explicit_h :
  forall c : gr, its_ok c = true -> hc_free c = true ->
    let f := mapget (enum_from 1%N (node_ids c)) in
    let I' := gml_to_its (its_to_gml c false true true) in
    (forall k, has_node I' k = true <-> exists n, In n (node_ids c) /\ k = f n) /\
    (forall n a, label c n = Some a ->
       label I' (f n) = Some (gml_node (f n) (tg_el (tG_of a)) (tg_ch (tG_of a)) (tg_ch (tH_of a)))) /\
    (forall u v, In u (node_ids c) -> In v (node_ids c) -> adj I' (f u) (f v) = adj c u v).
Proof. exact gml_roundtrip_reindex_eh. Qed.
Print Assumptions C10_gml_roundtrip_reindex_explicit_h.

(** GraphToMol options: with the flags graph_to_smi passes (ignore_bond_order=False, use_h_count=True) the general converter
    of the model is the one the round-trip theorems are about; whatever ignore_bond_order is, the atoms handed to RDKit are
    the same. *)
Theorem C10_graph_to_mol_options :
  (forall g : gr, graph_to_mol_gen false true g = graph_to_mol g) /\
  (forall (ignore : bool) (g : gr) atoms bonds, graph_to_mol_gen ignore true g = Some (atoms, bonds) ->
     atoms = map (fun p : N * natt => g2m_atom (snd p)) (gnodes g)).
Proof. split; [exact graph_to_mol_gen_default|exact graph_to_mol_gen_atoms]. Qed.
Print Assumptions C10_graph_to_mol_options.

(** THE TEXT LAYER.  [render name r] is the text NXToGML writes for a record (its f-strings), [text_parse] is the tokenisation
    of GMLToNX.transform / _parse_element (split on newline, strip, "rule" and "]" lines skipped, section detection by
    substring, str.split(), tokens.index(key) + 1, int(), strip of the double quotes, 'node in line' tested before 'edge in
    line').  For every rule name without a newline and every record whose entries are in the domain [rec_okb] — labels
    without whitespace and without a double quote (the bond labels - = # : and element+charge labels are), and no rendered
    line containing a section keyword (nor, for an edge, the word node) — the reader recovers exactly the entries of the
    record, section by section and in order.  Labels outside the domain are really not read back (proof/C10_Text.v
    text_roundtrip_needs_ok: a label spelling a keyword turns the line into a section header). *)
Theorem C10_text_roundtrip :
  forall (name : str) (r : grec), ~ In 10%N name -> rec_okb r = true -> text_parse (render name r) = Some (flatten r).
Proof. exact text_roundtrip. Qed.
Print Assumptions C10_text_roundtrip.

(** ... hence reading the rendered text gives exactly the three graphs of the record layer, about which all the GML
    theorems above are stated (C10_gml_roundtrip*, C10_two_routes_*, C10_smart_roundtrip hold verbatim for
    option_map snd (text_to_nx (render name (its_to_gml ...))) whenever the written record is in [rec_okb], which the
    correspondence monitors on every export). *)
Theorem C10_text_reads_record :
  forall (name : str) (r : grec), ~ In 10%N name -> rec_okb r = true -> text_to_nx (render name r) = Some (gml_to_nx r).
Proof. exact text_to_nx_render. Qed.
Print Assumptions C10_text_reads_record.

(** THREE DOCUMENTED ROUTES to the rule of a reaction, end to end after RDKit, with and without explicit_hydrogen: from the
    reaction string (smart_to_gml), from its full ITS (its_to_gml(rsmi_to_its(rsmi))) and from the centre only
    (its_to_gml(rsmi_to_its(rsmi, core=True)) — "whether the full ITS or only its centre is supplied").  For every
    atom-balanced pair of molecule graphs and every enumeration of their bonds, each of the three rules reads back as the
    reaction centre c of ITSGraph(r, p): exactly its atoms, element and both charges at each, exactly its (before, after) bond
    dictionaries — so the three rules are equivalent.  (core=True, ids kept; explicit_hydrogen either way: a centre carries no
    hcount, so the explicit_hydrogen export only adds the unchanged bonds to the context.) *)
Theorem C10_three_routes :
  forall (r p : gr) (eo : list (N * N)) (explicit_h : bool),
    mol_ok r = true -> mol_ok p = true -> balanced r p = true -> eo_covers r p eo = true ->
    let c := get_rc (its_construct r p eo) in
    let reads_c := fun X : gr =>
      (forall n, has_node X n = has_node c n) /\
      (forall n a, label c n = Some a ->
         label X n = Some (gml_node n (tg_el (tG_of a)) (tg_ch (tG_of a)) (tg_ch (tH_of a)))) /\
      (forall u v, adj X u v = adj c u v) in
    reads_c (gml_to_its (smart_to_gml r p eo true false explicit_h)) /\
    reads_c (gml_to_its (its_to_gml (rsmi_to_its r p eo false false) true false explicit_h)) /\
    reads_c (gml_to_its (its_to_gml (rsmi_to_its r p eo true false) true false explicit_h)).
Proof. exact three_routes. Qed.
Print Assumptions C10_three_routes.

(** rsmi_to_its(explicit_hydrogen=True): making the hydrogens of the ITS explicit (h_to_explicit in ITS mode) keeps its total
    hydrogen count — any two graphs, any enumeration. *)
Theorem C10_rsmi_to_its_total_h :
  forall (r p : gr) (eo : list (N * N)),
    total_h (rsmi_to_its r p eo false true) = total_h (rsmi_to_its r p eo false false).
Proof. exact rsmi_to_its_total_h. Qed.
Print Assumptions C10_rsmi_to_its_total_h.

(** graph_to_rsmi / its_to_rsmi / gml_to_smart up to the molecules handed to RDKit.  (i) When the reaction centre contains no
    hydrogen atom the explicit_hydrogen flag is irrelevant: both settings hand RDKit graph_to_mol r and graph_to_mol p.
    (ii) Otherwise the list of preserved atom maps is exactly the atom maps of the hydrogens of the centre, in node order
    (a hydrogen without the key makes the call fail: rc_h_maps = None), and (iii) on graphs that carry the keys
    implicit_hydrogen subscripts, the preserve path is the lenient function graph_to_smi_mol of model/C10_Model.v. *)
Theorem C10_graph_to_rsmi_flags :
  (forall (r p its : gr) (explicit_h : bool), no_H (get_rc its) = true ->
     graph_to_rsmi_mols r p its explicit_h = Some (graph_to_mol r, graph_to_mol p)) /\
  (forall (rc : gr) (l : list Z), rc_h_maps rc = Some l ->
     l = map (fun q : N * natt => dflt (a_am (snd q)) 0) (filter (fun q : N * natt => el_is_H (snd q)) (gnodes rc))) /\
  (forall (g : gr) (l : list Z), imph_keys_ok g = true -> graph_to_smi_mol_k g l = graph_to_smi_mol g l).
Proof. split; [exact graph_to_rsmi_no_H|split; [exact rc_h_maps_spec|exact graph_to_smi_mol_k_ok]]. Qed.
Print Assumptions C10_graph_to_rsmi_flags.

(** implicit_hydrogen(graph, preserve_atom_maps, reindex=True) — the renumbering tail: for every networkx graph the result is
    implicit_hydrogen(graph, preserve_atom_maps) renumbered by f = position (from 1) in node order: f is injective on the atoms
    kept, the result has exactly the atoms f n, at f n the dictionary of n with atom_map := f n, and between f u and f v
    exactly the bond of (u, v). *)
Theorem C10_implicit_hydrogen_reindex :
  forall (g : gr) (l : list Z), gwfb g = true ->
    let g1 := implicit_hydrogen g l in
    let f := mapget (enum_from 1%N (node_ids g1)) in
    let R := implicit_hydrogen_reindex g l in
    (forall a b, In a (node_ids g1) -> In b (node_ids g1) -> f a = f b -> a = b) /\
    (forall k, has_node R k = true <-> exists n, In n (node_ids g1) /\ k = f n) /\
    (forall n a, label g1 n = Some a -> label R (f n) = Some (set_am (Z.of_N (f n)) a)) /\
    (forall u v, In u (node_ids g1) -> In v (node_ids g1) -> adj R (f u) (f v) = adj g1 u v).
Proof. exact implicit_hydrogen_reindex_spec. Qed.
Print Assumptions C10_implicit_hydrogen_reindex.

(** HYDROGENS, EITHER MODE (its=False for molecule graphs, its=True for ITS graphs as rsmi_to_its(explicit_hydrogen=True) uses
    it; repaired code 61e730e).  [hexp_count its a] = the number of hydrogens made explicit at an atom (its=True and typesGH
    present: min(hcount, product-half hcount)); [h_lowered_gen] = what h_to_explicit leaves at the atom (hcount and the
    reactant half — its=True: both halves — of typesGH lowered by that number); [fin_edge] = the final normalize_edge_orders
    of the ITS mode (scalar order o -> (o, o), missing standard_order -> 0), the identity otherwise.
    Skeleton: for every networkx graph, any node list, either mode: old atoms keep everything but the lowered counts, bonds
    between old atoms keep their dictionary up to [fin_edge], every new node has an id above every id of the graph and is a
    hydrogen single-bonded to exactly one old atom. *)
Theorem C10_h_explicit_skeleton_any_mode :
  forall (g : gr) (nodes : option (list N)) (its : bool), gwfb g = true ->
    let E := h_to_explicit g nodes its in
    (forall n a, label g n = Some a -> label E n = Some (if mem n (exp_nodes g nodes) then h_lowered_gen its a else a)) /\
    (forall u v, In u (node_ids g) -> In v (node_ids g) -> adj E u v = option_map (fin_edge its) (adj g u v)) /\
    (forall h, In h (node_ids E) -> ~ In h (node_ids g) ->
       (max_id g < h)%N /\ label E h = Some H_att /\
       exists m, In m (node_ids g) /\ forall w, adj E h w = if N.eqb w m then Some (fin_edge its e_single) else None).
Proof. exact h_explicit_skeleton_gen. Qed.
Print Assumptions C10_h_explicit_skeleton_any_mode.

(** Round trip, either mode: for every networkx graph without explicit hydrogens and any node list, h_to_implicit after
    h_to_explicit has the same nodes in the same order, at every atom the same dictionary except that the typesGH halves
    lowered by h_to_explicit stay lowered ([h_restore_gen]: hcount itself IS restored), and the same bond dictionaries up to
    the normalisation [fin_edge] of the ITS mode.  (Closes the round-2/3 "left undone" item: its=True beyond the count.) *)
Theorem C10_h_roundtrip_any_mode :
  forall (g : gr) (nodes : option (list N)) (its : bool), gwfb g = true -> no_H g = true ->
    let g' := h_to_implicit (h_to_explicit g nodes its) in
    node_ids g' = node_ids g /\
    (forall n a, label g n = Some a ->
       label g' n = Some (if mem n (exp_nodes g nodes) then h_restore_gen its a else a)) /\
    (forall u v, adj g' u v = option_map (fin_edge its) (adj g u v)).
Proof. exact h_roundtrip_gen. Qed.
Print Assumptions C10_h_roundtrip_any_mode.

(** h_to_implicit commutes with every map on edge attributes (it never reads them): in particular with the
    normalize_edge_orders that ends h_to_explicit(its=True). *)
Theorem C10_h_to_implicit_edge_natural :
  forall (F : eatt -> eatt) (G : gr), h_to_implicit (emap F G) = emap F (h_to_implicit G).
Proof. exact h_to_implicit_emap. Qed.
Print Assumptions C10_h_to_implicit_edge_natural.

(** ITS -> GML -> ITS with explicit_hydrogen=True for an ITS WITH implicit hydrogens (a full ITS; closes the "left undone" item
    of rounds 2-4).  NXToGML writes the context section from h_to_explicit(context): every implicit hydrogen becomes a context
    atom "H" with a context bond "-" to its atom; the reader copies context atoms and bonds into both sides.  For every ITS c in
    the domain [its_ok] the graph read back is c WITH ITS HYDROGENS EXPLICIT, E = normalize_edge_orders (h_to_explicit c):
    exactly the atoms of E (the atoms of c plus one hydrogen atom per implicit hydrogen), at each the element and both charges
    (for a new hydrogen: "H", 0, 0), and exactly the bond dictionaries of E (those of c, plus (1, 1) between a hydrogen and
    its atom).  What E looks like is C10_h_explicit_skeleton_any_mode / C10_h_total_explicit: the atoms and bonds of c are
    untouched and the hydrogen count is kept.  For [hc_free] graphs E has the lookups of c: C10_gml_roundtrip_explicit_h. *)
Theorem C10_gml_roundtrip_explicit_h_full :
  forall c : gr, its_ok c = true ->
    let E := normalize_edge_orders (h_to_explicit c None false) in
    let I' := gml_to_its (its_to_gml c false false true) in
    (forall n, has_node I' n = has_node E n) /\
    (forall n a, label E n = Some a ->
       label I' n = Some (gml_node n (tg_el (tG_of a)) (tg_ch (tG_of a)) (tg_ch (tH_of a)))) /\
    (forall u v, adj I' u v = adj E u v).
Proof. exact gml_roundtrip_eh_full. Qed.
Print Assumptions C10_gml_roundtrip_explicit_h_full.

(** _synchronize_nodes_and_edges for ANY context and side graph (context bonds missing from the side are added, bonds the side
    already has win; context atoms are added / their dictionaries updated): the two lookups of the result. *)
Theorem C10_sync_side_lookups :
  forall (ctx side : gr), gwfb ctx = true ->
    (forall u v, adj (sync_side ctx side) u v = match adj side u v with Some y => Some y | None => adj ctx u v end) /\
    (forall n, label (sync_side ctx side) n =
               match label ctx n with
               | Some a => Some (match label side n with Some old => na_update a old | None => a end)
               | None => label side n
               end).
Proof. exact sync_side_lookups. Qed.
Print Assumptions C10_sync_side_lookups.

(** The correspondence also compares the LAST INTERMEDIATE STATE of NXToGML.transform — the three graphs and the changed-node list
    handed to _rule_grammar, after h_to_explicit of the context and after the reindex relabelling (observed by a spy on the real
    call).  The writers the theorems above speak about are _rule_grammar of exactly that state. *)
Theorem C10_writer_is_rule_grammar_of_mid :
  (forall (Lg Rg Kg : gr) (reindex explicit_h : bool),
     nx_to_gml Lg Rg Kg reindex explicit_h = rule_grammar (nx_to_gml_mid Lg Rg Kg reindex explicit_h) explicit_h) /\
  (forall (its : gr) (core reindex explicit_h : bool),
     its_to_gml its core reindex explicit_h = rule_grammar (its_to_gml_mid its core reindex explicit_h) explicit_h).
Proof. split; [exact nx_to_gml_mid_spec|exact its_to_gml_mid_spec]. Qed.
Print Assumptions C10_writer_is_rule_grammar_of_mid.

(** ... and with reindex=True (THE DEFAULT of its_to_gml; smart_to_gml defaults to False): each of the three rules reads back as a
    renumbering of the reaction centre c — exactly the atoms f n, element and both charges of n at f n, the bond dictionary of
    (u, v) at (f u, f v) — with f = position in the node order of c for the string and the full-ITS routes, and position in
    the node order of get_rc c for the centre-supplied route (the two orders may differ: equivalent rules, not equal ones). *)
Theorem C10_three_routes_reindex :
  forall (r p : gr) (eo : list (N * N)) (explicit_h : bool),
    mol_ok r = true -> mol_ok p = true -> balanced r p = true -> eo_covers r p eo = true ->
    let c := get_rc (its_construct r p eo) in
    let fA := mapget (enum_from 1%N (node_ids c)) in
    let fC := mapget (enum_from 1%N (node_ids (get_rc c))) in
    let reads_c_by := fun (f : N -> N) (X : gr) =>
      (forall k, has_node X k = true <-> exists n, In n (node_ids c) /\ k = f n) /\
      (forall n a, label c n = Some a ->
         label X (f n) = Some (gml_node (f n) (tg_el (tG_of a)) (tg_ch (tG_of a)) (tg_ch (tH_of a)))) /\
      (forall u v, In u (node_ids c) -> In v (node_ids c) -> adj X (f u) (f v) = adj c u v) in
    reads_c_by fA (gml_to_its (smart_to_gml r p eo true true explicit_h)) /\
    reads_c_by fA (gml_to_its (its_to_gml (rsmi_to_its r p eo false false) true true explicit_h)) /\
    reads_c_by fC (gml_to_its (its_to_gml (rsmi_to_its r p eo true false) true true explicit_h)).
Proof. exact three_routes_reindex. Qed.
Print Assumptions C10_three_routes_reindex.

(** THE LAST CELL of the option matrix of its_to_gml: reindex=True together with explicit_hydrogen=True on an ITS with implicit
    hydrogens.  The relabelling map covers the old ids (old id -> position from 1); the hydrogens h_to_explicit added keep their
    ids (max id + 1 ...).  For every [its_ok] ITS whose node ids are >= 1 (atom maps are) the rule reads back as
    E = normalize_edge_orders (h_to_explicit c) renumbered by f = that map (the identity on the new hydrogens): f is injective
    on the atoms of E, the graph read back has exactly the atoms f n, at f n the element and both charges of n, and between
    f u and f v exactly the bond dictionary of (u, v). *)
Theorem C10_gml_roundtrip_reindex_explicit_h_full :
  forall c : gr, its_ok c = true -> forallb (fun n => (1 <=? n)%N) (node_ids c) = true ->
    let E := normalize_edge_orders (h_to_explicit c None false) in
    let f := mapget (enum_from 1%N (node_ids c)) in
    let I' := gml_to_its (its_to_gml c false true true) in
    (forall a b, In a (node_ids E) -> In b (node_ids E) -> f a = f b -> a = b) /\
    (forall k, has_node I' k = true <-> exists n, In n (node_ids E) /\ k = f n) /\
    (forall n a, label E n = Some a ->
       label I' (f n) = Some (gml_node (f n) (tg_el (tG_of a)) (tg_ch (tG_of a)) (tg_ch (tH_of a)))) /\
    (forall u v, In u (node_ids E) -> In v (node_ids E) -> adj I' (f u) (f v) = adj E u v).
Proof. exact gml_roundtrip_reindex_eh_full. Qed.
Print Assumptions C10_gml_roundtrip_reindex_explicit_h_full.

(** ... and the hypothesis on the ids cannot be dropped (OBSERVATION, outside the property's quantifier — corpus reactions and
    their renumberings have ids >= 1): with 0-based node ids the first new hydrogen id equals the new id of the last atom,
    relabel_nodes merges the two nodes and an atom is lost; without reindex the same export is fine.  The witness is replayed on
    the implementation by the correspondence (corpus/regress/C10/reindex_eh_id0.json). *)
Theorem C10_reindex_explicit_h_needs_positive_ids :
  exists c : gr, its_ok c = true /\ forallb (fun n => (1 <=? n)%N) (node_ids c) = false /\
    List.length (gnodes (normalize_edge_orders (h_to_explicit c None false))) = 3%nat /\
    List.length (gnodes (gml_to_its (its_to_gml c false false true))) = 3%nat /\
    List.length (gnodes (gml_to_its (its_to_gml c false true true))) = 2%nat.
Proof. exact reindex_eh_needs_positive_ids. Qed.
Print Assumptions C10_reindex_explicit_h_needs_positive_ids.

(** Full ITS vs its centre for an ARBITRARY ITS graph I (any networkx graph whose nodes carry typesGH and whose centre is in the
    round-trip domain — not only ITSGraph of molecule graphs), explicit_hydrogen either way: the rule exported from I with
    core=True and the rule exported from get_rc I both read back as exactly the centre (generalises C10_two_routes_centre to
    explicit_hydrogen=True: a centre carries no hcount, so only the unchanged bonds are added to the context). *)
Theorem C10_two_routes_centre_explicit_h :
  forall (I : gr) (explicit_h : bool), gwfb I = true -> all_tgh I = true -> its_ok (get_rc I) = true ->
    let c := get_rc I in
    let reads_c := fun X : gr =>
      (forall n, has_node X n = has_node c n) /\
      (forall n a, label c n = Some a ->
         label X n = Some (gml_node n (tg_el (tG_of a)) (tg_ch (tG_of a)) (tg_ch (tH_of a)))) /\
      (forall u v, adj X u v = adj c u v) in
    reads_c (gml_to_its (its_to_gml I true false explicit_h)) /\ reads_c (gml_to_its (its_to_gml c true false explicit_h)).
Proof. exact two_routes_centre_any. Qed.
Print Assumptions C10_two_routes_centre_explicit_h.

(** RENUMBERING A REACTION RENUMBERS ITS RULE ("all corpus reactions and their renumberings").  Let (r', p') be (r, p) with every
    atom id n replaced by s n: s injective on the atoms, r' has exactly the atoms s n, the dictionary of s n in r' is the one of n
    in r except for atom_map, and the bond of (s u, s v) is the bond of (u, v) — the same for p, p' (what renumbering the atom
    maps of a reaction string does to rsmi_to_graph's output; proof/C10_Renumber.v rename_graph_renamed: the literal renumbering
    of a graph by an injective map is such a pair).  Then the rule smart_to_gml writes for (r', p') reads back as the rule of
    (r, p) renumbered by s: exactly the atoms s n, the same element and charges at s n as at n, the same (before, after) bond
    dictionary at (s u, s v) as at (u, v).  explicit_hydrogen either way; any bond enumerations. *)
Theorem C10_rule_renumbering :
  forall (s : N -> N) (r p r' p' : gr) (eo eo' : list (N * N)) (explicit_h : bool),
    let ren := fun G G' : gr =>
      (forall a b, has_node G a = true -> has_node G b = true -> s a = s b -> a = b) /\
      (forall k, has_node G' k = true <-> exists n, has_node G n = true /\ k = s n) /\
      (forall n a, label G n = Some a ->
         exists a', label G' (s n) = Some a' /\
                    a_el a' = a_el a /\ a_ar a' = a_ar a /\ a_hc a' = a_hc a /\ a_ch a' = a_ch a /\ a_tgh a' = a_tgh a) /\
      (forall u v, has_node G u = true -> has_node G v = true -> adj G' (s u) (s v) = adj G u v) in
    mol_ok r = true -> mol_ok p = true -> balanced r p = true -> eo_covers r p eo = true ->
    mol_ok r' = true -> mol_ok p' = true -> balanced r' p' = true -> eo_covers r' p' eo' = true ->
    ren r r' -> ren p p' ->
    let A := gml_to_its (smart_to_gml r p eo true false explicit_h) in
    let A' := gml_to_its (smart_to_gml r' p' eo' true false explicit_h) in
    (forall k, has_node A' k = true <-> exists n, has_node A n = true /\ k = s n) /\
    (forall n e q q', label A n = Some (gml_node n e q q') -> label A' (s n) = Some (gml_node (s n) e q q')) /\
    (forall u v, has_node A u = true -> has_node A v = true -> adj A' (s u) (s v) = adj A u v).
Proof.
  intros s r p r' p' eo eo' eh ren Hr Hp Hb He Hr' Hp' Hb' He' (R1 & R2 & R3 & R4) (S1 & S2 & S3 & S4).
  apply (rule_renumbering s r p r' p' eo eo' eh Hr Hp Hb He Hr' Hp' Hb' He');
    [exact (Build_renamed s r r' R1 R2 R3 R4)|exact (Build_renamed s p p' S1 S2 S3 S4)].
Qed.
Print Assumptions C10_rule_renumbering.

(** KNOWN FINDING smiles_to_graph:use_index_as_atom_map:partial-mapping-id-collision (code kept as it is; known_findings.d/C10.json).
    SMILES -> graph loses an atom under the non-default flag use_index_as_atom_map=True (with drop_non_aam=False) on a PARTIALLY
    mapped molecule: mapped atoms are numbered by their map number, unmapped atoms by index + 1, and the two ranges overlap.
    Witness [CH3:2]C: a well-formed molecule with distinct map numbers, two atoms, ONE node (with a self-loop) in the graph, and
    graph_to_mol fails on it; with the default flags the same molecule converts to two nodes and back.  Fully mapped and unmapped
    molecules and rsmi_to_graph (drop_non_aam=True) are unaffected; the oracle emits the finding's key exactly when an unmapped
    atom's index + 1 equals another atom's map number. *)
Theorem C10_partial_mapping_id_collision_refuted :
  exists m : rmol, wf_mol m = true /\ nodupb (map fst (numT (fst m))) = true /\
    List.length (gnodes (mol_to_graph m false true)) = 1%nat /\ List.length (fst m) = 2%nat /\
    graph_to_mol (mol_to_graph m false true) = None /\
    List.length (gnodes (mol_to_graph m false false)) = 2%nat /\ graph_to_mol (mol_to_graph m false false) <> None.
Proof. exact partial_mapping_id_collision_refuted. Qed.
Print Assumptions C10_partial_mapping_id_collision_refuted.

(** DFS-STYLE ANNOTATED SMILES ("[H]1", map number after the bracket; the wildcard is "[]3") <-> SMILES WITH ATOM MAPS ("[H:1]",
    "[*:3]"): the string rewriting at the bottom of chem_converter.py (dfs_to_smiles / smiles_to_dfs: str.replace + re.sub,
    modelled on code-point lists in model/C10_Dfs.v and compared on every run).  For every token string — bracket atoms
    "[inner]digits" whose content has no bracket and no colon and is not "*", wildcard atoms "[]digits", every map number followed by
    a non-digit, and any other characters except "[" in between — that does not contain "[*]": dfs_to_smiles moves every map number
    into its bracket (writing the wildcard "[*:n]"), smiles_to_dfs moves it out again, and DFS -> SMILES -> DFS is the identity.
    (Outside the domain it is not: "[C:1]5" comes back as "[C]15", proof/C10_Dfs.v dfs_roundtrip_needs_stop.) *)
Theorem C10_dfs_roundtrip :
  forall l : list dtok, toks_ok l = true -> contains s_star_br (render_toks l) = false ->
    dfs_to_smiles (render_toks l) true = render_mapped l /\ smiles_to_dfs (render_mapped l) = render_toks l /\
    smiles_to_dfs (dfs_to_smiles (render_toks l) true) = render_toks l.
Proof. exact dfs_roundtrip. Qed.
Print Assumptions C10_dfs_roundtrip.

(** THE THREE ROUTES, FROM THE RDKIT RECORDS: the inputs are what MolToGraph reads from the two sanitised RDKit molecules of a reaction
    string (atoms: symbol, aromatic flag, total H count, charge, map; bonds: begin, end, 2 x type), in the contract [rdmol_ok] (element
    symbols in [A-Za-z*]+, bond types single / aromatic / double / triple, distinct map numbers — monitored per molecule);
    r, p = rsmi_to_graph's graphs (drop_non_aam = use_index_as_atom_map = True).  If the reaction is atom-balanced, the rule written
    from the string, from the full ITS and from the centre only each read back as exactly the reaction centre. *)
Theorem C10_three_routes_from_records :
  forall (mr mp : rmol) (eo : list (N * N)) (explicit_h : bool),
    rdmol_ok mr = true -> rdmol_ok mp = true ->
    let r := mol_to_graph mr true true in
    let p := mol_to_graph mp true true in
    balanced r p = true -> eo_covers r p eo = true ->
    let c := get_rc (its_construct r p eo) in
    let reads_c := fun X : gr =>
      (forall n, has_node X n = has_node c n) /\
      (forall n a, label c n = Some a ->
         label X n = Some (gml_node n (tg_el (tG_of a)) (tg_ch (tG_of a)) (tg_ch (tH_of a)))) /\
      (forall u v, adj X u v = adj c u v) in
    reads_c (gml_to_its (smart_to_gml r p eo true false explicit_h)) /\
    reads_c (gml_to_its (its_to_gml (rsmi_to_its r p eo false false) true false explicit_h)) /\
    reads_c (gml_to_its (its_to_gml (rsmi_to_its r p eo true false) true false explicit_h)).
Proof. exact three_routes_from_records. Qed.
Print Assumptions C10_three_routes_from_records.

(** GraphToMol.graph_to_mol DESCRIBED BY THE TWO LOOKUPS, for every molecule-shaped graph — any networkx graph (any node ids, any
    insertion and adjacency order) whose bonds join two different atoms and carry a scalar order: the atoms handed to RDKit are the
    node list in order (symbol, charge, map, explicit-H count from the dictionary), and between the atoms at positions i and j
    (positions = index in the node order) the bond is get_bond_type_from_order of the bond dictionary of the two nodes (a missing
    order counts as 1); no other bond.  The order in which edges_iter walks the bonds never matters. *)
Theorem C10_graph_to_mol_spec :
  forall G : gr, gwfb G = true ->
    (forall u v x, adj G u v = Some x -> u <> v /\ match e_ord x with Some (OP _ _) => False | _ => True end) ->
    exists bonds', graph_to_mol G = Some (map (fun p : N * natt => g2m_atom (snd p)) (gnodes G), bonds') /\
      (forall u v i j, index_of u (node_ids G) 0 = Some i -> index_of v (node_ids G) 0 = Some j ->
         bond_find i j bonds' =
         option_map (fun x => bond_type (match e_ord x with Some (OS z) => z | _ => 2 end)) (adj G u v)) /\
      (forall i j t, bond_find i j bonds' = Some t ->
         exists u v, index_of u (node_ids G) 0 = Some i /\ index_of v (node_ids G) 0 = Some j).
Proof. intros G Hw Hm. exact (graph_to_mol_spec G (gwfb_gwf G Hw) Hm). Qed.
Print Assumptions C10_graph_to_mol_spec.

(** Molecule -> graph -> molecule ON THE REACTION PATH (rsmi_to_graph: drop_non_aam = use_index_as_atom_map = True, node id = atom-map
    number).  For every fully mapped molecule record in the contract [rdmol_ok] the RWMol handed back to RDKit has exactly the atoms
    that were read, in order (symbol, charge, map, total H count as explicit no-implicit count), and between every pair of atom
    indices exactly the bond that was read — the statement of C10_mol_graph_roundtrip, for the flags the reaction routes use
    (closes a round-5 "left undone" item). *)
Theorem C10_mol_graph_roundtrip_mapped :
  forall m : rmol, rdmol_ok m = true -> forallb (fun a => negb (r_map a =? 0)) (fst m) = true ->
    exists bonds', graph_to_mol (mol_to_graph m true true) = Some (map atom_back (fst m), bonds') /\
                   forall i j, bond_find i j bonds' = option_map bond_type (bond_find i j (snd m)).
Proof. exact mol_graph_roundtrip_mapped. Qed.
Print Assumptions C10_mol_graph_roundtrip_mapped.

(** RENUMBERING THE ATOM MAPS IN THE REACTION STRING RENUMBERS THE RULE, from the RDKit records: mr, mp are the records of the two
    sides (contract [rdmol_ok], every atom mapped with a positive number); [remap sg m] is the record of the same molecule with every
    map number k written sg k (same atoms in the same order, same bonds — what substituting the numbers in the string gives), again
    in the contract.  If both reactions are atom-balanced, the rule written for the renumbered reaction reads back as the rule of the
    original with every atom n replaced by s n = sg n: same element, charges, (before, after) bonds; nothing else.  (Composes
    C10_rule_renumbering with proof/C10_RenumberRec.v remap_renamed: the graphs of a remapped record are a renamed pair.) *)
Theorem C10_rule_renumbering_records :
  forall (sg : Z -> Z) (mr mp : rmol) (eo eo' : list (N * N)) (explicit_h : bool),
    rdmol_ok mr = true -> rdmol_ok mp = true -> forallb pos_mapped (fst mr) = true -> forallb pos_mapped (fst mp) = true ->
    rdmol_ok (remap sg mr) = true -> rdmol_ok (remap sg mp) = true ->
    forallb pos_mapped (fst (remap sg mr)) = true -> forallb pos_mapped (fst (remap sg mp)) = true ->
    let r := mol_to_graph mr true true in let p := mol_to_graph mp true true in
    let r' := mol_to_graph (remap sg mr) true true in let p' := mol_to_graph (remap sg mp) true true in
    balanced r p = true -> eo_covers r p eo = true -> balanced r' p' = true -> eo_covers r' p' eo' = true ->
    let A := gml_to_its (smart_to_gml r p eo true false explicit_h) in
    let A' := gml_to_its (smart_to_gml r' p' eo' true false explicit_h) in
    let s := sN sg in
    (forall k, has_node A' k = true <-> exists n, has_node A n = true /\ k = s n) /\
    (forall n e q q', label A n = Some (gml_node n e q q') -> label A' (s n) = Some (gml_node (s n) e q q')) /\
    (forall u v, has_node A u = true -> has_node A v = true -> adj A' (s u) (s v) = adj A u v).
Proof. exact rule_renumbering_records. Qed.
Print Assumptions C10_rule_renumbering_records.

(** Reaction string side -> graph -> SMILES ON THE REACTION PATH under the RDKit contracts (read: the sanitised molecule of a fully
    mapped side of a reaction string is a record in [rdmol_ok]; write: rebuilding a molecule from the same atoms and the same bonds,
    in any bond order, writes the canonical SMILES): graph_to_smi of the graph rsmi_to_graph builds is the canonical SMILES of the
    side.  Both premises are about RDKit and are monitored (rdmol_ok per molecule; oracle clause smiles-roundtrip). *)
Theorem C10_rsmi_side_roundtrip_under_rdkit_contract :
  forall (Smi : Type) (read : Smi -> option rmol) (write : list watom * list (N * N * Z) -> option Smi) (canon : Smi -> Smi),
    (forall s m, read s = Some m -> rdmol_ok m = true /\ forallb (fun a => negb (r_map a =? 0)) (fst m) = true) ->
    (forall s m bonds', read s = Some m -> (forall i j, bond_find i j bonds' = bond_find i j (snd m)) ->
                        write (map atom_back (fst m), bonds') = Some (canon s)) ->
    forall s m, read s = Some m ->
      match graph_to_mol (mol_to_graph m true true) with Some w => write w | None => None end = Some (canon s).
Proof. exact rsmi_side_roundtrip_under_contract. Qed.
Print Assumptions C10_rsmi_side_roundtrip_under_rdkit_contract.

(** graph_to_mol depends only on the node order and the two lookups: two molecule-shaped networkx graphs with the same nodes in the
    same order, the same node dictionaries and the same bond dictionaries hand RDKit the same atoms and, between every pair of atom
    indices, the same bond — whatever their insertion / adjacency orders are. *)
Theorem C10_graph_to_mol_extensional :
  forall G1 G2 : gr, gwfb G1 = true -> gwfb G2 = true ->
    (forall u v x, adj G1 u v = Some x -> u <> v /\ match e_ord x with Some (OP _ _) => False | _ => True end) ->
    node_ids G1 = node_ids G2 -> (forall n, label G1 n = label G2 n) -> (forall u v, adj G1 u v = adj G2 u v) ->
    exists atoms b1 b2, graph_to_mol G1 = Some (atoms, b1) /\ graph_to_mol G2 = Some (atoms, b2) /\
                        forall i j, bond_find i j b1 = bond_find i j b2.
Proof. intros G1 G2 H1 H2. apply graph_to_mol_ext; apply gwfb_gwf; assumption. Qed.
Print Assumptions C10_graph_to_mol_extensional.

(** "Making hydrogens explicit and implicit again ... does not change the molecule", at the level of what is handed to RDKit: for
    every molecule graph (networkx graph without typesGH and without explicit hydrogens whose bonds join two different atoms and carry
    a scalar order) graph_to_mol of h_to_implicit (h_to_explicit g) and graph_to_mol of g succeed with the same atoms and the same bond
    between every pair of atom indices. *)
Theorem C10_h_roundtrip_molecule :
  forall g : gr, gwfb g = true -> no_H g = true -> no_tgh g = true ->
    (forall u v x, adj g u v = Some x -> u <> v /\ match e_ord x with Some (OP _ _) => False | _ => True end) ->
    exists atoms b1 b2, graph_to_mol (h_to_implicit (h_to_explicit g None false)) = Some (atoms, b1) /\
                        graph_to_mol g = Some (atoms, b2) /\ forall i j, bond_find i j b1 = bond_find i j b2.
Proof. exact h_roundtrip_molecule. Qed.
Print Assumptions C10_h_roundtrip_molecule.

(** THE THREE ROUTES THROUGH THE TEXT: what is written is a TEXT (rule name without a newline) and what gml_to_its reads is that text.
    For an atom-balanced pair of molecule graphs, each of the three rule texts — whenever its record is in the domain [rec_okb] of the
    text layer (labels without whitespace / quote, no line containing a section keyword: monitored on every its_to_gml export,
    text_theorem_domain = all exports of a run; the smart_to_gml record is the same record by C10_two_routes_string_its) — is read by GMLToNX.transform into an ITS that is exactly the reaction centre. *)
Theorem C10_three_routes_text :
  forall (r p : gr) (eo : list (N * N)) (explicit_h : bool) (name : str),
    mol_ok r = true -> mol_ok p = true -> balanced r p = true -> eo_covers r p eo = true -> ~ In 10%N name ->
    let c := get_rc (its_construct r p eo) in
    let reads_c := fun X : gr =>
      (forall n, has_node X n = has_node c n) /\
      (forall n a, label c n = Some a ->
         label X n = Some (gml_node n (tg_el (tG_of a)) (tg_ch (tG_of a)) (tg_ch (tH_of a)))) /\
      (forall u v, adj X u v = adj c u v) in
    let via_text := fun rec : grec => rec_okb rec = true ->
      exists X, option_map snd (text_to_nx (render name rec)) = Some X /\ reads_c X in
    via_text (smart_to_gml r p eo true false explicit_h) /\
    via_text (its_to_gml (rsmi_to_its r p eo false false) true false explicit_h) /\
    via_text (its_to_gml (rsmi_to_its r p eo true false) true false explicit_h).
Proof. exact three_routes_text. Qed.
Print Assumptions C10_three_routes_text.

(** THE POSITIVE SIDE of the known finding (C10_partial_mapping_id_collision_refuted): MolToGraph.transform(drop_non_aam=False,
    use_index_as_atom_map=ui) gives every atom the id [atom_id ui index atom] (its map number if ui and mapped, index + 1 otherwise);
    whenever these ids are pairwise distinct — always for ui=False, for fully mapped molecules with distinct maps, for unmapped
    molecules, and for a partially mapped molecule iff no unmapped atom's index + 1 is another atom's map number (the oracle's key
    condition) — the graph has exactly one node per atom, in atom order, with these ids: no atom is lost. *)
Theorem C10_index_ids_no_collision :
  forall (m : rmol) (ui : bool), nodupb (atom_ids ui 0 (fst m)) = true ->
    node_ids (mol_to_graph m false ui) = atom_ids ui 0 (fst m).
Proof. exact index_ids_no_collision. Qed.
Print Assumptions C10_index_ids_no_collision.

(** ... and for ANY node list (a subset of the atoms, a single reactive atom as the reactor does, a staged expansion, duplicates, ids
    that are not atoms): h_to_implicit (h_to_explicit g nodes) hands RDKit the same molecule as g. *)
Theorem C10_h_roundtrip_molecule_nodes :
  forall (g : gr) (nodes : option (list N)), gwfb g = true -> no_H g = true -> no_tgh g = true ->
    (forall u v x, adj g u v = Some x -> u <> v /\ match e_ord x with Some (OP _ _) => False | _ => True end) ->
    exists atoms b1 b2, graph_to_mol (h_to_implicit (h_to_explicit g nodes false)) = Some (atoms, b1) /\
                        graph_to_mol g = Some (atoms, b2) /\ forall i j, bond_find i j b1 = bond_find i j b2.
Proof. exact h_roundtrip_molecule_nodes. Qed.
Print Assumptions C10_h_roundtrip_molecule_nodes.

From SK Require Import proof.C10_HRound2 proof.C10_HRound2b.

(** ROUND 6 — THE HYDROGEN ROUND TRIP ON GRAPHS THAT CONTAIN HYDROGEN ATOMS.  C10_h_roundtrip* above need a graph without any hydrogen
    atom.  The clause only needs that no hydrogen atom is bonded to a non-hydrogen atom: molecular hydrogen, protons / hydrides and lone
    hydrogens may be there (h_to_implicit keeps them since repairs 7497a0b / 3ba7a77).  Domain, written out: g is a networkx graph
    ([gwfb]) in which every hydrogen atom is BARE — it carries no implicit hydrogens of its own (hcount <= 0 or absent) and every
    neighbour of it is a hydrogen atom.  Then for ANY node list (None / [] = all atoms, a subset, duplicates, ids that are not atoms) and
    EITHER mode (its = False / True), g' = h_to_implicit (h_to_explicit g nodes its) satisfies
      - node_ids g' = node_ids g: the same nodes in the same order — every hydrogen h_to_explicit added (ids max id + 1 ...) is gone
        again, every bare hydrogen of g is still there; no renumbering remains;
      - at every node n of g the dictionary of g, except that at the atoms that were expanded the typesGH halves h_to_explicit lowered
        stay lowered ([h_restore_gen]: reactant half for its=False, both halves for its=True; a node without typesGH is restored
        exactly, and hcount itself IS restored);
      - between every pair of nodes the bond dictionary of g up to [fin_edge]: identical for its=False; for its=True the final
        normalize_edge_orders has turned a scalar order o into (o, o) and a missing standard_order into 0.
    Adjacency ORDER is not claimed.  Outside the domain (a hydrogen bonded to a heavy atom) the graph is not restored — the hydrogen is
    folded into its atom (proof/C10_HRound2.v h_roundtrip_bare_needed); the count and the heavy skeleton are (C10_h_total_*,
    C10_h_*_skeleton). *)
Theorem C10_h_roundtrip_bare_hydrogens :
  forall (g : gr) (nodes : option (list N)) (its : bool), gwfb g = true ->
    (forall n a, label g n = Some a -> el_is_H a = true ->
       dflt (a_hc a) 0 <= 0 /\ forall w, adj g n w <> None -> is_H g w = true) ->
    let g' := h_to_implicit (h_to_explicit g nodes its) in
    node_ids g' = node_ids g /\
    (forall n a, label g n = Some a ->
       label g' n = Some (if mem n (exp_nodes g nodes) then h_restore_gen its a else a)) /\
    (forall u v, adj g' u v = option_map (fin_edge its) (adj g u v)).
Proof. exact h_roundtrip_bare. Qed.
Print Assumptions C10_h_roundtrip_bare_hydrogens.

(** ... for molecule graphs (no typesGH) and its=False every node dictionary and every bond dictionary is restored exactly, and the
    molecule handed to RDKit (graph_to_mol) is the same: same atoms in order, same bond between every pair of atom indices. *)
Theorem C10_h_roundtrip_bare_hydrogens_mol :
  forall (g : gr) (nodes : option (list N)), gwfb g = true ->
    (forall n a, label g n = Some a -> el_is_H a = true ->
       dflt (a_hc a) 0 <= 0 /\ forall w, adj g n w <> None -> is_H g w = true) ->
    no_tgh g = true ->
    let g' := h_to_implicit (h_to_explicit g nodes false) in
    (node_ids g' = node_ids g /\ (forall n, label g' n = label g n) /\ (forall u v, adj g' u v = adj g u v)) /\
    ((forall u v x, adj g u v = Some x -> u <> v /\ match e_ord x with Some (OP _ _) => False | _ => True end) ->
     exists atoms b1 b2, graph_to_mol g' = Some (atoms, b1) /\ graph_to_mol g = Some (atoms, b2) /\
                         forall i j, bond_find i j b1 = bond_find i j b2).
Proof.
  intros g nodes Hw Hb Ht. split; [exact (h_roundtrip_bare_mol g nodes Hw Hb Ht)|exact (h_roundtrip_bare_molecule g nodes Hw Hb Ht)].
Qed.
Print Assumptions C10_h_roundtrip_bare_hydrogens_mol.
