From Coq Require Import List NArith ZArith String.
From SK Require Import lib.StrJoin model.C10_Model proof.C10_Proof.
Theorem C10_label_example : extract_element_and_charge (s2l "Fe"%string ++ charge_to_string 3) = (s2l "Fe"%string, 3%Z).
Proof. exact label_example. Qed.
Print Assumptions C10_label_example.
