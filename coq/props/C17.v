From Coq Require Import List ZArith.
From SK Require Import lib.C17_Farkas.
Import ListNotations.
Open Scope Z_scope.

(** A checked positive certificate proves conservativity, for every integer matrix. *)
Theorem C17_pos_cert_sound : forall (n : nat) (S : list (list Z)) (y : list Z),
  check_pos n S y = true ->
  exists y, length y = length S /\ Forall (fun t => 0 < t) y /\ Forall (fun t => t = 0) (vecmat n y S).
Proof. exact pos_cert_sound. Qed.
Print Assumptions C17_pos_cert_sound.
