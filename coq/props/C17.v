From Coq Require Import List NArith ZArith Permutation Sorting.Sorted.
Require mathcomp.algebra.mxalgebra mathcomp.algebra.matrix mathcomp.algebra.rat.
Require SK.lib.RankBridge SK.proof.C17_Rank.
From SK Require Import lib.IRSortKeys lib.C17_Farkas model.C17_Model proof.C17_Proof model.C17_NodeModel proof.C17_Nodes
  model.C17_IntLaws proof.C17_IntLawsProof model.C17_RawModel proof.C17_Raw model.C17_Fallback proof.C17_FallbackProof proof.C17_Premises.
Import ListNotations.

(** (1) build_S: one row per species, one column per reaction. *)
Theorem C17_S_shape : forall (net : list rxn) (iso : list str),
  length (build_S net iso) = length (species_order net iso) /\
  Forall (fun row => length row = length (reaction_order net)) (build_S net iso) /\
  length (reaction_order net) = length net.
Proof. exact S_shape. Qed.
Print Assumptions C17_S_shape.

(** (2) rows = the species of the network (occurring or kept), strictly sorted by label. *)
Theorem C17_S_rows : forall (net : list rxn) (iso : list str),
  species_order net iso = species_set net iso /\
  @ssorted str strleb (species_order net iso) /\
  forall s, In s (species_order net iso) <-> (exists e, In e net /\ In s (rxn_species e)) \/ In s iso.
Proof.
  intros net iso. split; [apply species_order_eq|]. rewrite species_order_eq.
  split; [apply species_set_sorted | apply species_set_in].
Qed.
Print Assumptions C17_S_rows.

(** (3) columns = the reactions, in the stable order by rule label, then by edge id. *)
Theorem C17_S_columns : forall (net : list rxn),
  Permutation (reaction_order net) net /\
  StronglySorted (fun a b => (strleb (rrule a) (rrule b) = true /\ rrule a <> rrule b) \/
                             (rrule a = rrule b /\ strleb (rid a) (rid b) = true)) (reaction_order net).
Proof. intros net. split; [apply reaction_order_perm | apply reaction_order_sorted]. Qed.
Print Assumptions C17_S_columns.

(** (4) entry (species s, reaction e) = produced - consumed; S_minus / S_plus hold the two amounts. *)
Theorem C17_S_entries : forall (net : list rxn) (iso : list str), NoDup (map rid net) ->
  forall i j s e, nth_error (species_order net iso) i = Some s -> nth_error (reaction_order net) j = Some e ->
  nth j (nth i (build_S net iso) []) 0%Z = (produced s e - consumed s e)%Z /\
  nth j (nth i (S_minus net iso) []) 0%Z = consumed s e /\
  nth j (nth i (S_plus net iso) []) 0%Z = produced s e.
Proof.
  intros net iso ND i j s e Hi Hj. split; [apply S_entries; auto | apply S_minus_plus_entries; auto].
Qed.
Print Assumptions C17_S_entries.

(** (5) build_S equals the network's own incidence matrix (rows sorted species, columns sorted edge ids) up to the
        stated column order. *)
Theorem C17_S_incidence : forall (net : list rxn) (iso : list str), NoDup (map rid net) ->
  species_order net iso = species_set net iso /\
  Permutation (reaction_order net) (edges_sorted net) /\
  forall i j j' s e, nth_error (species_order net iso) i = Some s ->
    nth_error (reaction_order net) j = Some e -> nth_error (edges_sorted net) j' = Some e ->
    nth j (nth i (build_S net iso) []) 0%Z = nth j' (nth i (incidence net iso) []) 0%Z.
Proof. exact S_incidence. Qed.
Print Assumptions C17_S_incidence.

(** (6) a checked rank certificate gives the exact rank over the rationals (MathComp \rank), for every integer matrix;
        the kernels have dimensions m - r and n - r. *)
Theorem C17_rank_cert_sound : forall (m n : nat) (S : list (list Z)) (c : rcert),
  rank_checked m n S c = true ->
  let F := mathcomp.algebra.rat.rat_fieldType in
  let M := SK.lib.RankBridge.toM m n S in
  @mathcomp.algebra.mxalgebra.mxrank F m n M = rc_r c /\
  @mathcomp.algebra.mxalgebra.mxrank F m m (@mathcomp.algebra.mxalgebra.kermx F m n M) = (m - rc_r c)%nat /\
  @mathcomp.algebra.mxalgebra.mxrank F n n
     (@mathcomp.algebra.mxalgebra.kermx F n m (@mathcomp.algebra.matrix.trmx mathcomp.algebra.rat.rat m n M)) = (n - rc_r c)%nat.
Proof.
  intros m n S c H. split; [apply SK.proof.C17_Rank.rank_checked_sound; exact H|].
  exact (SK.proof.C17_Rank.kernel_dims H).
Qed.
Print Assumptions C17_rank_cert_sound.

(** (7) conservativity certificates (Stiemke, easy direction), for every integer matrix. *)
Theorem C17_pos_cert_sound : forall (n : nat) (S : list (list Z)) (y : list Z),
  check_pos n S y = true ->
  exists y, length y = length S /\ Forall (fun t => (0 < t)%Z) y /\ Forall (fun t => t = 0%Z) (vecmat n y S).
Proof. exact pos_cert_sound. Qed.
Print Assumptions C17_pos_cert_sound.

Theorem C17_neg_cert_sound : forall (n : nat) (S : list (list Z)) (x : list Z),
  check_neg n S x = true ->
  ~ exists y, length y = length S /\ Forall (fun t => (0 < t)%Z) y /\ Forall (fun t => t = 0%Z) (vecmat n y S).
Proof. exact neg_cert_sound. Qed.
Print Assumptions C17_neg_cert_sound.

(** (8) consistency certificates. *)
Theorem C17_flux_pos_cert_sound : forall (n : nat) (S : list (list Z)) (v : list Z),
  check_fpos n S v = true ->
  exists v, length v = n /\ Forall (fun t => (0 < t)%Z) v /\ Forall (fun t => t = 0%Z) (matvec S v).
Proof. exact fpos_cert_sound. Qed.
Print Assumptions C17_flux_pos_cert_sound.

Theorem C17_flux_neg_cert_sound : forall (n : nat) (S : list (list Z)) (y : list Z),
  check_fneg n S y = true ->
  ~ exists v, length v = n /\ Forall (fun t => (0 < t)%Z) v /\ Forall (fun t => t = 0%Z) (matvec S v).
Proof. exact fneg_cert_sound. Qed.
Print Assumptions C17_flux_neg_cert_sound.

(** (9) a checked certificate DECIDES the question (what the per-input comparison relies on). *)
Theorem C17_cert_decides : forall (n : nat) (S : list (list Z)) (c : fcert) (b : bool),
  (decide_conservative n S c = Some b -> (b = true <-> conservative n S)) /\
  (decide_consistent n S c = Some b -> (b = true <-> consistent n S)).
Proof. intros n S c b. split; [apply decide_conservative_sound | apply decide_consistent_sound]. Qed.
Print Assumptions C17_cert_decides.

(** (10) the code's verdict logic never reports a law / flux that does not exist, provided the numerics it consults
         are sound (explicit premises: a sign-definite kernel basis column / an LP solution is a genuine witness). *)
Theorem C17_verdicts_sound : forall (k kr n : nat) (S : list (list Z)) (nm : numerics),
  (nm_scanL nm = true -> conservative n S) -> (nm_lpL nm = true -> conservative n S) ->
  (nm_lpR nm = 0%nat -> consistent n S) -> (nm_scanR nm = true -> consistent n S) ->
  (conservative_verdict k nm = true -> conservative n S) /\
  (consistent_verdict kr nm = Some true -> consistent n S).
Proof.
  intros k kr n S nm H1 H2 H3 H4. split; [apply conservative_verdict_sound; auto | apply consistent_verdict_sound; auto].
Qed.
Print Assumptions C17_verdicts_sound.

(** (11) REFUTED for the code as it is (known finding, kept because two repository tests pin it): "reported
         conservative whenever a strictly positive law exists".  Witness A + B <-> C: conservative; B_ABC is a basis of
         its left kernel with no sign-definite column; the LP the code poses over it (min 1^T a, B a >= eps, a free;
         eps scaled to 1) is feasible and unbounded; on "no success" the code answers False. *)
Theorem C17_conservative_complete_refuted :
  exists (net : list rxn) (B : list (list Z)),
    let S := build_S net [] in
    conservative 2 S /\
    (forall j, (j < 2)%nat -> all_zero (vecmat 2 (col j B) S) = true) /\
    (forall j, (j < 2)%nat -> all_pos (col j B) = false /\ all_pos (map Z.opp (col j B)) = false) /\
    (exists a0, forallb (fun t => (1 <=? t)%Z) (matvec B a0) = true) /\
    (exists d, all_nonneg (matvec B d) = true /\ (fold_right Z.add 0%Z d < 0)%Z) /\
    conservative_verdict 2 (Num false false 0 false) = false.
Proof. exists net_ABC, B_ABC. exact conservative_complete_refuted. Qed.
Print Assumptions C17_conservative_complete_refuted.

(** (12) Node identifiers never matter.  The code computes labels, index dictionaries and the matrices on a bipartite
         graph whose nodes carry identifiers (integers 1..N+M of the hypergraph export, strings, anything a caller
         chose): nodes are sorted by label, the row / column of a node is looked up BY IDENTIFIER, the matrices are
         filled arc by arc (model/C17_NodeModel.v).  For every network and EVERY injective assignment of identifiers to
         species and reactions this gives exactly the species labels, reaction labels, S_minus, S_plus and S of the
         label-level model — so theorems (1)-(5) hold for it: row i belongs to label i whatever the identifiers look
         like (two-digit, permuted, ordered differently as strings and as numbers). *)
Theorem C17_S_node_ids : forall (ids idr : str -> N) (net : list rxn) (iso : list str),
  (forall s s', In s (species_set net iso) -> In s' (species_set net iso) -> ids s = ids s' -> s = s') ->
  (forall e e', In e net -> In e' net -> idr (rid e) = idr (rid e') -> rid e = rid e') ->
  NoDup (map rid net) ->
  let G := export ids idr net iso in
  node_labels (bg_species G) = species_order net iso /\
  node_labels (bg_rxns G) = map rrule (reaction_order net) /\
  fill Reactant G = S_minus net iso /\
  fill Product G = S_plus net iso /\
  build_S_nodes G = build_S net iso.
Proof. exact nodes_refine. Qed.
Print Assumptions C17_S_node_ids.

(** (13) The same for the form the correspondence evaluates on every case ([run_ids] computes these five slots on
         [graph_of net iso sid rids], with the identifiers read off the graph the implementation really used). *)
Theorem C17_S_node_ids_observed : forall (net : list rxn) (iso : list str) (sid rids : list N),
  NoDup (map rid net) ->
  NoDup sid -> length sid = length (species_set net iso) ->
  NoDup rids -> length rids = length net ->
  let G := graph_of net iso sid rids in
  node_labels (bg_species G) = species_order net iso /\
  node_labels (bg_rxns G) = map rrule (reaction_order net) /\
  fill Reactant G = S_minus net iso /\
  fill Product G = S_plus net iso /\
  build_S_nodes G = build_S net iso.
Proof. exact graph_of_refine. Qed.
Print Assumptions C17_S_node_ids_observed.

(** Integer scaling of kernel vectors (round 5; model coq/model/C17_IntLaws.v: Fraction.limit_denominator, _lcm,
    _vector_to_minimal_integer, integer_conservation_laws — a float is the exact rational float.as_integer_ratio()).
    limit_denominator: for every bound >= 1 and every fraction with a positive denominator the result has a positive
    denominator within the bound, and a fraction whose denominator is within the bound is returned unchanged. *)
Theorem C17_limit_denominator_bound :
  forall (maxd : Z) (x : frac), (1 <= maxd)%Z -> (0 < snd x)%Z ->
  (0 < snd (limit_denominator maxd x) <= maxd)%Z.
Proof. exact limit_denominator_bound. Qed.
Print Assumptions C17_limit_denominator_bound.

Theorem C17_limit_denominator_exact :
  forall (maxd : Z) (x : frac), (snd x <= maxd)%Z -> limit_denominator maxd x = x.
Proof. exact limit_denominator_exact. Qed.
Print Assumptions C17_limit_denominator_exact.

(** _vector_to_minimal_integer outside its two float-rounding fall-backs (where the model answers None), for every tolerance
    and every vector of floats: the answer has the length of the input; it is the zero vector exactly when every entry is
    within the tolerance; otherwise its entries have gcd 1 and it is the vector of rational approximations
    ([approx]: 0 within the tolerance, else limit_denominator(10^6)) scaled by ONE positive rational L / g with L <= 10^6 —
    a minimal integer vector positively proportional to the approximations (signs and zero pattern preserved). *)
Theorem C17_integer_law_minimal :
  forall (tol : frac) (vec : list frac) (out : list Z),
  Forall (fun x => (0 < snd x)%Z) vec ->
  min_int_vec tol vec = Some out ->
  length out = length vec /\
  ((forallb (fun x => abs_le x tol) vec = true /\ out = map (fun _ => 0%Z) vec) \/
   (forallb (fun x => abs_le x tol) vec = false /\
    gcd_list out = 1%Z /\
    exists L g, (0 < L <= MAXD)%Z /\ (0 < g)%Z /\
      Forall2 (fun o f => (o * g * snd f = fst f * L)%Z) out (map (approx tol) vec))).
Proof.
  intros tol vec out Hpos H. split; [exact (min_int_vec_length tol vec out H)|exact (min_int_vec_spec tol vec out Hpos H)].
Qed.
Print Assumptions C17_integer_law_minimal.

(** integer_conservation_laws: one answer per basis column, in column order, each computed from its own column only. *)
Theorem C17_integer_laws_columns :
  forall (tol : frac) (cols : list (list frac)),
  length (int_laws tol cols) = length cols /\
  forall k col, nth_error cols k = Some col -> nth_error (int_laws tol cols) k = Some (min_int_vec tol col).
Proof. exact int_laws_columns. Qed.
Print Assumptions C17_integer_laws_columns.

(** Attribute layer (round 5; model coq/model/C17_RawModel.v: _split_species_reactions, the label fall-back, the end-point and
    role / stoich reading of build_S_minus_plus on a caller-supplied graph whose nodes and edges carry only SOME of the documented
    attributes).  Everything the code computes from such a graph goes through [normalise]; and [normalise] — hence the labels, index
    dictionaries and matrices, and whether KeyError is raised — depends only on: each node's identifier, its two classification
    tests (kind == "species" or bipartite == 0 / kind == "reaction" or bipartite == 1) and its EFFECTIVE label (the label, else
    str(node)); each edge's end points, role and EFFECTIVE coefficient (stoich, else 1).  So it does not matter which of kind /
    bipartite carries the classification, whether a label is written out or falls back to the identifier, or whether a coefficient 1
    is written out. *)
Theorem C17_attributes_normalised :
  forall (G G' : rgraph),
  Forall2 (fun a b => rn_id a = rn_id b /\ species_like a = species_like b /\ reaction_like a = reaction_like b /\
                      label_of a = label_of b) (rg_nodes G) (rg_nodes G') ->
  Forall2 (fun e f => re_u e = re_u f /\ re_v e = re_v f /\ re_role e = re_role f /\
                      match re_stoich e with Some c => c | None => 1%Z end =
                      match re_stoich f with Some c => c | None => 1%Z end) (rg_edges G) (rg_edges G') ->
  normalise G = normalise G' /\ key_error G = key_error G' /\ run_raw G = run_raw G'.
Proof.
  intros G G' Hn He. destruct (normalise_eqv G G' Hn He) as [H1 H2]. split; [exact H1|split; [exact H2|]].
  exact (run_raw_eqv G G' Hn He).
Qed.
Print Assumptions C17_attributes_normalised.

(** an edge without a usable role, or one that does not join a species-like to a reaction-like node (species-species,
    reaction-reaction, an end without classification), contributes nothing *)
Theorem C17_foreign_edges_ignored :
  forall (G : rgraph) (e : redge), re_role e = None \/ ends G e = None -> arc_of G e = [].
Proof. exact arc_of_ignored. Qed.
Print Assumptions C17_foreign_edges_ignored.

(** The fully annotated export seen through the attribute layer: for every network, every assignment of node identifiers in which a
    species and a reaction never share an identifier, and whatever str(node) is, [normalise] of the raw export (kind, bipartite and
    label on every node; role and stoich on every arc; reactant arcs species -> reaction, product arcs reaction -> species) IS the
    node-level export of model/C17_NodeModel.v and no KeyError is raised.  With [C17_attributes_normalised] the same holds for every
    graph that is attribute-equivalent to it (classification carried by kind or by bipartite only, labels left to the identifiers,
    coefficients 1 left out), and [C17_S_node_ids] then gives: its labels and matrices are those of the label-level model. *)
Theorem C17_raw_export_normalised :
  forall (ids idr : str -> N) (strs : N -> str) (net : list rxn) (iso : list str),
  (forall s e, In s (species_set net iso) -> In e net -> ids s <> idr (rid e)) ->
  normalise (raw_export ids idr strs net iso) = export ids idr net iso /\
  key_error (raw_export ids idr strs net iso) = false.
Proof. exact normalise_raw_export. Qed.
Print Assumptions C17_raw_export_normalised.

(** Undirected inputs at the attribute level (conversion.py:_as_bipartite on an nx.Graph; [orient_raw]: every stored edge is oriented by
    its role, the reaction end found by kind == "reaction" or (kind absent and bipartite == 1)).  For every network, every identifier
    assignment with species and reaction ids distinct and WHICHEVER way the undirected graph stores each edge ([flips]), orienting gives
    back the directed raw export — so [C17_raw_export_normalised] (and with it [C17_S_node_ids]) covers undirected inputs
    ([run_raw_und] evaluates the attribute layer after [orient_raw] on the graph as networkx stores it). *)
Theorem C17_undirected_raw_input :
  forall (ids idr : str -> N) (strs : N -> str) (net : list rxn) (iso : list str) (flips : list bool),
  (forall s e, In s (species_set net iso) -> In e net -> ids s <> idr (rid e)) ->
  orient_raw (undirected_raw flips (raw_export ids idr strs net iso)) = raw_export ids idr strs net iso.
Proof. intros ids idr strs net iso flips H. exact (orient_undirected_raw ids idr strs net iso H flips). Qed.
Print Assumptions C17_undirected_raw_input.

(** The code paths taken when SciPy cannot be imported (module flag _SCIPY_AVAILABLE False; model coq/model/C17_Fallback.v, evaluated on
    a slice of the population with the flag switched off: exact kernel dimensions from the certified rank, fall-back verdicts).
    Whenever the fall-back verdict of is_conservative is definite it is the verdict of the SciPy path whatever the LP would answer; and
    under the same premise as [C17_verdicts_sound] (a sign-definite basis column is a law / a flux) a positive fall-back verdict is true. *)
Theorem C17_noscipy_agrees :
  forall (k : nat) (scanL b : bool),
  conservative_verdict_noscipy k scanL = Some b ->
  forall (lpL : bool) (lpR : nat) (scanR : bool), conservative_verdict k (Num scanL lpL lpR scanR) = b.
Proof. exact noscipy_conservative_agrees. Qed.
Print Assumptions C17_noscipy_agrees.

Theorem C17_noscipy_verdicts_sound :
  forall (k kr n : nat) (S : list (list Z)) (scanL scanR : bool),
  (scanL = true -> conservative n S) -> (scanR = true -> consistent n S) ->
  (conservative_verdict_noscipy k scanL = Some true -> conservative n S) /\
  (consistent_verdict_noscipy kr scanR = Some true -> consistent n S).
Proof. exact noscipy_verdicts_sound. Qed.
Print Assumptions C17_noscipy_verdicts_sound.

(** Fractional coefficients: a caller-supplied graph whose coefficients are c / d (d > 0 a common denominator) has the integer matrix
    d * S_Q; a strictly positive conservation law / steady flux exists for d * S exactly when it exists for S — the fractional graph
    views of the population are judged against the integer network. *)
Theorem C17_scaling_invariant :
  forall (d : Z) (n : nat) (S : list (list Z)), (0 < d)%Z ->
  (conservative n (mscale d S) <-> conservative n S) /\ (consistent n (mscale d S) <-> consistent n S).
Proof. exact scaling_invariant. Qed.
Print Assumptions C17_scaling_invariant.

(** Completeness direction of is_consistent ("consistent exactly when a strictly positive steady flux exists"), CONDITIONALLY: the
    verdict is True as soon as the LP answers "success, relative residual <= 1e-8" ([nm_lpR] = 0) — that HiGHS does so whenever a
    strictly positive flux exists is the SOLVER premise: tested per input against the certified truth (oracle clause `consistent`,
    exhaustive small scope + random + textbook networks), never proved.  None (inconclusive) is answered exactly when the LP gave no
    usable answer, the right kernel is non-trivial and no basis column is sign definite.  (For conservativity the unconditional
    converse is refuted: [C17_conservative_complete_refuted].) *)
Theorem C17_consistent_complete_conditional :
  forall (kr : nat) (nm : numerics),
  (nm_lpR nm = 0%nat -> consistent_verdict kr nm = Some true) /\
  (consistent_verdict kr nm = None <-> (2 <= nm_lpR nm)%nat /\ kr <> 0%nat /\ nm_scanR nm = false).
Proof. intros kr nm. split; [exact (consistent_verdict_lp_ok kr nm)|exact (consistent_verdict_none kr nm)]. Qed.
Print Assumptions C17_consistent_complete_conditional.

(** [C17_rank_cert_sound] at exactly the arguments [run] / [run_noscipy] evaluate: for every network, a checked certificate gives the
    rank of ITS stoichiometric matrix [build_S net iso] (rows = species, columns = reactions) over the rationals and both kernel
    dimensions (species - rank, reactions - rank). *)
Theorem C17_rank_of_network : forall (net : list rxn) (iso : list str) (c : rcert),
  let m := length (species_order net iso) in
  let n := length (reaction_order net) in
  rank_checked m n (build_S net iso) c = true ->
  let F := mathcomp.algebra.rat.rat_fieldType in
  let M := SK.lib.RankBridge.toM m n (build_S net iso) in
  @mathcomp.algebra.mxalgebra.mxrank F m n M = rc_r c /\
  @mathcomp.algebra.mxalgebra.mxrank F m m (@mathcomp.algebra.mxalgebra.kermx F m n M) = (m - rc_r c)%nat /\
  @mathcomp.algebra.mxalgebra.mxrank F n n
     (@mathcomp.algebra.mxalgebra.kermx F n m (@mathcomp.algebra.matrix.trmx mathcomp.algebra.rat.rat m n M)) = (n - rc_r c)%nat.
Proof. intros net iso c m n H. exact (C17_rank_cert_sound m n (build_S net iso) c H). Qed.
Print Assumptions C17_rank_of_network.

(** [C17_verdicts_sound] with its premises CHECKED instead of assumed: the observable of every network case ends with
    [premises_ok] = implb(flag of the external numerics, certified truth) for the four flags (sign scan of the left basis, LP of
    _positive_conservation_law_from_basis, LP of is_consistent accepted, sign scan of the right basis), compared with four Trues on
    every run.  Whenever that slot is all true the verdict logic is sound on that input — no assumption about numpy / scipy / HiGHS
    is left: a positive verdict comes with a checked certificate. *)
Theorem C17_verdicts_sound_checked :
  forall (k kr n : nat) (S : list (list Z)) (cc fc : fcert) (nm : numerics),
  premises_ok n S cc fc nm = [true; true; true; true] ->
  (conservative_verdict k nm = true -> conservative n S) /\
  (consistent_verdict kr nm = Some true -> consistent n S).
Proof. exact verdicts_sound_checked. Qed.
Print Assumptions C17_verdicts_sound_checked.
